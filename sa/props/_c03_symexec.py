"""Symbolic evaluation of the small evaluator functions of MathExpression (private helper of C03).

This is an abstract interpreter over a *term* domain, written for the handful of list-folding
evaluators the grammar hands its token lists to.  Nothing of the analysed library is executed:
its `ast` is interpreted over the following values

  * numbers  : rational functions (exact normal form: numerator/denominator polynomials with
               Fraction coefficients) over *atoms*; atoms are the symbolic operands handed in
               (`a`, `b`, ...), uninterpreted applications `pow(x, y)` (robust_pow and `**`),
               scope look-ups `variables[<token>]`, calls `f(x, y)` of scope functions, and
               `float(<text token>)`;
  * strings  : concrete operator tokens ('-', '*', ...) or symbolic text tokens (StrTok) that
               remember every string method applied to them;
  * lists / tuples / dicts of those, closures, references to package functions (inlined, depth
               bounded), opaque values for everything else.

Conditions that depend on symbolic values (``0 in operands``, ``getattr(f, 'validated')``) fork
the interpretation; every path is reported with the decisions taken.  Operands are modelled as
finite builtin floats (``isinstance(x, float)`` holds, numpy/str/MathArray tests fail, ``isnan``
and ``isinf`` are false).  Two numbers are compared by cross-multiplying their normal forms,
which decides equality of rational functions exactly: `a/b/c`, `a/(b*c)` and `a*(1/b)*(1/c)`
are the same number, `a/(b/c)` is not.  Anything outside the supported subset raises
AnalysisError (exit 2).
"""
import ast
from fractions import Fraction

from ..index import AnalysisError, unparse, short

MAX_DEPTH = 8
FUEL = 4000
INLINE_PREFIX = 'mitxgraders.helpers.calc.'
POW_FUNCS = {'mitxgraders.helpers.calc.robust_pow.robust_pow', 'numpy.power', 'pow', 'math.pow'}
IDENTITY_FUNCS = {'copy.copy', 'copy.deepcopy', 'numpy.float64', 'numpy.array'}
FALSE_FUNCS = {'numpy.isnan', 'numpy.isinf', 'math.isnan', 'math.isinf'}
CASE_METHODS = {'lower', 'upper', 'casefold', 'swapcase', 'title', 'capitalize'}


# ------------------------------------------------------------------ polynomials
def _p_clean(p):
    return {m: c for m, c in p.items() if c != 0}


def p_const(c):
    c = Fraction(c)
    return {(): c} if c != 0 else {}


def p_atom(i):
    return {((i, 1),): Fraction(1)}


def p_add(a, b):
    out = dict(a)
    for m, c in b.items():
        out[m] = out.get(m, 0) + c
    return _p_clean(out)


def p_neg(a):
    return {m: -c for m, c in a.items()}


def _m_mul(m1, m2):
    d = dict(m1)
    for i, e in m2:
        d[i] = d.get(i, 0) + e
    return tuple(sorted(d.items()))


def p_mul(a, b):
    out = {}
    for m1, c1 in a.items():
        for m2, c2 in b.items():
            m = _m_mul(m1, m2)
            out[m] = out.get(m, 0) + c1 * c2
    if len(out) > 5000:
        raise AnalysisError('symbolic value grew too large')
    return _p_clean(out)


class RF(object):
    """Rational function n/d (d never the zero polynomial)."""
    __slots__ = ('n', 'd')

    def __init__(self, n, d=None):
        self.n = n
        self.d = d if d is not None else p_const(1)

    @staticmethod
    def const(c):
        return RF(p_const(c))

    def is_zero(self):
        return not self.n

    def const_value(self):
        """Fraction if this is a constant, else None."""
        if all(m == () for m in self.n) and all(m == () for m in self.d):
            return Fraction(self.n.get((), 0)) / Fraction(self.d.get((), 1))
        # n = c * d ?
        if len(self.d) >= 1 and self.n:
            m0 = next(iter(self.d))
            if m0 in self.n:
                c = self.n[m0] / self.d[m0]
                if p_add(self.n, p_neg(p_mul(p_const(c), self.d))) == {}:
                    return c
        return None

    def add(self, o):
        if self.d == o.d:
            return RF(p_add(self.n, o.n), self.d)
        return RF(p_add(p_mul(self.n, o.d), p_mul(o.n, self.d)), p_mul(self.d, o.d))

    def neg(self):
        return RF(p_neg(self.n), self.d)

    def sub(self, o):
        return self.add(o.neg())

    def mul(self, o):
        return RF(p_mul(self.n, o.n), p_mul(self.d, o.d))

    def div(self, o):
        if o.is_zero():
            raise ZeroDivisionError
        return RF(p_mul(self.n, o.d), p_mul(self.d, o.n))

    def eq(self, o):
        return p_mul(self.n, o.d) == p_mul(o.n, self.d)


# ----------------------------------------------------------------------- values
class Num(object):
    __slots__ = ('rf', 'text')

    def __init__(self, rf, text):
        self.rf = rf
        self.text = text

    def __repr__(self):
        return 'Num(%s)' % self.text


class StrTok(object):
    """A symbolic text token; `ops` are the string methods applied to it so far."""
    __slots__ = ('base', 'ops')

    def __init__(self, base, ops=()):
        self.base = base
        self.ops = tuple(ops)

    @property
    def key(self):
        return (self.base,) + self.ops

    @property
    def text(self):
        return '<%s>' % self.base + ''.join('.%s()' % o for o in self.ops)

    def __repr__(self):
        return self.text


class DictSym(object):
    def __init__(self, role, kind):
        self.role = role
        self.kind = kind      # 'num' | 'func'


class FuncSym(object):
    def __init__(self, key, text):
        self.key = key
        self.text = text


class Opaque(object):
    def __init__(self, text, payload=None):
        self.text = text
        self.payload = payload

    def __repr__(self):
        return 'Opaque(%s)' % self.text


class ArrayVal(Opaque):
    pass


class StateVal(Opaque):
    """A value read from a field of the instance (`self.<field>`, or anything reached from it): it was put there by
    some earlier call, so it is not a function of the current arguments."""


class GenVal(object):
    """A generator object: the generator function's body is run (to completion) when it is first iterated."""

    def __init__(self, thunk, guarded):
        self.thunk = thunk
        self.guarded = guarded      # mutable lists handed to the generator: the consumer must not touch them
        self.items = None


class ExcVal(object):
    def __init__(self, cls):
        self.cls = cls

    def __repr__(self):
        return 'Exc(%s)' % self.cls


class Unknown(object):
    def __init__(self, tag):
        self.tag = tag


class PNode(object):
    """A nested, named ParseResults node: group name + evaluated-or-raw children."""

    def __init__(self, name, children):
        self.name = name
        self.children = list(children)

    def __repr__(self):
        return 'PNode(%s, %r)' % (self.name, self.children)


class SelfObj(object):
    def __init__(self, ci):
        self.ci = ci
        self.fields = {}       # instance fields with a known (stateless) value, e.g. an action table built in __init__


class ClassVal(object):
    def __init__(self, ci):
        self.ci = ci


class FuncVal(object):
    def __init__(self, fi):
        self.fi = fi


class Closure(object):
    def __init__(self, node, env, module, owner):
        self.node = node
        self.env = env
        self.module = module
        self.owner = owner


class Builtin(object):
    def __init__(self, name):
        self.name = name


class External(object):
    def __init__(self, dotted):
        self.dotted = dotted


class ObjVal(object):
    """An instance of a small per-call class of the package (accumulator object): fields + methods of its class."""

    def __init__(self, ci):
        self.ci = ci
        self.fields = {}

    def __repr__(self):
        return '<%s object>' % self.ci.name


class Partial(object):
    """functools.partial(f, *args, **kwargs)"""

    def __init__(self, func, args, kwargs):
        self.func = func
        self.args = list(args)
        self.kwargs = dict(kwargs)


class BoundMethod(object):
    def __init__(self, recv, name):
        self.recv = recv
        self.name = name


class _Return(Exception):
    def __init__(self, value):
        self.value = value


class _Raise(Exception):
    def __init__(self, exc):
        self.exc = exc


class _Break(Exception):
    pass


class _Continue(Exception):
    pass


class Env(object):
    def __init__(self, parent=None):
        self.vars = {}
        self.parent = parent

    def lookup(self, name):
        e = self
        while e is not None:
            if name in e.vars:
                return True, e.vars[name]
            e = e.parent
        return False, None


# ------------------------------------------------------------------------ space
class Space(object):
    """Atom table shared by the found and the expected terms of one comparison."""

    def __init__(self):
        self.atoms = {}      # key -> id
        self.rfs = []        # interned rational functions
        self.atom_text = {}

    def atom(self, key, text):
        if key not in self.atoms:
            self.atoms[key] = len(self.atoms)
            self.atom_text[self.atoms[key]] = text
        return Num(RF(p_atom(self.atoms[key])), text)

    def intern(self, rf):
        for i, r in enumerate(self.rfs):
            if r.eq(rf):
                return i
        self.rfs.append(rf)
        return len(self.rfs) - 1

    def leaf(self, name):
        return self.atom(('leaf', name), name)

    def const(self, c):
        c = Fraction(c)
        return Num(RF.const(c), _ctext(c))

    def num(self, v):
        if isinstance(v, Num):
            return v
        if isinstance(v, bool):
            raise AnalysisError('boolean used as a number')
        if isinstance(v, (int, Fraction)):
            return self.const(v)
        raise AnalysisError('value `%r` used as a number' % (v,))

    def add(self, a, b):
        a, b = self.num(a), self.num(b)
        return Num(a.rf.add(b.rf), '(%s + %s)' % (a.text, b.text))

    def sub(self, a, b):
        a, b = self.num(a), self.num(b)
        return Num(a.rf.sub(b.rf), '(%s - %s)' % (a.text, b.text))

    def mul(self, a, b):
        a, b = self.num(a), self.num(b)
        return Num(a.rf.mul(b.rf), '%s*%s' % (_par(a.text), _par(b.text)))

    def div(self, a, b):
        a, b = self.num(a), self.num(b)
        return Num(a.rf.div(b.rf), '%s/%s' % (_par(a.text), _par(b.text)))

    def neg(self, a):
        a = self.num(a)
        return Num(a.rf.neg(), '-%s' % _par(a.text))

    def pow(self, a, b):
        a, b = self.num(a), self.num(b)
        ca, cb = a.rf.const_value(), b.rf.const_value()
        text = 'pow(%s, %s)' % (a.text, b.text)
        if ca is not None and cb is not None and cb.denominator == 1 and abs(cb) <= 64:
            if ca == 0 and cb < 0:
                raise ZeroDivisionError
            return Num(RF.const(ca ** int(cb)), text)
        return Num(self.atom(('pow', self.intern(a.rf), self.intern(b.rf)), text).rf, text)

    def lookup(self, role, key):
        text = '%s[%s]' % (role, key.text if isinstance(key, StrTok) else repr(key))
        k = key.key if isinstance(key, StrTok) else ('const', key)
        return self.atom(('lookup', role, k), text)

    def call(self, fkey, ftext, args):
        nums = [self.num(a) for a in args]
        text = '%s(%s)' % (ftext, ', '.join(n.text for n in nums))
        return self.atom(('call', fkey, tuple(self.intern(n.rf) for n in nums)), text)

    def equal(self, a, b):
        if isinstance(a, Num) or isinstance(b, Num):
            try:
                return self.num(a).rf.eq(self.num(b).rf)
            except AnalysisError:
                return False
        if isinstance(a, (list, tuple)) and isinstance(b, (list, tuple)):
            return len(a) == len(b) and all(self.equal(x, y) for x, y in zip(a, b))
        if isinstance(a, StrTok) and isinstance(b, StrTok):
            return a.key == b.key
        if isinstance(a, ArrayVal) and isinstance(b, ArrayVal):
            return self.equal(a.payload, b.payload)
        if isinstance(a, (Opaque, StrTok, ExcVal, DictSym, FuncSym)) or isinstance(b, (Opaque, StrTok, ExcVal, DictSym, FuncSym)):
            return a is b
        return type(a) is type(b) and a == b


def _ctext(c):
    return str(c.numerator) if c.denominator == 1 else '%d/%d' % (c.numerator, c.denominator)


def _par(t):
    if t.startswith('(') or t.replace('_', 'a').isalnum() or (t.endswith(')') and t.split('(')[0].replace('_', 'a').isalnum()) \
            or t.endswith(']'):
        return t
    return '(%s)' % t


def show(v):
    if isinstance(v, Num):
        t = v.text
        return t[1:-1] if t.startswith('(') and t.endswith(')') and t.count('(') == 1 else t
    if isinstance(v, (list, tuple)):
        return '[' + ', '.join(show(x) for x in v) + ']'
    if isinstance(v, StrTok):
        return v.text
    if isinstance(v, ArrayVal):
        return 'MathArray(%s)' % show(v.payload)
    if isinstance(v, Opaque):
        return v.text
    if isinstance(v, ExcVal):
        return 'raise %s' % v.cls
    return repr(v)


# ------------------------------------------------------------------ interpreter
class Path(object):
    def __init__(self, trace, kind, value):
        self.trace = trace      # [(tag, bool)]
        self.kind = kind        # 'ret' | 'raise'
        self.value = value

    def decided(self, prefix):
        return [(t, v) for t, v in self.trace if t[0] == prefix]

    def __repr__(self):
        return 'Path(%s -> %s %s)' % (self.trace, self.kind, show(self.value))


class Interp(object):
    def __init__(self, idx, space):
        self.idx = idx
        self.space = space
        self.preset = []
        self.trace = []
        self.fuel = FUEL
        self.notes = []
        self.state_reads = []      # instance fields read during the interpretation (all paths)
        self.state_writes = []     # instance fields written
        self._yields = []
        self._guard = set()
        self.followed = set()      # qualified names of package functions whose bodies were interpreted

    # ---------------------------------------------------------------- exploring
    def explore(self, thunk, limit=200):
        """Run thunk() under every combination of symbolic decisions; returns [Path]."""
        paths = []
        preset = []
        while True:
            self.preset = list(preset)
            self.trace = []
            self.fuel = FUEL
            try:
                v = thunk()
                paths.append(Path(list(self.trace), 'ret', v))
            except _Return as r:
                paths.append(Path(list(self.trace), 'ret', r.value))
            except _Raise as r:
                paths.append(Path(list(self.trace), 'raise', r.exc))
            vals = [v for _, v in self.trace]
            while vals and vals[-1] is False:
                vals.pop()
            if not vals:
                return paths
            vals[-1] = False
            preset = vals
            if len(paths) > limit:
                raise AnalysisError('too many symbolic paths')

    def decide(self, tag):
        for t, v in self.trace:
            if t == tag:
                return v
        i = len(self.trace)
        v = self.preset[i] if i < len(self.preset) else True
        self.trace.append((tag, v))
        return v

    def truth(self, v):
        if isinstance(v, Unknown):
            return self.decide(v.tag)
        if isinstance(v, bool) or v is None:
            return bool(v)
        if isinstance(v, (list, dict)):
            self._touch(v)
        if isinstance(v, (int, Fraction, str, list, tuple, dict, set)):
            return bool(v)
        if isinstance(v, Num):
            c = v.rf.const_value()
            if c is not None:
                return c != 0
            return self.decide(('nonzero', self.space.intern(v.rf), v.text))
        if isinstance(v, StrTok):
            return True
        if isinstance(v, Opaque):
            return self.decide(('opaque', v.text))
        if isinstance(v, (FuncSym, FuncVal, Closure, ClassVal, DictSym, SelfObj, ExcVal, BoundMethod, Partial, ObjVal, External, Builtin)):
            return True
        if isinstance(v, PNode):
            return bool(v.children)
        raise AnalysisError('truth value of %r not modelled' % (v,))

    # ------------------------------------------------------------------- calling
    def call_function(self, fi, args, kwargs=None, depth=0, bound=None):
        node = fi.node
        self.followed.add(fi.qualname)
        if _is_generator(node):
            guarded = {id(a) for a in list(args) + list((kwargs or {}).values()) if isinstance(a, (list, dict))}
            return GenVal(lambda: self._run_generator(fi, args, kwargs, depth, bound), guarded)
        env = Env()
        self._bind(node.args, args, kwargs or {}, env, fi.module, fi, bound_self=bound, is_method=fi.cls is not None
                   and not fi.is_static)
        return self._run_body(node.body, env, fi.module, fi, depth)

    def _run_generator(self, fi, args, kwargs, depth, bound):
        env = Env()
        self._bind(fi.node.args, args, dict(kwargs or {}), env, fi.module, fi, bound_self=bound,
                   is_method=fi.cls is not None and not fi.is_static)
        self._yields.append([])
        saved, self._guard = self._guard, set()
        try:
            self._run_body(fi.node.body, env, fi.module, fi, depth)
            return self._yields[-1]
        finally:
            self._yields.pop()
            self._guard = saved

    def _touch(self, obj):
        if self._guard and id(obj) in self._guard:
            raise AnalysisError('a list owned by a running generator is used by its consumer: lazy evaluation order not modelled')

    def call_closure(self, c, args, kwargs=None, depth=0):
        if not isinstance(c.node, ast.Lambda) and _is_generator(c.node) and not getattr(self, '_in_gen', False):
            guarded = {id(a) for a in list(args) + list((kwargs or {}).values()) if isinstance(a, (list, dict))}

            def thunk():
                self._yields.append([])
                saved, self._guard = self._guard, set()
                self._in_gen = True
                try:
                    env = Env(c.env)
                    self._bind(c.node.args, args, dict(kwargs or {}), env, c.module, c.owner)
                    self._run_body(c.node.body, env, c.module, c.owner, depth)
                    return self._yields[-1]
                finally:
                    self._in_gen = False
                    self._yields.pop()
                    self._guard = saved
            return GenVal(thunk, guarded)
        env = Env(c.env)
        self._bind(c.node.args, args, kwargs or {}, env, c.module, c.owner)
        if isinstance(c.node, ast.Lambda):
            return self.eval(c.node.body, env, c.module, c.owner, depth)
        return self._run_body(c.node.body, env, c.module, c.owner, depth)

    def _run_body(self, body, env, module, owner, depth):
        if depth > MAX_DEPTH:
            raise AnalysisError('inlining depth exceeded')
        try:
            self.exec_block(body, env, module, owner, depth)
        except _Return as r:
            return r.value
        return None

    def _bind(self, a, args, kwargs, env, module, owner, bound_self=None, is_method=False):
        params = [x.arg for x in a.posonlyargs + a.args]
        if is_method:
            env.vars[params[0]] = bound_self if bound_self is not None else (SelfObj(owner.cls) if owner is not None and owner.cls else Opaque('self'))
            params = params[1:]
        args = list(args)
        if len(args) > len(params) and not a.vararg:
            raise AnalysisError('too many arguments in inlined call')
        for p, v in zip(params, args):
            env.vars[p] = v
        if a.vararg:
            env.vars[a.vararg.arg] = tuple(args[len(params):])
        defaults = dict(zip(params[len(params) - len(a.defaults):] if a.defaults else [], a.defaults))
        for p in params[len(args):]:
            if p in kwargs:
                env.vars[p] = kwargs.pop(p)
            elif p in defaults:
                env.vars[p] = self._default(defaults[p], module, owner)
            else:
                raise AnalysisError('missing argument %s in inlined call' % p)
        for ka, kd in zip(a.kwonlyargs, a.kw_defaults):
            if ka.arg in kwargs:
                env.vars[ka.arg] = kwargs.pop(ka.arg)
            elif kd is not None:
                env.vars[ka.arg] = self._default(kd, module, owner)
        if kwargs and not a.kwarg:
            raise AnalysisError('unexpected keyword arguments %s in inlined call' % sorted(kwargs))

    def _default(self, node, module, owner):
        try:
            return self.eval(node, Env(), module, owner, MAX_DEPTH)
        except AnalysisError:
            return Opaque('default ' + short(node))

    # ---------------------------------------------------------------- statements
    def exec_block(self, stmts, env, module, owner, depth):
        for s in stmts:
            self.exec_stmt(s, env, module, owner, depth)

    def exec_stmt(self, s, env, module, owner, depth):
        self.fuel -= 1
        if self.fuel < 0:
            raise AnalysisError('symbolic evaluation did not terminate within its step budget')
        ev = lambda e: self.eval(e, env, module, owner, depth)
        if isinstance(s, ast.Expr):
            if isinstance(s.value, ast.Constant):
                return
            if isinstance(s.value, ast.Yield):
                if not self._yields:
                    raise AnalysisError('yield outside a generator call')
                v = ev(s.value.value) if s.value.value is not None else None
                self._yields[-1].append(v)
                return
            ev(s.value)
            return
        if isinstance(s, ast.Assign):
            v = ev(s.value)
            for t in s.targets:
                self.assign(t, v, env, module, owner, depth)
            return
        if isinstance(s, ast.AugAssign):
            load = _as_load(s.target)
            cur = ev(load)
            v = self.binop(s.op, cur, ev(s.value))
            self.assign(s.target, v, env, module, owner, depth)
            return
        if isinstance(s, ast.Return):
            raise _Return(ev(s.value) if s.value is not None else None)
        if isinstance(s, ast.If):
            if self.truth(ev(s.test)):
                self.exec_block(s.body, env, module, owner, depth)
            else:
                self.exec_block(s.orelse, env, module, owner, depth)
            return
        if isinstance(s, ast.While):
            while self.truth(ev(s.test)):
                self.fuel -= 1
                if self.fuel < 0:
                    raise AnalysisError('loop did not terminate within the step budget')
                try:
                    self.exec_block(s.body, env, module, owner, depth)
                except _Break:
                    return
                except _Continue:
                    continue
            self.exec_block(s.orelse, env, module, owner, depth)
            return
        if isinstance(s, ast.For):
            it = ev(s.iter)
            items = self.iterate(it)
            saved = self._guard
            if isinstance(it, GenVal):
                self._guard = self._guard | it.guarded
            try:
                for item in items:
                    self.assign(s.target, item, env, module, owner, depth)
                    try:
                        self.exec_block(s.body, env, module, owner, depth)
                    except _Break:
                        if isinstance(it, GenVal):
                            raise AnalysisError('break out of a loop over a generator: lazy evaluation not modelled')
                        return
                    except _Continue:
                        continue
            finally:
                self._guard = saved
            self.exec_block(s.orelse, env, module, owner, depth)
            return
        if isinstance(s, ast.Raise):
            if s.exc is None:
                cur = getattr(self, '_current_exc', None)
                if cur is None:
                    raise AnalysisError('bare raise outside a handler')
                raise _Raise(cur)
            try:
                v = ev(s.exc)
            except AnalysisError:
                v = ExcVal(_exc_name(s.exc))       # message construction is irrelevant
            if isinstance(v, ClassVal):
                v = ExcVal(v.ci.name)
            if isinstance(v, (Builtin, External)):
                v = ExcVal(getattr(v, 'name', None) or v.dotted.split('.')[-1])
            if not isinstance(v, ExcVal):
                v = ExcVal(_exc_name(s.exc))
            raise _Raise(v)
        if isinstance(s, ast.Try):
            self.exec_try(s, env, module, owner, depth)
            return
        if isinstance(s, ast.Pass):
            return
        if isinstance(s, (ast.FunctionDef,)):
            env.vars[s.name] = Closure(s, env, module, owner)
            return
        if isinstance(s, ast.Break):
            raise _Break()
        if isinstance(s, ast.Continue):
            raise _Continue()
        if isinstance(s, ast.Assert):
            return
        raise AnalysisError('statement not supported by the symbolic evaluator: `%s`' % short(s, 60))

    def exec_try(self, s, env, module, owner, depth):
        from .. import lib
        try:
            try:
                self.exec_block(s.body, env, module, owner, depth)
            except _Raise as r:
                name = r.exc.cls
                for h in s.handlers:
                    names = lib.handler_class_names(h)
                    if any(n in ('Exception', 'BaseException') or n == name
                           or lib.exc_is_subclass(self.idx, module, name, n) for n in names):
                        if h.name:
                            env.vars[h.name] = r.exc
                        saved = getattr(self, '_current_exc', None)
                        self._current_exc = r.exc
                        try:
                            self.exec_block(h.body, env, module, owner, depth)
                        finally:
                            self._current_exc = saved
                        break
                else:
                    raise
            else:
                self.exec_block(s.orelse, env, module, owner, depth)
        finally:
            if s.finalbody:
                self.exec_block(s.finalbody, env, module, owner, depth)

    def assign(self, t, v, env, module, owner, depth):
        if isinstance(t, ast.Name):
            env.vars[t.id] = v
            return
        if isinstance(t, (ast.Tuple, ast.List)):
            items = self.iterate(v)
            if len(items) != len(t.elts) or any(isinstance(e, ast.Starred) for e in t.elts):
                raise _Raise(ExcVal('ValueError'))
            for e, x in zip(t.elts, items):
                self.assign(e, x, env, module, owner, depth)
            return
        if isinstance(t, ast.Subscript):
            obj = self.eval(t.value, env, module, owner, depth)
            key = self.eval(t.slice, env, module, owner, depth) if not isinstance(t.slice, ast.Slice) else None
            if isinstance(obj, list) and isinstance(key, int):
                obj[key] = v
                return
            if isinstance(obj, dict) and isinstance(key, (str, int)):
                obj[key] = v
                return
            if isinstance(obj, StateVal):
                self.state_writes.append(obj.text)
                return
        if isinstance(t, ast.Attribute):
            obj = self.eval(t.value, env, module, owner, depth)
            if isinstance(obj, ObjVal):
                obj.fields[t.attr] = v
                return
            if isinstance(obj, SelfObj) and getattr(self, 'init_phase', False):
                obj.fields[t.attr] = v
                return
            if isinstance(obj, (SelfObj, StateVal)):
                self.state_writes.append('self.%s' % t.attr if isinstance(obj, SelfObj) else '%s.%s' % (obj.text, t.attr))
                return
        raise AnalysisError('assignment target not supported by the symbolic evaluator: `%s`' % short(t))

    def iterate(self, v):
        if isinstance(v, (list, tuple)):
            return list(v)
        if isinstance(v, PNode):
            return list(v.children)
        if isinstance(v, GenVal):
            if v.items is None:
                v.items = list(v.thunk())
                return list(v.items)
            return []          # a generator is exhausted after its first traversal
        if isinstance(v, dict):
            return list(v.keys())
        if isinstance(v, str):
            return list(v)
        if isinstance(v, range):
            return list(v)
        raise AnalysisError('cannot iterate over %r symbolically' % (v,))

    # --------------------------------------------------------------- expressions
    def eval(self, e, env, module, owner, depth):
        sp = self.space
        ev = lambda x: self.eval(x, env, module, owner, depth)
        if isinstance(e, ast.Constant):
            if isinstance(e.value, float):
                return Fraction(e.value)
            if isinstance(e.value, complex):
                return Opaque(repr(e.value))
            return e.value
        if isinstance(e, ast.Name):
            found, v = env.lookup(e.id)
            if found:
                return v
            return self.global_name(e.id, module)
        if isinstance(e, ast.Attribute):
            return self.attribute(ev(e.value), e.attr, e, module)
        if isinstance(e, ast.Subscript):
            obj = ev(e.value)
            if isinstance(e.slice, ast.Slice):
                lo = ev(e.slice.lower) if e.slice.lower is not None else None
                hi = ev(e.slice.upper) if e.slice.upper is not None else None
                st = ev(e.slice.step) if e.slice.step is not None else None
                if isinstance(obj, (list, tuple, str)) and all(x is None or isinstance(x, int) for x in (lo, hi, st)):
                    return obj[slice(lo, hi, st)]
                raise AnalysisError('slice not supported: `%s`' % short(e))
            return self.subscript(obj, ev(e.slice), e)
        if isinstance(e, ast.Call):
            return self.call(e, env, module, owner, depth)
        if isinstance(e, ast.BinOp):
            return self.binop(e.op, ev(e.left), ev(e.right))
        if isinstance(e, ast.UnaryOp):
            v = ev(e.operand)
            if isinstance(e.op, ast.Not):
                return not self.truth(v)
            if isinstance(e.op, ast.USub):
                if isinstance(v, (int, Fraction)) and not isinstance(v, bool):
                    return -v
                return sp.neg(v)
            if isinstance(e.op, ast.UAdd):
                return v
            raise AnalysisError('unary operator not supported: `%s`' % short(e))
        if isinstance(e, ast.BoolOp):
            v = None
            for x in e.values:
                v = ev(x)
                t = self.truth(v)
                if isinstance(e.op, ast.And) and not t:
                    return v if not isinstance(v, Unknown) else False
                if isinstance(e.op, ast.Or) and t:
                    return v if not isinstance(v, Unknown) else True
            return v if not isinstance(v, Unknown) else isinstance(e.op, ast.And)
        if isinstance(e, ast.Compare):
            left = ev(e.left)
            for op, r in zip(e.ops, e.comparators):
                right = ev(r)
                res = self.compare(op, left, right)
                if len(e.ops) == 1:
                    return res
                if not self.truth(res):
                    return False
                left = right
            return True
        if isinstance(e, (ast.List, ast.Tuple)):
            items = []
            for x in e.elts:
                if isinstance(x, ast.Starred):
                    items.extend(self.iterate(ev(x.value)))
                else:
                    items.append(ev(x))
            return items if isinstance(e, ast.List) else tuple(items)
        if isinstance(e, ast.Dict):
            d = {}
            for k, v in zip(e.keys, e.values):
                if k is None:
                    raise AnalysisError('dict unpacking not supported')
                kk = ev(k)
                if not isinstance(kk, (str, int)):
                    raise AnalysisError('dict key not concrete: `%s`' % short(k))
                d[kk] = ev(v)
            return d
        if isinstance(e, (ast.ListComp, ast.GeneratorExp, ast.SetComp)):
            return self.comprehension(e, env, module, owner, depth)
        if isinstance(e, ast.IfExp):
            return ev(e.body) if self.truth(ev(e.test)) else ev(e.orelse)
        if isinstance(e, ast.Lambda):
            return Closure(e, env, module, owner)
        if isinstance(e, ast.JoinedStr):
            return Opaque('f-string')
        raise AnalysisError('expression not supported by the symbolic evaluator: `%s`' % short(e, 60))

    def comprehension(self, e, env, module, owner, depth):
        out = []

        def rec(i, cenv):
            if i == len(e.generators):
                out.append(self.eval(e.elt, cenv, module, owner, depth))
                return
            g = e.generators[i]
            for item in self.iterate(self.eval(g.iter, cenv, module, owner, depth)):
                inner = Env(cenv)
                self.assign(g.target, item, inner, module, owner, depth)
                if all(self.truth(self.eval(c, inner, module, owner, depth)) for c in g.ifs):
                    rec(i + 1, inner)
        rec(0, Env(env))
        return out

    def global_name(self, name, module):
        kind, obj = self.idx.resolve_name(module, name)
        if kind == 'func':
            return FuncVal(obj)
        if kind == 'class':
            return ClassVal(obj)
        if kind == 'builtin':
            return Builtin(obj)
        if kind == 'external':
            return External(obj)
        if kind == 'module':
            return External(obj.name)
        if kind == 'value':
            mod, nm = obj
            vals = mod.assigns.get(nm, [])
            if len(vals) == 1 and isinstance(vals[0], ast.Constant):
                return vals[0].value
            if len(vals) == 1 and isinstance(vals[0], (ast.Tuple, ast.List, ast.Dict)):
                cache = self.__dict__.setdefault('_global_cache', {})
                key = (mod.name, nm)
                if key not in cache:
                    try:
                        cache[key] = self.eval(vals[0], Env(), mod, None, 0)
                    except AnalysisError:
                        cache[key] = Opaque('global %s' % nm)
                return cache[key]
            return Opaque('global %s' % nm)
        raise AnalysisError('name %s not resolved' % name)

    def attribute(self, obj, attr, node, module):
        if isinstance(obj, SelfObj) or isinstance(obj, ClassVal):
            f = self.idx.lookup(obj.ci, attr)
            if f is not None:
                return FuncVal(f) if (f.is_static or isinstance(obj, ClassVal)) else BoundMethod(obj, attr)
            k, v = self.idx.lookup_attr(obj.ci, attr)
            if v is not None:
                return self.class_attr(k, attr, v)
            if isinstance(obj, SelfObj):
                if attr in obj.fields:
                    return obj.fields[attr]
                self.state_reads.append(attr)
                return StateVal('self.%s' % attr)
            return Opaque('%s.%s' % (obj.ci.name, attr))
        if isinstance(obj, ObjVal):
            if attr in obj.fields:
                return obj.fields[attr]
            f = self.idx.lookup(obj.ci, attr)
            if f is not None:
                return FuncVal(f) if f.is_static else BoundMethod(obj, attr)
            k, v = self.idx.lookup_attr(obj.ci, attr)
            if v is not None:
                return self.class_attr(k, attr, v)
            raise _Raise(ExcVal('AttributeError'))
        if isinstance(obj, External):
            return External(obj.dotted + '.' + attr)
        if isinstance(obj, (list, StrTok, str, dict, DictSym, tuple, set, PNode)):
            return BoundMethod(obj, attr)
        if isinstance(obj, StateVal):
            return BoundMethod(obj, attr)
        if isinstance(obj, (Opaque, FuncSym)):
            return Opaque('%s.%s' % (getattr(obj, 'text', '?'), attr))
        if isinstance(obj, Num):
            return Opaque('%s.%s' % (obj.text, attr))
        raise AnalysisError('attribute access not supported: `%s`' % short(node))

    def class_attr(self, ci, attr, node):
        """Value of a class-level binding (ordered tables of (symbol, function) rows and the like); Opaque if not evaluable."""
        cache = self.__dict__.setdefault('_class_attr_cache', {})
        key = (ci.qualname, attr)
        if key not in cache:
            env = Env()
            for mname, m in ci.methods.items():
                env.vars[mname] = FuncVal(m)
            try:
                cache[key] = self.eval(node, env, ci.module, None, 0)
            except AnalysisError:
                cache[key] = Opaque('%s.%s' % (ci.name, attr))
        return cache[key]

    def subscript(self, obj, key, node):
        if isinstance(obj, PNode):
            obj = obj.children
        if isinstance(obj, (list, dict)):
            self._touch(obj)
        if isinstance(obj, (list, tuple, str)):
            if isinstance(key, int) and not isinstance(key, bool):
                try:
                    return obj[key]
                except IndexError:
                    raise _Raise(ExcVal('IndexError'))
            raise AnalysisError('index not concrete: `%s`' % short(node))
        if isinstance(obj, dict):
            if isinstance(key, (str, int)):
                if key in obj:
                    return obj[key]
                raise _Raise(ExcVal('KeyError'))
            raise AnalysisError('dict key not concrete: `%s`' % short(node))
        if isinstance(obj, DictSym):
            if not isinstance(key, (StrTok, str)):
                raise AnalysisError('scope look-up with a non-string key: `%s`' % short(node))
            if obj.kind == 'func':
                k = key.key if isinstance(key, StrTok) else ('const', key)
                text = '%s[%s]' % (obj.role, key.text if isinstance(key, StrTok) else repr(key))
                return FuncSym(('lookup', obj.role, k), text)
            return self.space.lookup(obj.role, key)
        if isinstance(obj, StrTok):
            return StrTok(obj.base, obj.ops + ('[%s]' % (key,),))
        if isinstance(obj, StateVal):
            return StateVal('%s[...]' % obj.text)
        if isinstance(obj, Opaque):
            return Opaque('%s[...]' % obj.text)
        raise AnalysisError('subscript not supported: `%s`' % short(node))

    def binop(self, op, l, r):
        sp = self.space
        numeric = lambda v: isinstance(v, (Num, int, Fraction)) and not isinstance(v, bool)
        if isinstance(l, (list, tuple)) and isinstance(r, (list, tuple)) and isinstance(op, ast.Add) and type(l) is type(r):
            return l + r
        if isinstance(l, str) and isinstance(r, str) and isinstance(op, ast.Add):
            return l + r
        if isinstance(l, (str, StrTok, Opaque)) or isinstance(r, (str, StrTok, Opaque)):
            if isinstance(l, Opaque) or isinstance(r, Opaque) or isinstance(op, (ast.Add, ast.Mod)):
                return Opaque('(%s %s %s)' % (show(l), type(op).__name__, show(r)))
        if not (numeric(l) and numeric(r)):
            raise AnalysisError('operator %s on %r and %r not modelled' % (type(op).__name__, l, r))
        concrete = not isinstance(l, Num) and not isinstance(r, Num)
        try:
            if isinstance(op, ast.Add):
                return l + r if concrete else sp.add(l, r)
            if isinstance(op, ast.Sub):
                return l - r if concrete else sp.sub(l, r)
            if isinstance(op, ast.Mult):
                return l * r if concrete else sp.mul(l, r)
            if isinstance(op, ast.Div):
                if concrete:
                    return Fraction(l) / Fraction(r)
                return sp.div(l, r)
            if isinstance(op, ast.Pow):
                if concrete and isinstance(r, int) and abs(r) <= 64:
                    return Fraction(l) ** r if r < 0 else l ** r
                return sp.pow(l, r)
            if concrete and isinstance(op, ast.FloorDiv):
                return l // r
            if concrete and isinstance(op, ast.Mod):
                return l % r
        except ZeroDivisionError:
            raise _Raise(ExcVal('ZeroDivisionError'))
        raise AnalysisError('operator %s not modelled' % type(op).__name__)

    def compare(self, op, l, r):
        sp = self.space
        if isinstance(op, (ast.Is, ast.IsNot)):
            same = (l is r) or (l is None and r is None) or (isinstance(l, bool) and isinstance(r, bool) and l == r)
            if (l is None) != (r is None):
                same = False
            return same if isinstance(op, ast.Is) else not same
        if isinstance(op, (ast.In, ast.NotIn)):
            res = self.contains(r, l)
            if isinstance(res, Unknown):
                return res if isinstance(op, ast.In) else Unknown(('not',) + res.tag)
            return res if isinstance(op, ast.In) else not res
        if isinstance(op, (ast.Eq, ast.NotEq)):
            res = self.equals(l, r)
            if isinstance(res, Unknown):
                if isinstance(op, ast.NotEq):
                    return not self.truth(res)
                return res
            return res if isinstance(op, ast.Eq) else not res
        num = lambda v: isinstance(v, (int, Fraction)) and not isinstance(v, bool)
        if num(l) and num(r):
            return {ast.Lt: l < r, ast.LtE: l <= r, ast.Gt: l > r, ast.GtE: l >= r}[type(op)]
        if isinstance(l, (Num, Opaque)) or isinstance(r, (Num, Opaque)):
            return Unknown(('order', type(op).__name__, show(l), show(r)))
        raise AnalysisError('comparison not modelled: %r %s %r' % (l, type(op).__name__, r))

    def equals(self, l, r):
        strish = lambda v: isinstance(v, (str, StrTok))
        numish = lambda v: isinstance(v, (Num, int, Fraction)) and not isinstance(v, bool)
        if strish(l) and numish(r) or numish(l) and strish(r):
            return False
        if isinstance(l, str) and isinstance(r, str):
            return l == r
        if isinstance(l, StrTok) and isinstance(r, StrTok):
            return l.key == r.key if l.key == r.key else Unknown(('streq', l.text, r.text))
        if isinstance(l, StrTok) or isinstance(r, StrTok):
            return Unknown(('streq', show(l), show(r)))
        if numish(l) and numish(r):
            a, b = self.space.num(l), self.space.num(r)
            if a.rf.eq(b.rf):
                return True
            ca, cb = a.rf.const_value(), b.rf.const_value()
            if ca is not None and cb is not None:
                return False
            d = a.rf.sub(b.rf)
            return Unknown(('eq', self.space.intern(d), '%s == %s' % (show(a), show(b))))
        if isinstance(l, (Opaque,)) or isinstance(r, (Opaque,)):
            return Unknown(('opaque-eq', show(l), show(r)))
        if l is None or r is None:
            return l is r
        if isinstance(l, (list, tuple)) and isinstance(r, (list, tuple)):
            return self.space.equal(l, r)
        if isinstance(l, bool) and isinstance(r, bool):
            return l == r
        return False

    def contains(self, container, item):
        if isinstance(container, (list, tuple)):
            for x in container:
                res = self.equals(x, item)
                if self.truth(res):
                    return True
            return False
        if isinstance(container, dict):
            return isinstance(item, (str, int)) and item in container
        if isinstance(container, str) and isinstance(item, str):
            return item in container
        if isinstance(container, DictSym):
            return Unknown(('haskey', container.role, show(item)))
        if isinstance(container, Opaque):
            return Unknown(('opaque-in', container.text, show(item)))
        raise AnalysisError('membership test not modelled')

    # ----------------------------------------------------------------------- calls
    def call(self, e, env, module, owner, depth):
        ev = lambda x: self.eval(x, env, module, owner, depth)
        f = ev(e.func)
        args = []
        for a in e.args:
            if isinstance(a, ast.Starred):
                args.extend(self.iterate(ev(a.value)))
            else:
                args.append(ev(a))
        kwargs = {}
        for k in e.keywords:
            if k.arg is None:
                raise AnalysisError('**kwargs call not supported: `%s`' % short(e))
            kwargs[k.arg] = ev(k.value)
        return self.apply(f, args, kwargs, e, module, depth)

    def apply(self, f, args, kwargs, node, module, depth):
        sp = self.space
        if isinstance(f, Partial):
            kw = dict(f.kwargs)
            kw.update(kwargs)
            return self.apply(f.func, f.args + list(args), kw, node, module, depth)
        if isinstance(f, Closure):
            return self.call_closure(f, args, kwargs, depth + 1)
        if isinstance(f, BoundMethod):
            return self.method(f.recv, f.name, args, kwargs, node, module, depth)
        if isinstance(f, FuncVal):
            q = f.fi.qualname
            if q in POW_FUNCS:
                return self._pow(args)
            if q.startswith(INLINE_PREFIX) and q.split('.')[3] not in ('mathfuncs', 'math_array', 'specify_domain', 'formatters'):
                if f.fi.cls is not None and not f.fi.is_static and not f.fi.is_classmethod and args and \
                        isinstance(args[0], (ObjVal, SelfObj)):
                    return self.call_function(f.fi, args[1:], kwargs, depth + 1, bound=args[0])     # unbound method: f(obj, ...)
                return self.call_function(f.fi, args, kwargs, depth + 1)
            if q.endswith('.is_vector') or q.endswith('.is_matrix') or q.endswith('.is_square') or q.endswith('.is_tensor'):
                if args and isinstance(args[0], (Num, int, Fraction)):
                    return False      # operands are scalars in this model
            return Opaque('%s(...)' % f.fi.name)
        if isinstance(f, FuncSym):
            if kwargs:
                raise AnalysisError('keyword call of a scope function')
            return sp.call(f.key, f.text, args)
        if isinstance(f, ClassVal):
            if any(b.split('.')[-1] in ('Exception', 'BaseException') or b.endswith('Error') for b in f.ci.mro):
                return ExcVal(f.ci.name)
            if f.ci.name == 'MathArray':
                return ArrayVal('MathArray', args[0] if args else None)
            if f.ci.module.name.startswith(INLINE_PREFIX.rstrip('.')) and f.ci.module.name.split('.')[-1] == 'expressions' \
                    and len(f.ci.mro) <= 2:
                obj = ObjVal(f.ci)
                init = self.idx.lookup(f.ci, '__init__')
                if init is not None:
                    self.call_function(init, args, kwargs, depth + 1, bound=obj)
                return obj
            return Opaque('%s(...)' % f.ci.name)
        if isinstance(f, Builtin):
            return self.builtin(f.name, args, kwargs, node)
        if isinstance(f, External):
            d = f.dotted
            if d in POW_FUNCS:
                return self._pow(args)
            if d in IDENTITY_FUNCS and len(args) == 1:
                return args[0]
            if d in FALSE_FUNCS:
                return False
            if d == 'numpy.any' and len(args) == 1:
                return self.truth(args[0]) if not isinstance(args[0], (list, tuple)) else any(self.truth(x) for x in args[0])
            if d.startswith('operator.') and len(args) == 2 and d.split('.')[1] in _OPERATOR:
                return self.binop(_OPERATOR[d.split('.')[1]](), args[0], args[1])
            if d == 'operator.neg' and len(args) == 1:
                return self.space.neg(args[0]) if isinstance(args[0], Num) else -args[0]
            if d in ('functools.partial', 'partial') and args:
                return Partial(args[0], args[1:], kwargs)
            if d in ('functools.reduce', 'reduce'):
                return self._reduce(args, node, module, depth)
            if d.endswith('Error') or d.endswith('Exception'):
                return ExcVal(d.split('.')[-1])
            if d.endswith('.MathArray'):
                return ArrayVal('MathArray', args[0] if args else None)
            return Opaque('%s(...)' % d)
        if isinstance(f, StateVal):
            return StateVal('%s(...)' % f.text)
        if isinstance(f, (Opaque, Num)):
            return Opaque('%s(...)' % f.text)
        raise AnalysisError('call not supported by the symbolic evaluator: `%s`' % short(node))

    def _pow(self, args):
        if len(args) != 2:
            raise AnalysisError('power primitive called with %d arguments' % len(args))
        try:
            return self.space.pow(args[0], args[1])
        except ZeroDivisionError:
            raise _Raise(ExcVal('ZeroDivisionError'))

    def _reduce(self, args, node, module, depth):
        if len(args) not in (2, 3):
            raise AnalysisError('reduce with unusual arguments')
        items = self.iterate(args[1])
        if len(args) == 3:
            acc = args[2]
        else:
            if not items:
                raise _Raise(ExcVal('TypeError'))
            acc, items = items[0], items[1:]
        for x in items:
            acc = self.apply(args[0], [acc, x], {}, node, module, depth)
        return acc

    def builtin(self, name, args, kwargs, node):
        sp = self.space
        if name == 'len' and len(args) == 1:
            if isinstance(args[0], PNode):
                return len(args[0].children)
            if isinstance(args[0], (list, tuple, dict, str)):
                return len(args[0])
            raise AnalysisError('len() of a symbolic value')
        if name == 'float' and len(args) == 1:
            v = args[0]
            if isinstance(v, Num):
                return v
            if isinstance(v, (int, Fraction)) and not isinstance(v, bool):
                return Fraction(v)
            if isinstance(v, StrTok):
                return sp.atom(('float', v.key), 'float(%s)' % v.text)
            if isinstance(v, str):
                try:
                    x = float(v)
                    if x != x or x in (float('inf'), float('-inf')):
                        return Opaque('float(%r)' % v)
                    return Fraction(x)
                except ValueError:
                    raise _Raise(ExcVal('ValueError'))
            return Opaque('float(...)')
        if name == 'int' and len(args) == 1 and isinstance(args[0], (int, Fraction)):
            return int(args[0])
        if name == 'isinstance' and len(args) == 2:
            return self.isinstance_(args[0], args[1])
        if name == 'sum' and 1 <= len(args) <= 2:
            acc = args[1] if len(args) == 2 else 0
            for x in self.iterate(args[0]):
                acc = self.binop(ast.Add(), acc, x)
            return acc
        if name in ('list', 'tuple') and len(args) <= 1:
            items = self.iterate(args[0]) if args else []
            return items if name == 'list' else tuple(items)
        if name == 'reversed' and len(args) == 1:
            return list(reversed(self.iterate(args[0])))
        if name == 'range' and all(isinstance(a, int) for a in args):
            return list(range(*args))
        if name == 'enumerate' and len(args) == 1:
            return [(i, x) for i, x in enumerate(self.iterate(args[0]))]
        if name == 'zip':
            return [tuple(t) for t in zip(*[self.iterate(a) for a in args])]
        if name in ('any', 'all') and len(args) == 1:
            vals = self.iterate(args[0])
            if name == 'any':
                return any(self.truth(v) for v in vals)
            return all(self.truth(v) for v in vals)
        if name == 'getattr' and len(args) in (2, 3) and isinstance(args[1], str):
            if isinstance(args[0], (FuncSym, Opaque, Num)):
                return Unknown(('getattr', getattr(args[0], 'text', '?'), args[1]))
        if name == 'str' and len(args) == 1:
            if isinstance(args[0], (str, StrTok)):
                return args[0]
            return Opaque('str(...)')
        if name == 'next' and 1 <= len(args) <= 2:
            items = self.iterate(args[0])
            if items:
                return items[0]
            if len(args) == 2:
                return args[1]
            raise _Raise(ExcVal('StopIteration'))
        if name == 'iter' and len(args) == 1:
            return self.iterate(args[0])
        if name == 'abs' and len(args) == 1 and isinstance(args[0], (int, Fraction)):
            return abs(args[0])
        if name == 'bool' and len(args) == 1:
            return self.truth(args[0])
        if name in ('print',):
            return None
        if name == '__import__' and len(args) == 1 and isinstance(args[0], str):
            return External(args[0])
        if name == 'hasattr' and len(args) == 2:
            return Unknown(('hasattr', show(args[0]), show(args[1])))
        if name == 'dict' and len(args) <= 1 and (not args or isinstance(args[0], dict)):
            d = dict(args[0]) if args else {}
            d.update(kwargs)
            return d
        if name in ('set', 'sorted', 'dict', 'max', 'min', 'repr', 'type', 'id', 'callable', 'map', 'filter'):
            return Opaque('%s(...)' % name)
        if name.endswith('Error') or name.endswith('Exception'):
            return ExcVal(name)
        raise AnalysisError('builtin %s not modelled: `%s`' % (name, short(node)))

    def isinstance_(self, v, cls):
        if isinstance(cls, (tuple, list)):
            res = [self.isinstance_(v, c) for c in cls]
            if any(r is True for r in res):
                return True
            if all(r is False for r in res):
                return False
            return Unknown(('isinstance', show(v), 'tuple'))
        cname = cls.name if isinstance(cls, Builtin) else cls.ci.qualname if isinstance(cls, ClassVal) else \
            cls.dotted if isinstance(cls, External) else None
        if cname is None:
            raise AnalysisError('isinstance with an unknown class')
        short_name = cname.split('.')[-1]
        if isinstance(v, PNode):
            return short_name == 'ParseResults'
        if isinstance(v, (str, StrTok)):
            return short_name in ('str', 'basestring')
        if isinstance(v, bool):
            return short_name in ('bool', 'int', 'Number')
        if isinstance(v, int):
            return short_name in ('int', 'Number', 'Real', 'Integral')
        if isinstance(v, (Num, Fraction)):
            return short_name in ('float', 'Number', 'Real')
        if isinstance(v, list):
            return short_name == 'list'
        if isinstance(v, tuple):
            return short_name == 'tuple'
        if isinstance(v, dict):
            return short_name == 'dict'
        if isinstance(v, ArrayVal):
            return True if short_name in ('MathArray', 'ndarray') else False
        if isinstance(v, Opaque):
            if short_name in ('list', 'tuple', 'dict', 'str', 'set'):
                return False          # opaque values stand for scalars / library objects, never for builtin containers
            return Unknown(('isinstance', v.text, short_name))
        if v is None:
            return False
        return False

    def method(self, recv, name, args, kwargs, node, module, depth):
        if isinstance(recv, StateVal):
            if name in ('setdefault', 'update', 'append', 'add', 'pop', 'clear', 'insert', 'extend', 'remove', 'discard', '__setitem__'):
                self.state_writes.append(recv.text)
            return StateVal('%s.%s(...)' % (recv.text, name))
        if isinstance(recv, ObjVal):
            f = self.idx.lookup(recv.ci, name)
            if f is None:
                raise AnalysisError('method %s not found on %s' % (name, recv.ci.name))
            return self.call_function(f, args, kwargs, depth + 1, bound=recv)
        if isinstance(recv, SelfObj):
            f = self.idx.lookup(recv.ci, name)
            if f is None:
                raise AnalysisError('method %s not found' % name)
            return self.call_function(f, args, kwargs, depth + 1, bound=recv)
        if isinstance(recv, (list, dict)):
            self._touch(recv)
        if isinstance(recv, list):
            if name == 'pop' and len(args) <= 1:
                if not recv:
                    raise _Raise(ExcVal('IndexError'))
                i = args[0] if args else -1
                if not isinstance(i, int):
                    raise AnalysisError('pop index not concrete')
                try:
                    return recv.pop(i)
                except IndexError:
                    raise _Raise(ExcVal('IndexError'))
            if name == 'append' and len(args) == 1:
                recv.append(args[0])
                return None
            if name == 'insert' and len(args) == 2 and isinstance(args[0], int):
                recv.insert(args[0], args[1])
                return None
            if name == 'extend' and len(args) == 1:
                recv.extend(self.iterate(args[0]))
                return None
            if name == 'copy' and not args:
                return list(recv)
            if name == 'reverse' and not args:
                recv.reverse()
                return None
            if name == 'index' and len(args) == 1:
                for i, x in enumerate(recv):
                    if self.truth(self.equals(x, args[0])):
                        return i
                raise _Raise(ExcVal('ValueError'))
            if name == 'count' and len(args) == 1:
                return sum(1 for x in recv if self.truth(self.equals(x, args[0])))
        if isinstance(recv, PNode):
            if name in ('getName', 'get_name') and not args:
                return recv.name
            if name in ('asList', 'as_list') and not args:
                return list(recv.children)
        if isinstance(recv, tuple) and name in ('index', 'count'):
            return self.method(list(recv), name, args, kwargs, node, module, depth)
        if isinstance(recv, StrTok):
            return StrTok(recv.base, recv.ops + (name,))
        if isinstance(recv, str):
            if name == 'format':
                return Opaque('formatted message')
            if all(isinstance(a, (str, int)) for a in args) and not kwargs and name in (
                    'replace', 'strip', 'lower', 'upper', 'startswith', 'endswith', 'split', 'lstrip', 'rstrip', 'join'):
                return getattr(recv, name)(*args)
            return Opaque('str.%s(...)' % name)
        if isinstance(recv, dict):
            if name == 'get' and args and isinstance(args[0], (str, int)):
                return recv.get(args[0], args[1] if len(args) > 1 else None)
            if name == 'copy':
                return dict(recv)
            if name in ('keys',):
                return list(recv.keys())
            if name in ('values',):
                return list(recv.values())
            if name in ('items',):
                return [tuple(x) for x in recv.items()]
        if isinstance(recv, DictSym):
            if name == 'get' and args:
                return self.subscript(recv, args[0], node)
        raise AnalysisError('method call not supported by the symbolic evaluator: `%s`' % short(node))


_OPERATOR = {'add': ast.Add, 'sub': ast.Sub, 'mul': ast.Mult, 'truediv': ast.Div, 'pow': ast.Pow, 'floordiv': ast.FloorDiv,
             'mod': ast.Mod}


def _is_generator(fn):
    from ..index import walk_own
    return any(isinstance(n, (ast.Yield, ast.YieldFrom)) for n in walk_own(fn))


def _as_load(t):
    from ..index import clone
    c = clone(t)
    for n in ast.walk(c):
        if hasattr(n, 'ctx'):
            n.ctx = ast.Load()
    return c


def _exc_name(e):
    if isinstance(e, ast.Call):
        e = e.func
    if isinstance(e, ast.Attribute):
        return e.attr
    if isinstance(e, ast.Name):
        return e.id
    return 'Exception'
