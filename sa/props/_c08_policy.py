"""Decision of MatrixGrader.check_response's error policy over its COMPLETE finite domain:
(suppress_matrix_messages, shape_errors, answer_shape_mismatch.is_raised) in {True, False}^3  x  the class of the caught
error in {MathArrayShapeError, InputTypeError, ArgumentShapeError, MathArrayError}.  The error itself, its text and the
grading result are symbolic; only the guards (config booleans, isinstance classes, `is None`) are evaluated.  Two layouts
are read: separate `except` clauses with if/elif bodies, and one catch-all whose body selects a row of a class-level table
`(applies=lambda config: <guard>, classes=<tuple>, show_text=<bool>)` with next(... for ... if ...), i.e. a first-match table.
"""
import ast

from .. import nf, lib
from ..index import unparse


class Unknown(Exception):
    pass


class Err(object):
    def __init__(self, qual):
        self.qual = qual


class Row(object):
    def __init__(self, fields):
        self.fields = fields


class Cfg(object):
    """self.config during the decision: nested symbolic dict of booleans."""

    def __init__(self, d):
        self.d = d


NONE = None


class Interp(object):
    def __init__(self, idx, fi, cfg, err):
        self.idx, self.fi, self.cfg, self.err = idx, fi, cfg, err
        self.selfname = fi.params[0]

    # ---- classes
    def classes_of(self, e, env):
        """Qualified class names denoted by a class expression / tuple / module constant / row field."""
        if isinstance(e, ast.Tuple):
            out = []
            for x in e.elts:
                out.extend(self.classes_of(x, env))
            return out
        if isinstance(e, ast.Name):
            if e.id in env and isinstance(env[e.id], list):
                return env[e.id]
            kind, obj = self.idx.resolve_name(self.fi.module, e.id)
            if kind == 'class':
                return [obj.qualname]
            if kind == 'builtin' and e.id in ('Exception', 'BaseException'):
                return ['Exception']        # covers every library error class
            if kind == 'value':
                mod, nm = obj
                vals = mod.assigns.get(nm, [])
                if len(vals) == 1:
                    return Interp(self.idx, _ModFi(mod, self.fi), self.cfg, self.err).classes_of(vals[0], {})
            raise Unknown('class name %s' % e.id)
        if isinstance(e, ast.Attribute):
            base = self.ev(e.value, env)
            if isinstance(base, Row) and e.attr in base.fields:
                return self.classes_of(base.fields[e.attr], env)
            raise Unknown('class expression %s' % unparse(e))
        if isinstance(e, ast.Subscript):
            base = self.ev(e.value, env)
            k = self.ev(e.slice, env)
            if isinstance(base, Row) and k in base.fields:
                return self.classes_of(base.fields[k], env)
        raise Unknown('class expression %s' % unparse(e))

    def isinstance_(self, qual, quals):
        if 'Exception' in quals:
            return True
        ci = self.idx.classes.get(qual)
        return ci is not None and any(q in ci.mro for q in quals)

    # ---- expressions
    def ev(self, e, env):
        if isinstance(e, ast.Constant):
            return e.value
        if isinstance(e, ast.Name):
            if e.id in env:
                return env[e.id]
            raise Unknown('name %s' % e.id)
        if isinstance(e, ast.Attribute):
            if isinstance(e.value, ast.Name) and e.value.id == self.selfname:
                if e.attr == 'config':
                    return self.cfg
                k, v = self.idx.lookup_attr(self.fi.cls, e.attr) if self.fi.cls is not None else (None, None)
                if v is not None:
                    return self.table(v)
                raise Unknown('attribute self.%s' % e.attr)
            base = self.ev(e.value, env)
            if isinstance(base, Row) and e.attr in base.fields:
                f = base.fields[e.attr]
                return f if isinstance(f, ast.Lambda) else self.ev(f, {})
            raise Unknown('attribute %s' % unparse(e))
        if isinstance(e, ast.Subscript):
            base = self.ev(e.value, env)
            key = self.ev(e.slice, env)
            if isinstance(base, Row) and key in base.fields:
                f = base.fields[key]
                return f if isinstance(f, ast.Lambda) else self.ev(f, {})
            if isinstance(base, Cfg) and key in base.d:
                v = base.d[key]
                return Cfg(v) if isinstance(v, dict) else v
            raise Unknown('subscript %s' % unparse(e))
        if isinstance(e, ast.UnaryOp) and isinstance(e.op, ast.Not):
            return not self.truth(self.ev(e.operand, env))
        if isinstance(e, ast.BoolOp):
            if isinstance(e.op, ast.And):
                return all(self.truth(self.ev(v, env)) for v in e.values)
            return any(self.truth(self.ev(v, env)) for v in e.values)
        if isinstance(e, ast.Compare) and len(e.ops) == 1 and isinstance(e.ops[0], (ast.Is, ast.IsNot)):
            a, b = self.ev(e.left, env), self.ev(e.comparators[0], env)
            return (a is b) == isinstance(e.ops[0], ast.Is)
        if isinstance(e, ast.IfExp):
            return self.ev(e.body, env) if self.truth(self.ev(e.test, env)) else self.ev(e.orelse, env)
        if isinstance(e, ast.Dict):
            keys = lib.dict_literal_keys(e)
            if set(keys) >= {'ok', 'grade_decimal', 'msg'}:
                okv = self.ev(e.values[keys.index('ok')], env)
                gv = self.ev(e.values[keys.index('grade_decimal')], env)
                mv = self.ev(e.values[keys.index('msg')], env)
                return ('result', okv, gv, mv)
            raise Unknown('dict literal')
        if isinstance(e, ast.Call):
            cn = nf.callee_name(e)
            if cn == 'isinstance' and len(e.args) == 2:
                v = self.ev(e.args[0], env)
                if isinstance(v, Err):
                    return self.isinstance_(v.qual, self.classes_of(e.args[1], env))
                raise Unknown('isinstance of a non-error')
            if cn == 'str' and len(e.args) == 1 and isinstance(self.ev(e.args[0], env), Err):
                return 'TEXT-OF-ERROR'
            if cn == 'next' and len(e.args) == 2 and isinstance(e.args[0], ast.GeneratorExp) and len(e.args[0].generators) == 1 \
                    and isinstance(e.args[0].generators[0].target, ast.Name):
                g = e.args[0].generators[0]
                rows = self.ev(g.iter, env)
                if not isinstance(rows, list):
                    raise Unknown('iteration over a non-table')
                for row in rows:                       # first-match semantics of next(generator, default)
                    e2 = dict(env)
                    e2[g.target.id] = row
                    if all(self.truth(self.ev(c, e2)) for c in g.ifs):
                        return self.ev(e.args[0].elt, e2)
                return self.ev(e.args[1], env)
            if isinstance(e.func, (ast.Attribute, ast.Name, ast.Subscript)):
                f = self.ev(e.func, env)
                if isinstance(f, ast.Lambda) and len(f.args.args) == len(e.args) and not e.keywords:
                    return self.ev(f.body, dict(zip([a.arg for a in f.args.args], [self.ev(a, env) for a in e.args])))
            raise Unknown('call %s' % unparse(e)[:50])
        raise Unknown(type(e).__name__)

    def table(self, v):
        if isinstance(v, (ast.Tuple, ast.List)) and all(isinstance(r, ast.Call) and not r.args and all(k.arg for k in r.keywords)
                                                          for r in v.elts):
            return [Row({k.arg: k.value for k in r.keywords}) for r in v.elts]
        if isinstance(v, (ast.Tuple, ast.List)) and v.elts and all(isinstance(r, (ast.Tuple, ast.List)) for r in v.elts):
            return [Row({i: x for i, x in enumerate(r.elts)}) for r in v.elts]          # positional rows
        raise Unknown('class attribute is not a table of keyword rows')

    @staticmethod
    def truth(v):
        if isinstance(v, (Err, Row, Cfg, tuple)):
            return True
        return bool(v)

    # ---- statements: outcome ('raise',) | ('result', ok, grade, msg) | None (falls through)
    def run(self, stmts, env):
        for s in stmts:
            if isinstance(s, ast.Expr) and isinstance(s.value, ast.Constant):
                continue
            if isinstance(s, ast.Raise):
                return ('raise',)
            if isinstance(s, ast.Return):
                return self.ev(s.value, env) if s.value is not None else None
            if isinstance(s, ast.Assign) and len(s.targets) == 1 and isinstance(s.targets[0], ast.Name):
                env[s.targets[0].id] = self.ev(s.value, env)
                continue
            if isinstance(s, ast.Assign) and len(s.targets) == 1 and isinstance(s.targets[0], ast.Tuple) \
                    and all(isinstance(t, ast.Name) for t in s.targets[0].elts):
                row = self.ev(s.value, env)
                if isinstance(row, Row) and all(i in row.fields for i in range(len(s.targets[0].elts))):
                    for i, t in enumerate(s.targets[0].elts):
                        f = row.fields[i]
                        env[t.id] = f if isinstance(f, ast.Lambda) else (self.classes_of(f, {}) if i == 0 else self.ev(f, {}))
                    continue
                raise Unknown('tuple assignment')
            if isinstance(s, ast.If):
                out = self.run(s.body if self.truth(self.ev(s.test, env)) else s.orelse, env)
                if out is not None:
                    return out
                continue
            if isinstance(s, ast.Expr) and isinstance(s.value, ast.Call) and nf.callee_name(s.value) in ('log', 'debug'):
                continue
            raise Unknown('statement %s' % type(s).__name__)
        return None


class _ModFi(object):
    """Minimal FuncInfo stand-in to resolve names in another module."""

    def __init__(self, module, fi):
        self.module = module
        self.params = fi.params
        self.cls = fi.cls


SHAPE = 'mitxgraders.helpers.calc.exceptions.MathArrayShapeError'
INPUT = 'mitxgraders.exceptions.InputTypeError'
ARGSHAPE = 'mitxgraders.helpers.calc.exceptions.ArgumentShapeError'
MATHARRAY = 'mitxgraders.helpers.calc.exceptions.MathArrayError'


def decide(idx, fi, try_node):
    """{(suppress, shape_errors, is_raised, error class): outcome} for the handlers of try_node."""
    out = {}
    for sup in (True, False):
        for she in (True, False):
            for isr in (True, False):
                cfg = Cfg({'suppress_matrix_messages': sup, 'shape_errors': she, 'answer_shape_mismatch': {'is_raised': isr, 'msg_detail': 'type'}})
                for q in (SHAPE, INPUT, ARGSHAPE, MATHARRAY):
                    it = Interp(idx, fi, cfg, Err(q))
                    chosen = None
                    for h in try_node.handlers:
                        quals = ['builtins.BaseException'] if h.type is None else it.classes_of(h.type, {})
                        if h.type is None or it.isinstance_(q, quals) or any(x.endswith('.Exception') or x in ('Exception', 'BaseException') for x in quals):
                            chosen = h
                            break
                    if chosen is None:
                        out[(sup, she, isr, q)] = ('raise',)
                        continue
                    env = {chosen.name: it.err} if chosen.name else {}
                    res = it.run(chosen.body, env)
                    out[(sup, she, isr, q)] = res if res is not None else ('fall',)
    return out


def expected(sup, she, isr, q):
    graded = sup or (q == SHAPE and not she) or (q == INPUT and not isr)
    if not graded:
        return ('raise',)
    return ('result', False, 0, '' if sup else 'TEXT-OF-ERROR')
