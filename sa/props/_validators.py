"""Normalised view of the small validator-building helpers of mitxgraders/helpers/validatorfuncs.py (shared by the
property modules that read them: C04, C12, C17, ...).

`return_terms(fn_node)` -> [(guards, expr, return stmt)]: one entry per decision path that returns a value, with
  * plain local temporaries substituted forward (nf.decision_paths),
  * locals that hold a list/tuple LITERAL and are then grown by `.append(e)`, `.extend([...])`, `+= [...]` on the path
    folded into one literal,
  * star-arguments over such literals spliced into the call:  All(t, *[Range(1, inf)])  ->  All(t, Range(1, inf)).
So `bounds = [...]; return All(thetype, *bounds)`, `steps = [...]; if v: steps.append([v]); Schema(All(*steps))` and the
direct `return All(thetype, Range(...))` give the same term.  Purely syntactic; nothing is evaluated.
"""
import ast

from ..index import clone, walk_own
from .. import nf


class _Splat(ast.NodeTransformer):
    def visit_Call(self, node):
        self.generic_visit(node)
        args = []
        for a in node.args:
            if isinstance(a, ast.Starred) and isinstance(a.value, (ast.List, ast.Tuple)):
                args.extend(a.value.elts)
            else:
                args.append(a)
        node.args = args
        return node


def splat(expr):
    """Splice `*[a, b]` / `*(a, b)` star-arguments into their call."""
    return _Splat().visit(clone(expr))


def _grown_names(fn_node):
    names = set()
    for n in walk_own(fn_node):
        if isinstance(n, ast.Call) and isinstance(n.func, ast.Attribute) and n.func.attr in ('append', 'extend', 'insert') \
                and isinstance(n.func.value, ast.Name):
            names.add(n.func.value.id)
        elif isinstance(n, ast.AugAssign) and isinstance(n.target, ast.Name) and isinstance(n.op, ast.Add):
            names.add(n.target.id)
    return names


def return_terms(fn_node, max_paths=64):
    grown = _grown_names(fn_node)
    out = []
    for p in nf.decision_paths(fn_node.body, keep_locals=tuple(grown), max_paths=max_paths):
        if p.leaf.kind != 'ret' or p.leaf.expr is None:
            continue
        lits = {}
        ok = True
        for e in p.effects:
            if isinstance(e, ast.Assign) and len(e.targets) == 1 and isinstance(e.targets[0], ast.Name) and e.targets[0].id in grown:
                if isinstance(e.value, (ast.List, ast.Tuple)):
                    lits[e.targets[0].id] = list(e.value.elts)
                elif isinstance(e.value, ast.BinOp) and isinstance(e.value.op, ast.Add) and isinstance(e.value.left, ast.Name) \
                        and e.value.left.id == e.targets[0].id and e.value.left.id in lits and isinstance(e.value.right, (ast.List, ast.Tuple)):
                    lits[e.targets[0].id] = lits[e.targets[0].id] + list(e.value.right.elts)      # canonical form of `x += [...]`
                else:
                    lits.pop(e.targets[0].id, None)
            elif isinstance(e, ast.Expr) and isinstance(e.value, ast.Call) and isinstance(e.value.func, ast.Attribute) \
                    and isinstance(e.value.func.value, ast.Name) and e.value.func.value.id in lits:
                c = e.value
                if c.func.attr == 'append' and len(c.args) == 1:
                    lits[c.func.value.id] = lits[c.func.value.id] + [c.args[0]]
                elif c.func.attr == 'extend' and len(c.args) == 1 and isinstance(c.args[0], (ast.List, ast.Tuple)):
                    lits[c.func.value.id] = lits[c.func.value.id] + list(c.args[0].elts)
                else:
                    lits.pop(c.func.value.id, None)
        env = {k: ast.List(elts=v, ctx=ast.Load()) for k, v in lits.items()}
        expr = nf.subst(p.leaf.expr, env) if env else p.leaf.expr
        out.append((p.guards, nf.canon(splat(expr)), p.leaf.stmt))
    return out
