"""C14 -- array arithmetic follows strict linear-algebra shape rules and values."""
import ast
import itertools

from ..index import AnalysisError, walk_own, unparse, short, ancestors, parent
from ..cfg import cfg_of
from .. import nf, lib
from .. import shapes as S
from ..selftest import Mutant, Benign
from ._c14_hunks import hunks

ID = 'C14'
MA = 'mitxgraders/helpers/calc/math_array.py'
EXPR = 'mitxgraders/helpers/calc/expressions.py'
RPOW = 'mitxgraders/helpers/calc/robust_pow.py'
MG = 'mitxgraders/formulagrader/matrixgrader.py'
SAMP = 'mitxgraders/sampling.py'
FILES = [MA, EXPR, RPOW, MG, SAMP]

EXPLANATION = (
    "(D1) abstract interpretation (AI-SHAPE, sa/shapes.py) of the bodies of MathArray.__add__/__radd__/__sub__/__rsub__/"
    "__mul__/__rmul__/__truediv__/__rtruediv__/__pow__/__rpow__, the five in-place forms (which must return the new value and never store into self) and robust_pow over operand "
    "descriptors (number classes 0 / int / integer-valued float / non-integer / negative / complex; vectors n and m, "
    "matrices nxn (regular and singular), mxm, nxm, mxn, 1xn, nx1, tensors; single-entry arrays of 0-3 axes, which must act as the number they hold without changing the result's shape; foreign objects) under Python's "
    "operator dispatch with a model table for ndarray's elementwise methods, np.dot and np.linalg.matrix_power; the "
    "outcome (raise class | result shape and symbolic value) of every operand pair is compared with reference table A6; "
    "(D2) the same interpreter runs MathExpression.eval_product over all operand-kind chains of length <= 4 and compares "
    "with a reference state machine (third vector factor refused, shape rules of A6 otherwise); eval_array wraps in "
    "MathArray and turns ValueError / dtype object into UnableToParse; (D3) MatrixGrader.check_response evaluates the "
    "parent inside MathArray.enable_negative_powers(config['negative_powers']), the context manager installs its argument "
    "in the class flag that __pow__ reads; (D4) cast discipline: every result of an evaluation action leaves eval_node "
    "through cast_np_numeric_as_builtin, every intermediate product of eval_product is cast before it is used as a left "
    "operand, and the cast turns every numpy scalar kind into a builtin number; the negative-powers manager is entered only by "
    "MatrixGrader.check_response unless it restores the previous value; (D5) the library's own array-valued producers "
    "(RandomFunction, ArraySamplingSet.gen_sample, cross, identity, the constant tables) return MathArray-typed values.")
NOT_DECIDED = ("the numeric values numpy returns for conforming operands (np.dot, matrix_power, elementwise arithmetic are "
               "a model table); rows of A6 with two single-entry arrays, foreign objects or division by the number 0 (don't-care); "
               "eval_variable's int->float conversion (no shape consequence); that eval_sum/eval_power/eval_negation fold "
               "through the Python operators (C03).")
ASSUMPTIONS = ["numpy: ndarray.__op__ broadcasts, np.dot contracts the last axis of a with the second-to-last of b and returns "
               "a numpy scalar for vector.vector, matrix_power needs an int exponent and raises LinAlgError('Singular matrix'), "
               "a numpy scalar on the left of an operator bypasses MathArray's reflected methods",
               "Python numbers return NotImplemented for array operands, so `number op MathArray` reaches MathArray.__rop__"]

AQ = 'mitxgraders.helpers.calc.math_array.MathArray'
ME = 'mitxgraders.helpers.calc.expressions.MathExpression'
CAST = 'mitxgraders.helpers.calc.expressions.cast_np_numeric_as_builtin'
SFE = 'mitxgraders.exceptions.StudentFacingError'
RP = 'mitxgraders.helpers.calc.robust_pow.robust_pow'
SYM = {'add': '+', 'sub': '-', 'mul': '*', 'truediv': '/', 'pow': '^'}


def check(ctx):
    idx = ctx.index
    flag_attr = d3_negative_powers(ctx, idx)
    d1_table(ctx, idx, flag_attr)
    d1_inplace(ctx, idx)
    d2_product(ctx, idx, flag_attr)
    d2_array(ctx, idx)
    d4_cast(ctx, idx, flag_attr)
    d5_producers(ctx, idx)


# ----------------------------------------------------------------------------- operand catalogue
def numbers():
    # 2.9999999999999996 / -2.0000000000000004: non-integers one ulp away from an integer (a tolerance-based integrality test
    # followed by int() truncation accepts them)
    return [S.N(0), S.N(0.0), S.N(2), S.N(2.0), S.N(2.5), S.N(-2), S.N(-2.0), S.N(-2.5), S.N(1 + 2j), S.N(0j),
            S.N(2.9999999999999996), S.N(-2.0000000000000004)]


def arrays(name):
    A = lambda shape, **kw: S.Arr(shape, name=name, **kw)
    return [A(('n',)), A(('m',)), A(('n', 'n')), A(('n', 'n'), singular=True), A(('m', 'm')), A(('n', 'm')), A(('m', 'n')),
            A((1, 'n')), A(('n', 1)), A(('n', 'n', 'n')), A(('n', 'm', 'k'))]


def small_arrays(name):
    """Single-entry arrays of 0..3 axes: they stand for the number they hold (item 0, a non-integer, an integer)."""
    # every number of axes with a non-integer entry; zero and integer entries on alternating axis counts
    spec = [((), 0), ((), 2.5), ((1,), 2.5), ((1,), 2), ((1, 1), 0), ((1, 1), 2.5), ((1, 1, 1), 2.5), ((1, 1, 1), 2)]
    return [S.Arr(shape, name=name, item=S.N(item)) for shape, item in spec]


def big(x):
    return isinstance(x, S.Arr) and not x.size1


def intlike(n):
    return n.kind == 'int' or (n.kind == 'float' and float(n.v).is_integer())


# ----------------------------------------------------------------------------- reference table A6
class Expect(object):
    def __init__(self, kind, row, shape=None, val=None, number=False, why=''):
        self.kind = kind      # 'RAISE' | 'VALUE' | 'ANY'
        self.row = row
        self.shape = shape
        self.val = val
        self.number = number
        self.why = why


def lf_of(x):
    return x.val if isinstance(x, S.Arr) else None


def a6(op, L, R, negpow=True):
    """Reference outcome of `L op R` (A6, derived from the property statement)."""
    ANY = Expect('ANY', "don't-care")
    if isinstance(L, S.Foreign) or isinstance(R, S.Foreign):
        return ANY
    ls1, rs1 = isinstance(L, S.Arr) and L.size1, isinstance(R, S.Arr) and R.size1
    if ls1 or rs1:
        # a single-entry array (any number of axes) stands for the number it holds: the outcome is that of the number,
        # in particular the other operand's shape is kept -- no leading length-1 axes may appear
        if (ls1 and big(R)) or (rs1 and big(L)):
            Ln = S.N(L.item.v) if ls1 else L
            Rn = S.N(R.item.v) if rs1 else R
            exp = a6(op, Ln, Rn, negpow)
            if exp.kind != 'ANY':
                exp.row = exp.row.replace('number', 'single-entry array') if 'number' in exp.row else exp.row + ' (single-entry array as the number)'
                exp.why = exp.why + '; a one-element array counts as the number it holds and must not change the shape of the result'
            return exp
        return ANY
    ln, rn = isinstance(L, S.N), isinstance(R, S.N)
    if op in ('add', 'sub'):
        sign = 1 if op == 'add' else -1
        if big(L) and rn:
            if R.v == 0:
                return Expect('VALUE', 'array %s number 0' % SYM[op], L.shape, dict(L.val), why='zero is neutral')
            return Expect('RAISE', 'array %s number != 0' % SYM[op], why='adding a nonzero scalar to an array is always an error')
        if ln and big(R):
            if L.v == 0:
                return Expect('VALUE', 'number 0 %s array' % SYM[op], R.shape, S.lf_scale(R.val, sign), why='zero is neutral')
            return Expect('RAISE', 'number != 0 %s array' % SYM[op], why='adding a nonzero scalar to an array is always an error')
        if big(L) and big(R):
            if L.shape == R.shape:
                return Expect('VALUE', 'array %s array of the same shape' % SYM[op], L.shape, S.lf_add(L.val, R.val, sign),
                              why='elementwise sum/difference of equal shapes')
            return Expect('RAISE', 'array %s array of another shape' % SYM[op], why='combining arrays of different shapes is always an error')
    if op == 'mul':
        if big(L) and rn:
            return Expect('VALUE', 'array * number', L.shape, S.lf_scale(L.val, R.v), why='scalar scaling')
        if ln and big(R):
            return Expect('VALUE', 'number * array', R.shape, S.lf_scale(R.val, L.v), why='scalar scaling')
        if big(L) and big(R):
            if L.ndim > 2 or R.ndim > 2:
                return Expect('RAISE', 'array * array with a tensor', why='products involving tensors are refused')
            shape = S.dot_shape(L.shape, R.shape)
            if shape is None:
                return Expect('RAISE', 'array * array, inner dimensions differ', why='combining arrays of incompatible shapes is always an error')
            val = S.dot_val(L, R)
            if all(d == 1 for d in shape):
                row = 'vector * vector' if not shape else 'array * array giving a 1x1 result'
                return Expect('VALUE', row, (), val, number=True, why='a dot product / 1x1 result is a number')
            return Expect('VALUE', 'array * array, inner dimensions agree', shape, val, why='dot / matrix product')
    if op == 'truediv':
        if big(L) and rn:
            if R.v == 0:
                return ANY
            return Expect('VALUE', 'array / number', L.shape, S.lf_scale(L.val, 1.0 / R.v), why='division by scalars')
        if big(R):
            return Expect('RAISE', '%s / array' % ('array' if big(L) else 'number'), why='dividing by an array is always an error')
    if op == 'pow':
        if ln and big(R):
            return Expect('RAISE', 'number ^ array', why='an array exponent is always an error')
        if big(L):
            if not L.square:
                return Expect('RAISE', 'vector, non-square matrix or tensor ^ anything',
                              why='raising vectors, tensors or non-square matrices to powers is always an error')
            if big(R):
                return Expect('RAISE', 'square matrix ^ array', why='an array exponent is always an error')
            if rn:
                if R.kind == 'complex':
                    if R.v == 0:
                        return ANY
                    return Expect('RAISE', 'square matrix ^ non-integer', why='matrices to non-integer powers are always errors')
                if not intlike(R):
                    return Expect('RAISE', 'square matrix ^ non-integer', why='matrices to non-integer powers are always errors')
                k = int(R.v)
                val = S.lf_atom(('mpow', S.lf_frozen(L.val), k))
                if k < 0:
                    if not negpow:
                        return Expect('RAISE', 'square matrix ^ negative integer, negative powers disabled',
                                      why='negative matrix powers are refused while a grader has them disabled')
                    if L.singular:
                        return Expect('RAISE', 'singular matrix ^ negative integer', why='a singular matrix has no inverse')
                    return Expect('VALUE', 'square matrix ^ negative integer (inverse)', L.shape, val, why='negative powers are inverses')
                if k == 0:
                    return Expect('VALUE', 'square matrix ^ 0', L.shape, val, why='identity')
                return Expect('VALUE', 'square matrix ^ positive integer-like', L.shape, val, why='integer powers of square matrices')
    if ln and rn:
        return ANY
    raise AnalysisError('reference table A6 has no row for %s %s %s' % (S.describe(L), op, S.describe(R)))


def student_facing(outcome):
    return SFE in outcome.exc_chain()


def where_of(idx, outcome, default):
    node = outcome.where
    if node is not None and hasattr(node, 'lineno'):
        fn = node
        for a in [node] + list(ancestors(node)):
            if isinstance(a, ast.Module):
                for m in idx.modules.values():
                    if m.tree is a:
                        return '%s:%d' % (m.relpath, node.lineno)
    return default


def events_text(outcome):
    out = []
    for e in outcome.trace.events:
        if e['kind'] == 'EW':
            o = e['other']
            if isinstance(o, S.Arr):
                out.append('numpy elementwise %s of shapes (%s) and (%s)%s' % (
                    e['op'], ','.join(map(str, e['arr'].shape)), ','.join(map(str, o.shape)),
                    ' [BROADCAST]' if e['broadcast'] else ''))
            else:
                out.append('numpy elementwise %s of an array with the number %r' % (e['op'], o.v))
        elif e['kind'] == 'DOT':
            out.append('np.dot%s' % ('' if e['ok'] else ' (inner dimensions differ -> ValueError)'))
        elif e['kind'] == 'MPOW':
            out.append('matrix_power(exponent %r)' % (e['exp'].v,))
        elif e['kind'] == 'NPLEFT':
            out.append('numpy scalar on the left of %s: MathArray.__r%s__ bypassed' % (e['op'], e['op']))
        elif e['kind'] == 'STORE':
            out.append('the result is written into the left operand, which casts it to that array\'s entry type: an integer array '
                       'op= a float array is truncated, a real array op= a complex one loses its imaginary part')
    return '; '.join(out) or 'no numpy primitive reached'


def predicates_text(outcome):
    """The helper predicates evaluated on the way, with their defining expressions (names the cooperating helper of a defect)."""
    seen, out = set(), []
    for e in outcome.trace.of('PRED'):
        e = dict(e, args=[S.describe(x) for x in e['args']])
        key = (e['name'], tuple(e['args']), e['value'])
        if key in seen:
            continue
        seen.add(key)
        out.append('%s(%s) is %s%s' % (e['name'], ', '.join(e['args']), e['value'],
                                      ' [defined as `%s`]' % e['definition'] if e['definition'] else ''))
    return '; '.join(out[-5:])


def judge(exp, outcome):
    """None when the outcome agrees with the reference, else (found, explanation)."""
    if exp.kind == 'ANY':
        return None
    if exp.kind == 'RAISE':
        if outcome.kind == 'VALUE':
            return ('returns %s' % S.describe(outcome.value),
                    'a value is returned instead of a student-facing error (%s)' % events_text(outcome))
        if not student_facing(outcome):
            return ('raises %s' % outcome.exc.cls.name.split('.')[-1],
                    'the error raised is %s, which is not a student-facing library error (%s)'
                    % (outcome.exc.cls.name.split('.')[-1], outcome.exc.message or 'no message'))
        return None
    # VALUE expected
    if outcome.kind == 'RAISE':
        return ('raises %s' % outcome.exc.cls.name.split('.')[-1],
                'an error (%s) is raised although linear algebra defines the result' % outcome.exc.cls.name.split('.')[-1])
    v = outcome.value
    if exp.number:
        if not isinstance(v, S.N):
            return ('returns %s' % S.describe(v), 'the result should be a number but is %s (%s)' % (S.describe(v), events_text(outcome)))
        if v.sym is None or not S.lf_equal(v.sym, exp.val):
            return ('value %s' % S.lf_show(v.sym), 'the number returned is %s instead of %s' % (S.lf_show(v.sym), S.lf_show(exp.val)))
        return None
    if not isinstance(v, S.Arr):
        return ('returns %s' % S.describe(v), 'the result should be an array of shape (%s) but is %s'
                % (','.join(map(str, exp.shape)), S.describe(v)))
    if tuple(v.shape) != tuple(exp.shape):
        return ('shape (%s)' % ','.join(map(str, v.shape)), 'the result has shape (%s) instead of (%s): a differently shaped '
                '(broadcast) result is returned silently (%s)' % (','.join(map(str, v.shape)), ','.join(map(str, exp.shape)),
                                                                 events_text(outcome)))
    if not S.lf_equal(v.val, exp.val):
        return ('value %s' % S.lf_show(v.val), 'the value returned is %s instead of %s (%s)'
                % (S.lf_show(v.val), S.lf_show(exp.val), events_text(outcome)))
    return None


# ----------------------------------------------------------------------------- D1
def absent(r, idx, construct, detail, loc='', **kw):
    """Report a construct that was NOT FOUND: a removal (VIOLATION) only when no unreviewed helper could hide it."""
    left = list(getattr(idx, 'unreviewed', None) or [])
    if left:
        r.undecided(construct, detail + ' [not called a removal: helper(s) %s could not be inlined for review]' % ', '.join(left), loc)
    else:
        r.violation(construct, detail, loc, **kw)


def make_hook(flag_attr, negpow):
    def hook(cv, attr, valnode):
        if cv.ci is not None and cv.ci.qualname == AQ and attr == flag_attr:
            return negpow
        return NotImplemented
    return hook


def d1_table(ctx, idx, flag_attr):
    r = ctx.rule('D1.TABLE', 'every operator method of MathArray realises the outcome table A6 for every operand-shape pair', floor=103)
    with r:
        ci = idx.cls(AQ)
        rp = idx.func(RP)
        if 'numpy.ndarray' not in ci.mro and not any(b.endswith('ndarray') for b in ci.mro):
            raise AnalysisError('MathArray no longer derives from numpy.ndarray: the dispatch model does not apply')
        groups = {}     # (method, row) -> [n_ok, first failure]
        order = []

        def record(method, exp, L, R, op, outcome, flag):
            if exp.kind == 'ANY':
                return
            key = (method, exp.row)
            if key not in groups:
                groups[key] = [0, None, exp, None]
                order.append(key)
            if outcome.trace.inexact and groups[key][3] is None:
                groups[key][3] = outcome.trace.inexact[0]
            bad = judge(exp, outcome)
            if bad is None:
                groups[key][0] += 1
            elif groups[key][1] is None or (outcome.kind == 'VALUE' and groups[key][1][3].kind == 'RAISE'):
                # keep the most telling witness: a silently returned value beats a wrong exception class
                groups[key][1] = (L, R, op, outcome, bad, flag)

        lefts = arrays('A') + small_arrays('A')
        rights = numbers() + arrays('B') + small_arrays('B') + [S.Foreign()]
        for op in ('add', 'sub', 'mul', 'truediv', 'pow'):
            flags = (True, False) if op == 'pow' else (True,)
            for flag in flags:
                hook = make_hook(flag_attr, flag)
                for L in lefts:
                    for R in rights:
                        exp = a6(op, L, R, flag)
                        if exp.kind == 'ANY':
                            continue
                        record('__%s__' % op, exp, L, R, op, S.run_binary(idx, AQ, op, L, R, class_attr=hook), flag)
                        record('__i%s__' % op, exp, L, R, op, S.run_binary(idx, AQ, op, L, R, inplace=True, class_attr=hook), flag)
                        if op == 'pow':
                            record('robust_pow', exp, L, R, op,
                                   S.run_function(idx, AQ, RP, [L, R], class_attr=hook), flag)
                for L in numbers():
                    for R in arrays('B'):
                        exp = a6(op, L, R, flag)
                        if exp.kind == 'ANY':
                            continue
                        record('__r%s__' % op, exp, L, R, op, S.run_binary(idx, AQ, op, L, R, class_attr=hook), flag)
                        if op == 'pow':
                            record('robust_pow (number base)', exp, L, R, op,
                                   S.run_function(idx, AQ, RP, [L, R], class_attr=hook), flag)
        any_fail = any(groups[k][1] is not None for k in order)
        reasons = set()
        for key in order:
            n_ok, fail, exp, inexact = groups[key]
            method, row = key
            owner = ci.methods.get(method)
            loc = owner.loc if owner is not None else (rp.loc if method.startswith('robust_pow') else ci.loc)
            construct = '%s [%s]' % (('MathArray.' + method) if method.startswith('__') else method, row)
            if fail is None and inexact is not None:
                # reported once per reason, and only when no concrete witness explains the situation already
                if not any_fail and inexact not in reasons:
                    reasons.add(inexact)
                    r.undecided(construct, 'the representatives agree with table A6, but %s: the outcome is not constant on the number '
                                'classes of the abstract domain, so this row (and others) cannot be discharged' % inexact, loc)
            elif fail is None:
                r.ok(construct, '%d operand pair(s): %s' % (n_ok, 'raise a student-facing error' if exp.kind == 'RAISE'
                                                            else 'return the value linear algebra gives'), loc)
            else:
                L, R, op, outcome, (found, text), flag = fail
                through = [q for q in (getattr(idx, 'unreviewed', None) or []) if q in outcome.trace.methods]
                if through:
                    construct += ' (interpreted through %s)' % ', '.join(through)
                pair = '%s %s %s%s' % (S.describe(L), SYM[op], S.describe(R), '' if op != 'pow' else
                                      ' with negative powers %s' % ('enabled' if flag else 'disabled'))
                preds = predicates_text(outcome)
                r.violation(construct, '%s: %s. Property: %s.%s' % (pair, text, exp.why, ' Decided by: %s.' % preds if preds else ''),
                            where_of(idx, outcome, loc),
                            expected=('a student-facing error' if exp.kind == 'RAISE' else
                                      ('number %s' % S.lf_show(exp.val) if exp.number else
                                       'array of shape (%s) with value %s' % (','.join(map(str, exp.shape)), S.lf_show(exp.val)))),
                            found=found)


def d1_inplace(ctx, idx):
    r = ctx.rule('D1.INPLACE', 'the in-place operators return the (new) value of the binary operation and never write into self', floor=5)
    with r:
        ci = idx.cls(AQ)
        for op in ('add', 'sub', 'mul', 'truediv', 'pow'):
            name = '__i%s__' % op
            fi = ci.methods.get(name)
            construct = 'MathArray.%s: no store into self' % name
            if fi is None:
                # falls back to ndarray's in-place method: judged by D1.TABLE (numpy broadcasts in place)
                r.ok(construct, 'not defined (ndarray\'s method applies, see D1.TABLE)', ci.loc, nontrivial=False)
                continue
            selfp = fi.params[0]
            bad = None
            for n in walk_own(fi.node):
                if isinstance(n, (ast.Assign, ast.AugAssign)):
                    tgts = n.targets if isinstance(n, ast.Assign) else [n.target]
                    for t in tgts:
                        if isinstance(t, (ast.Subscript, ast.Attribute)) and isinstance(t.value, ast.Name) and t.value.id == selfp:
                            bad = (n, 'stores into %s (`%s`)' % (selfp, short(n)))
                        if isinstance(n, ast.AugAssign) and isinstance(t, ast.Name) and t.id == selfp:
                            bad = (n, 'updates %s in place (`%s`)' % (selfp, short(n)))
                elif isinstance(n, ast.Call):
                    cn = nf.callee_name(n)
                    if cn in ('copyto', 'put', 'place', 'putmask') and n.args and isinstance(n.args[0], ast.Name) and n.args[0].id == selfp:
                        bad = (n, 'copies the result into %s (`%s`)' % (selfp, short(n)))
                    if cn in ('fill', 'itemset', '__setitem__', '__iadd__', '__isub__', '__imul__', '__itruediv__') \
                            and isinstance(n.func, ast.Attribute) and isinstance(n.func.value, ast.Name) and n.func.value.id == selfp \
                            and cn != name:
                        bad = (n, 'calls %s.%s(...)' % (selfp, cn))
                    for k in n.keywords:
                        if k.arg == 'out' and isinstance(k.value, ast.Name) and k.value.id == selfp:
                            bad = (n, 'computes with out=%s (`%s`)' % (selfp, short(n)))
                elif isinstance(n, ast.Return) and isinstance(n.value, ast.Name) and n.value.id == selfp and bad is None:
                    bad = (n, 'returns %s itself' % selfp)
            if bad is None:
                r.ok(construct, 'returns a new object', fi.loc)
            else:
                r.violation(construct, 'the in-place operator %s: the value is forced into the entry type and shape of the left operand '
                            '(an integer array %s= a float array is truncated, a real array %s= a complex one loses its imaginary part) '
                            'instead of being the value of `self %s other`' % (bad[1], SYM[op], SYM[op], SYM[op]), lib.loc(fi, bad[0]),
                            expected='return self.__%s__(other)' % op, found=short(bad[0]))


# ----------------------------------------------------------------------------- D2: eval_product
def ref_step(op, acc, val):
    """One step of the reference fold: ('RAISE', why) or ('VALUE', descriptor)."""
    exp = a6(op, acc, val)
    if exp.kind == 'RAISE':
        return 'RAISE', exp.why
    if exp.kind == 'VALUE':
        if exp.number:
            return 'VALUE', S.N(7.0, False, exp.val)
        return 'VALUE', S.Arr(exp.shape, exp.val)
    if isinstance(acc, S.N) and isinstance(val, S.N):
        x = acc.v * val.v if op == 'mul' else acc.v / val.v
        return 'VALUE', S.N(x)
    raise AnalysisError('reference fold: no rule for %s %s %s' % (S.describe(acc), op, S.describe(val)))


def ref_product(seq):
    """Reference state machine for a product chain [v0, op1, v1, ...]."""
    is_vec = lambda x: isinstance(x, S.Arr) and x.ndim == 1
    acc = seq[0]
    flag = False
    for i in range(1, len(seq), 2):
        op, val = seq[i], seq[i + 1]
        if op == '*' and is_vec(val):
            if flag:
                return 'TRIPLE', None
            if is_vec(acc):
                flag = True
        kind, res = ref_step('mul' if op == '*' else 'truediv', acc, val)
        if kind == 'RAISE':
            return 'SHAPE', res
        acc = res
    return 'VALUE', acc


def kind_letter(x):
    if isinstance(x, S.N):
        return 's'
    return {1: 'v', 2: 'M'}.get(x.ndim, 'T')


def d2_product(ctx, idx, flag_attr):
    r = ctx.rule('D2.TRIPLE', 'eval_product refuses a third vector factor and otherwise folds left to right under table A6', floor=8)
    r4 = ctx.rule('D4.LEFTCAST', 'no step of eval_product hands a numpy scalar to an array as left operand', floor=3)
    with r:
        fi = idx.func(ME + '.eval_product')
        hook = make_hook(flag_attr, True)
        mk = {'s': lambda i: S.N(2.5), 'v': lambda i: S.Arr(('n',), name='v%d' % i), 'M': lambda i: S.Arr(('n', 'n'), name='M%d' % i)}
        groups = {}
        npleft = {}
        for n in (2, 3, 4):
            for kinds in itertools.product('svM', repeat=n):
                for ops in itertools.product('*/', repeat=n - 1):
                    seq = [mk[kinds[0]](0)]
                    for i, (o, k) in enumerate(zip(ops, kinds[1:]), 1):
                        seq += [o, mk[k](i)]
                    text = ' '.join(x if isinstance(x, str) else kind_letter(x) for x in seq)
                    refk, refv = ref_product(seq)
                    out = S.run_function(idx, AQ, fi.qualname, [list(seq)], class_attr=hook)
                    key = (refk, n)
                    g = groups.setdefault(key, [0, None])
                    bad = None
                    if refk == 'TRIPLE':
                        if out.kind == 'VALUE':
                            bad = ('returns %s' % S.describe(out.value), 'the chain contains a third vector factor after a '
                                   'vector*vector product but is evaluated instead of being refused as ambiguous')
                        elif not student_facing(out):
                            bad = ('raises %s' % out.exc.cls.name, 'the refusal is not a student-facing error')
                    elif refk == 'SHAPE':
                        if out.kind == 'VALUE':
                            bad = ('returns %s' % S.describe(out.value), 'a shape error of table A6 (%s) is not raised (%s)'
                                   % (refv, events_text(out)))
                        elif not student_facing(out):
                            bad = ('raises %s' % out.exc.cls.name, 'the error is not student-facing')
                    else:
                        if out.kind == 'RAISE':
                            bad = ('raises %s' % out.exc.cls.name.split('.')[-1], 'an unambiguous product is refused (%s)'
                                   % (out.exc.message or out.exc.cls.name))
                        else:
                            v = out.value
                            same = (isinstance(v, S.N) and isinstance(refv, S.N)) or \
                                   (isinstance(v, S.Arr) and isinstance(refv, S.Arr) and tuple(v.shape) == tuple(refv.shape))
                            if not same:
                                bad = ('returns %s' % S.describe(v), 'the result should be %s (%s)' % (S.describe(refv), events_text(out)))
                    if bad is None:
                        g[0] += 1
                    elif g[1] is None:
                        g[1] = (text, out, bad)
                    lefts = out.trace.of('NPLEFT')
                    h = npleft.setdefault(n, [0, None])
                    if lefts and h[1] is None:
                        h[1] = (text, out, lefts[0])
                    elif not lefts:
                        h[0] += 1
        label = {'TRIPLE': 'chains with a third vector factor are refused', 'SHAPE': 'chains violating a shape rule raise',
                 'VALUE': 'unambiguous chains evaluate left to right'}
        for (refk, n), (n_ok, fail) in sorted(groups.items()):
            construct = 'MathExpression.eval_product [%s, %d operands]' % (label[refk], n)
            if fail is None:
                r.ok(construct, '%d chain(s) agree with the reference fold' % n_ok, fi.loc)
            else:
                text, out, (found, why) = fail
                r.violation(construct, 'chain `%s` (s number, v vector, M square matrix): %s' % (text, why),
                            where_of(idx, out, fi.loc), expected={'TRIPLE': 'CalcError (ambiguous triple product)',
                                                                  'SHAPE': 'student-facing shape error',
                                                                  'VALUE': 'the left-to-right product'}[refk], found=found)
    with r4:
        fi = idx.func(ME + '.eval_product')
        if not npleft:
            raise AnalysisError('eval_product chains were not interpreted')
        ctx.extra['_c14_leftcast_all_chains'] = all(fail is None for n_ok, fail in npleft.values())
        for n, (n_ok, fail) in sorted(npleft.items()):
            construct = 'MathExpression.eval_product [numpy scalars never reach an array as left operand, %d operands]' % n
            if fail is None:
                r4.ok(construct, '%d chain(s)' % n_ok, fi.loc)
            else:
                text, out, ev = fail
                r4.violation(construct, 'chain `%s`: the numpy scalar produced by a vector*vector product is used as the left '
                             'operand of `%s` with an array; numpy then handles the operation itself, MathArray.__r%s__ is '
                             'bypassed and shapes broadcast silently (outcome: %s)' % (text, SYM.get(ev['op'], ev['op']), ev['op'],
                                                                                      out.describe()),
                             where_of(idx, out, fi.loc), expected='cast_np_numeric_as_builtin after every step')


# ----------------------------------------------------------------------------- D2: eval_array
def d2_array(ctx, idx):
    r = ctx.rule('D2.ARRAY', 'eval_array wraps its input in MathArray and turns ragged input into UnableToParse', floor=4)
    with r:
        fi = idx.func(ME + '.eval_array')
        p0 = fi.params[0]
        ctor = []
        for c in walk_own(fi.node):
            if isinstance(c, ast.Call) and c.args and isinstance(c.args[0], ast.Name) and c.args[0].id == p0:
                targets, how = idx.resolve_call(fi, c)
                ctor.append((c, targets))
        wraps = [c for c, t in ctor if any(isinstance(x, tuple) and x[0] == 'class' and x[1].qualname == AQ for x in t)]
        others = [c for c, t in ctor if c not in wraps]
        if not wraps:
            if others:
                r.violation('MathExpression.eval_array: array construction', 'the parsed entries are wrapped by `%s` instead of '
                            'MathArray: the evaluator hands out arrays whose operators are numpy\'s broadcasting ones'
                            % short(others[0]), lib.loc(fi, others[0]), expected='MathArray(parse_result)', found=short(others[0]))
                return
            raise AnalysisError('eval_array: no construction from the parse result found')
        call = wraps[0]
        st = lib.enclosing_stmt(call)
        if not (isinstance(st, ast.Assign) and len(st.targets) == 1 and isinstance(st.targets[0], ast.Name)):
            raise AnalysisError('eval_array: MathArray(...) is not bound to a local')
        arr = st.targets[0].id
        r.ok('MathExpression.eval_array: array construction', 'MathArray(%s)' % p0, lib.loc(fi, call))
        # ValueError -> UnableToParse
        tr = lib.enclosing_try(call)
        if tr is None:
            absent(r, idx, 'MathExpression.eval_array: except ValueError', 'the construction is no longer inside a try: numpy\'s '
                        'ValueError for ragged input escapes instead of UnableToParse', lib.loc(fi, call))
        else:
            hs = [h for h in tr.handlers if set(lib.handler_class_names(h)) & {'ValueError', 'Exception', 'BaseException'}]
            if not hs:
                r.violation('MathExpression.eval_array: except ValueError', 'no handler for ValueError', lib.loc(fi, tr))
            else:
                ok = True
                for p in nf.decision_paths(hs[0].body):
                    if p.leaf.kind != 'raise' or nf.exc_class_name(p.leaf.expr) != 'UnableToParse':
                        ok = False
                        r.violation('MathExpression.eval_array: except ValueError', 'ragged input (numpy ValueError) %s instead of '
                                    'raising UnableToParse' % ('is re-raised unchanged' if p.leaf.kind == 'raise' and p.leaf.expr is None
                                                               else 'raises %s' % nf.exc_class_name(p.leaf.expr) if p.leaf.kind == 'raise'
                                                               else 'is swallowed'), lib.loc(fi, hs[0]), expected='raise UnableToParse')
                if ok:
                    r.ok('MathExpression.eval_array: except ValueError', 'raises UnableToParse', lib.loc(fi, hs[0]))
        # dtype == object -> UnableToParse, before the return
        cfg = cfg_of(fi.node)
        tests = []
        for n in cfg.nodes:
            if n.kind == 'test' and isinstance(n.ast, ast.If):
                t = nf.canon(n.ast.test)
                for pol, pat in (('true', "_A.dtype == 'object'"), ('true', "_A.dtype == object"), ('false', "_A.dtype != 'object'"),
                                 ('false', "_A.dtype != object")):
                    b = nf.match(pat, t)
                    if b is not None and isinstance(b['_A'], ast.Name) and b['_A'].id == arr:
                        tests.append((n, pol))
        rets = [n for n in cfg.nodes if n.kind == 'stmt' and isinstance(n.ast, ast.Return)]
        if not tests:
            absent(r, idx, 'MathExpression.eval_array: dtype object', 'the `dtype == object` test is gone: ragged rows yield an '
                        'object array that is handed to the evaluator', fi.loc, expected="if array.dtype == 'object': raise UnableToParse")
        else:
            tn, pol = tests[0]
            branch = [t for t, lab in tn.succs if lab == pol]
            raises = bool(branch) and cfg.always_raises_from(branch)
            cls_ok = False
            body = tn.ast.body if pol == 'true' else tn.ast.orelse
            for p in nf.decision_paths(body):
                if p.leaf.kind == 'raise' and nf.exc_class_name(p.leaf.expr) == 'UnableToParse':
                    cls_ok = True
            dom = cfg.dominates([tn], rets)
            r.check(raises and cls_ok and dom, 'MathExpression.eval_array: dtype object', 'raises UnableToParse before any return',
                    'an object-dtype (ragged) array %s' % ('does not raise UnableToParse' if not (raises and cls_ok)
                                                           else 'can be returned without the dtype test'), lib.loc(fi, tn.ast))
        good = [x for x in rets if isinstance(x.ast.value, ast.Name) and x.ast.value.id == arr]
        r.check(len(good) == len(rets) and rets, 'MathExpression.eval_array: return', 'returns the MathArray',
                'eval_array returns `%s` instead of the MathArray it built' % (short(rets[0].ast.value) if rets else 'nothing'),
                lib.loc(fi, rets[0].ast) if rets else fi.loc)


# ----------------------------------------------------------------------------- D3
def d3_negative_powers(ctx, idx):
    """Returns the name of the class attribute that carries the negative-powers switch."""
    r = ctx.rule('D3.NEGPOW', 'negative powers stay refused while a grader has them disabled (guard, switch, single non-nested entry)', floor=5)
    flag_attr = None
    with r:
        cm = idx.func(AQ + '.enable_negative_powers')
        model = manager_model(idx, cm)
        valp = model['valp']
        setup = model['setup']
        installs = [st for st in setup if st['installs']]
        if not setup:
            raise AnalysisError('enable_negative_powers: no class-flag store on entry')
        entry = 'before the yield' if model['form'] == 'generator' else 'in %s.__enter__' % model['class_name']
        if not installs:
            st = setup[0]
            r.violation('MathArray.enable_negative_powers: setup', 'the store on entry (%s) is `%s`: the requested value is not '
                        'installed, so MatrixGrader(negative_powers=False) cannot disable negative powers' % (entry, short(st['node'])),
                        lib.loc(st['fi'], st['node']), expected='cls._negative_powers = %s' % valp, found=short(st['node']))
            flag_attr = st['attr']
        else:
            flag_attr = installs[0]['attr']
            r.ok('MathArray.enable_negative_powers: setup', 'cls.%s = %s %s' % (flag_attr, valp, entry),
                 lib.loc(installs[0]['fi'], installs[0]['node']))
        # __pow__ reads that flag
        # the switch is read by the power operator: anywhere in its module (the method, a helper, a refusal table's lambda);
        # that the read has the right EFFECT is decided by D1.TABLE (rows "negative powers disabled")
        pw = idx.func(AQ + '.__pow__')
        reads = [n for n in ast.walk(pw.module.tree) if isinstance(n, ast.Attribute) and n.attr == flag_attr and isinstance(n.ctx, ast.Load)
                 and not any(a_ is cm.node for a_ in ancestors(n))
                 and not any(isinstance(a_, ast.ClassDef) and a_.name == (model.get('class_name') or '') for a_ in ancestors(n))]
        if reads:
            r.ok('MathArray.__pow__: switch', 'MathArray.%s is read by the power code' % flag_attr, pw.loc)
        else:
            absent(r, idx, 'MathArray.__pow__: switch', 'nothing in %s reads the class flag %s that enable_negative_powers installs: the '
                   'switch has no effect' % (pw.module.relpath, flag_attr), pw.loc)
        # the grader side
        entry = idx.func('mitxgraders.formulagrader.matrixgrader.MatrixGrader.check_response')
        fi, sup = entry, []
        # the call of the parent's check_response may live in a helper method of MatrixGrader that check_response calls
        for cand in [entry] + [m for m in idx.cls('mitxgraders.formulagrader.matrixgrader.MatrixGrader').methods.values() if m is not entry]:
            found = [c for c in lib.calls_named(cand.node, 'check_response') if isinstance(c.func, ast.Attribute)
                     and isinstance(c.func.value, ast.Call) and nf.callee_name(c.func.value) == 'super']
            if found:
                fi, sup = cand, found
                break
        if not sup:
            raise AnalysisError('MatrixGrader: no super().check_response call')
        if fi is not entry and not lib.calls_named(entry.node, fi.name):
            raise AnalysisError('MatrixGrader.check_response does not call %s, which holds the parent call' % fi.name)
        for call in sup:
            withs = []
            child = call
            for a in ancestors(call):
                if isinstance(a, ast.With) and any(child is s or any(child is x for x in ast.walk(s)) for s in a.body):
                    withs.append(a)
                if a is fi.node:
                    break
            ctxs = []
            for w in withs:
                for item in w.items:
                    ce = item.context_expr
                    if isinstance(ce, ast.Name):
                        ce = lib.inline_locals(ce, fi.node)      # `cm = MathArray.enable_negative_powers(...)` ... `with cm:`
                    if isinstance(ce, ast.Call) and nf.callee_name(ce) == 'enable_negative_powers':
                        targets, how = idx.resolve_call(fi, ce)
                        if any(getattr(t, 'qualname', None) == cm.qualname for t in targets):
                            ctxs.append(ce)
            construct = 'MatrixGrader.check_response: evaluation'
            if not ctxs:
                absent(r, idx, construct, 'the parent check_response (which evaluates the student\'s formula) is not called inside '
                            '`with MathArray.enable_negative_powers(...)`: negative_powers=False is ignored', lib.loc(fi, call),
                            expected="with MathArray.enable_negative_powers(self.config['negative_powers'])")
                continue
            r.ok(construct, 'inside the context manager', lib.loc(fi, call))
            ce = ctxs[0]
            arg = ce.args[0] if ce.args else (ce.keywords[0].value if ce.keywords else None)
            if arg is None:
                raise AnalysisError('enable_negative_powers called without argument')
            arg_i = lib.inline_locals(arg, fi.node)
            res = nf.classify("self.config['negative_powers']", arg_i)
            if res == nf.MATCH:
                r.ok('MatrixGrader.check_response: switch argument', "config['negative_powers']", lib.loc(fi, ce))
            elif isinstance(arg_i, ast.Constant):
                r.violation('MatrixGrader.check_response: switch argument', 'the context manager is given the constant %r: the '
                            'negative_powers option of the grader is ignored' % (arg_i.value,), lib.loc(fi, ce),
                            expected="self.config['negative_powers']", found=short(arg))
            elif isinstance(res, tuple):
                r.violation('MatrixGrader.check_response: switch argument', res[1], lib.loc(fi, ce),
                            expected="self.config['negative_powers']", found=short(arg))
            elif nf.config_key(arg_i) is not None:
                r.violation('MatrixGrader.check_response: switch argument', "the switch is taken from config['%s'] instead of "
                            "config['negative_powers']" % nf.config_key(arg_i), lib.loc(fi, ce),
                            expected="self.config['negative_powers']", found=short(arg))
            else:
                r.undecided('MatrixGrader.check_response: switch argument', 'argument `%s` not recognised' % short(arg), lib.loc(fi, ce))
        # who enters the manager, and is nesting safe?
        d3_callers(r, idx, cm, flag_attr, fi, sup)
    if flag_attr is None:
        flag_attr = '_negative_powers'
    return flag_attr


class _FieldSubst(ast.NodeTransformer):
    def __init__(self, selfp, env):
        self.selfp, self.env = selfp, env

    def visit_Attribute(self, node):
        if isinstance(node.value, ast.Name) and node.value.id == self.selfp and node.attr in self.env and isinstance(node.ctx, ast.Load):
            from ..index import clone
            return clone(self.env[node.attr])
        self.generic_visit(node)
        return node


def manager_model(idx, cm):
    """Entry and exit stores of MathArray.enable_negative_powers in either form: a @contextmanager generator (stores before /
    after the yield) or a classmethod returning an object whose __enter__ / __exit__ do the work.  Expressions are resolved
    to the parameters (cls, value) of the classmethod."""
    decs = ' '.join(cm.decorators)
    if 'classmethod' not in decs or len(cm.params) != 2:
        raise AnalysisError('enable_negative_powers is no longer a classmethod (cls, value)')
    clsp, valp = cm.params
    model = {'clsp': clsp, 'valp': valp, 'setup': [], 'teardown': [], 'class_name': None, 'exit_fi': None}

    def is_cls(e):
        return isinstance(e, ast.Name) and e.id in (clsp, 'MathArray')

    def record(kind, node, fi, tgt, val, saved):
        if not (isinstance(tgt, ast.Attribute) and is_cls(tgt.value)):
            return
        attr = tgt.attr
        entry = {'node': node, 'fi': fi, 'attr': attr, 'value': val,
                 'installs': isinstance(val, ast.Name) and val.id == valp,
                 'restores': any(nf.equal(val, sv) for sv in saved) if val is not None else False,
                 'resets': isinstance(val, ast.Constant) or (isinstance(val, ast.Attribute) and is_cls(val.value) and val.attr != attr)}
        model[kind].append(entry)

    yields = [n for n in walk_own(cm.node) if isinstance(n, (ast.Yield, ast.YieldFrom))]
    if 'contextmanager' in decs and len(yields) == 1:
        model['form'] = 'generator'
        cfg = cfg_of(cm.node)
        ynodes = lib.cfg_nodes_for(cfg, yields[0])
        saved_names = {}
        for n in walk_own(cm.node):
            if isinstance(n, ast.Assign) and len(n.targets) == 1 and isinstance(n.targets[0], ast.Name) \
                    and isinstance(n.value, ast.Attribute) and is_cls(n.value.value) and cfg.nodes_of(n) \
                    and cfg.dominates(cfg.nodes_of(n), ynodes):
                saved_names[n.targets[0].id] = n.value
        for n in walk_own(cm.node):
            if isinstance(n, ast.Assign) and len(n.targets) == 1 and isinstance(n.targets[0], ast.Attribute):
                before = bool(cfg.nodes_of(n)) and cfg.dominates(cfg.nodes_of(n), ynodes)
                val = n.value
                if isinstance(val, ast.Name) and val.id in saved_names:
                    val = saved_names[val.id]
                saved = [v for v in saved_names.values() if isinstance(v, ast.Attribute) and v.attr == n.targets[0].attr]
                record('setup' if before else 'teardown', n, cm, n.targets[0], val, saved if not before else [])
        model['exit_fi'] = cm
        return model
    if yields:
        raise AnalysisError('enable_negative_powers: generator form not recognised')
    # class form: `return K(<args>)`
    rets = lib.returns_of(cm.node)
    if len(rets) != 1 or not isinstance(rets[0].value, ast.Call):
        raise AnalysisError('enable_negative_powers returns neither a generator-based nor a class-based context manager')
    call = rets[0].value
    targets, how = idx.resolve_call(cm, call)
    kls = [t[1] for t in targets if isinstance(t, tuple) and t[0] == 'class']
    if len(kls) != 1:
        raise AnalysisError('enable_negative_powers: the returned object `%s` is not an instance of a package class' % short(call))
    ci = kls[0]
    enter, exit_ = idx.lookup(ci, '__enter__'), idx.lookup(ci, '__exit__')
    init = idx.lookup(ci, '__init__')
    if enter is None or exit_ is None:
        raise AnalysisError('%s has no __enter__/__exit__: not a context manager' % ci.qualname)
    model['form'] = 'class'
    model['class_name'] = ci.name
    model['exit_fi'] = exit_
    fields = {}
    if init is not None:
        ip = init.params[1:]
        if len(call.args) > len(ip) or any(isinstance(a_, ast.Starred) for a_ in call.args):
            raise AnalysisError('%s(...) call cannot be bound to __init__' % ci.name)
        binding = dict(zip(ip, call.args))
        for k in call.keywords:
            if k.arg in ip:
                binding[k.arg] = k.value
        for n in walk_own(init.node):
            if isinstance(n, ast.Assign) and len(n.targets) == 1 and isinstance(n.targets[0], ast.Attribute) \
                    and isinstance(n.targets[0].value, ast.Name) and n.targets[0].value.id == init.params[0]:
                fields[n.targets[0].attr] = nf.subst(n.value, binding)
    elif call.args or call.keywords:
        raise AnalysisError('%s takes arguments but defines no __init__' % ci.name)

    def resolve(expr, meth, env):
        e = lib.inline_locals(expr, meth.node)
        return _FieldSubst(meth.params[0], env).visit(nf.subst(e, {}))

    # fields written on entry (e.g. self.previous = self.array_class._negative_powers)
    enter_fields = dict(fields)
    saved = []
    for n in walk_own(enter.node):
        if isinstance(n, ast.Assign) and len(n.targets) == 1 and isinstance(n.targets[0], ast.Attribute) \
                and isinstance(n.targets[0].value, ast.Name) and n.targets[0].value.id == enter.params[0]:
            v = resolve(n.value, enter, fields)
            enter_fields[n.targets[0].attr] = v
            if isinstance(v, ast.Attribute) and is_cls(v.value):
                saved.append(v)
    for f_, v in fields.items():
        if isinstance(v, ast.Attribute) and is_cls(v.value):
            saved.append(v)      # read at construction time
    for kind, meth, env in (('setup', enter, fields), ('teardown', exit_, enter_fields)):
        for n in walk_own(meth.node):
            if isinstance(n, ast.Assign) and len(n.targets) == 1 and isinstance(n.targets[0], ast.Attribute):
                tgt = resolve(n.targets[0], meth, env) if not (isinstance(n.targets[0].value, ast.Name) and n.targets[0].value.id == meth.params[0]) else None
                if tgt is None:
                    continue
                val = resolve(n.value, meth, env)
                record(kind, n, meth, tgt, val, [sv for sv in saved if sv.attr == tgt.attr] if kind == 'teardown' else [])
    # a store done in __init__ would act at construction, not on entry: not the reviewed protocol
    if init is not None:
        for n in walk_own(init.node):
            if isinstance(n, ast.Assign) and len(n.targets) == 1 and isinstance(n.targets[0], ast.Attribute):
                tgt = nf.subst(n.targets[0], binding)
                if isinstance(tgt, ast.Attribute) and is_cls(tgt.value):
                    raise AnalysisError('%s.__init__ writes the class flag at construction time' % ci.name)
    return model


def manager_reentrancy(idx, cm, flag_attr):
    """'restores' when the teardown writes back the value read before the setup, 'resets' when it writes a fixed value
    (default attribute / constant), None when not recognised."""
    model = manager_model(idx, cm)
    td = [t for t in model['teardown'] if t['attr'] == flag_attr]
    if td and all(t['restores'] for t in td):
        return 'restores'
    if td and all(t['resets'] and not t['restores'] for t in td):
        return 'resets'
    return None


def reachable_functions(idx, starts, limit=4000):
    seen = {}
    work = list(starts)
    while work and len(seen) < limit:
        f = work.pop()
        if f.qualname in seen:
            continue
        seen[f.qualname] = f
        # nested functions run when their definer runs (closures handed to the evaluator)
        for q, g in idx.funcs.items():
            if g.outer is f and q not in seen:
                work.append(g)
        for c in walk_own(f.node):
            if isinstance(c, ast.Call):
                try:
                    targets, how = idx.resolve_call(f, c)
                except Exception:
                    continue
                for t in targets:
                    if hasattr(t, 'qualname') and hasattr(t, 'node') and t.qualname not in seen:
                        work.append(t)
    return seen


def d3_callers(r, idx, cm, flag_attr, grader_fi, super_calls):
    construct = 'MathArray.enable_negative_powers: callers'
    sites = []
    for f in idx.package_funcs():
        for c in lib.calls_named(f.node, cm.name):
            targets, how = idx.resolve_call(f, c)
            if any(getattr(t, 'qualname', None) == cm.qualname for t in targets):
                sites.append((f, c))
    others = [(f, c) for f, c in sites if f.qualname != grader_fi.qualname]
    mode = manager_reentrancy(idx, cm, flag_attr)
    if not others:
        r.ok(construct, 'entered only by MatrixGrader.check_response (%s)' % ('re-entrant' if mode == 'restores' else 'not re-entrant: must not nest'),
             cm.loc)
        return
    if mode == 'restores':
        r.ok(construct, 'the manager restores the previous value on exit, so the %d other caller(s) may nest' % len(others), cm.loc)
        return
    if mode is None:
        r.undecided(construct, 'other callers exist (%s) and the teardown of the manager is not recognised'
                    % ', '.join(f.qualname for f, _ in others), cm.loc)
        return
    # the manager RESETS the switch to a fixed value on exit: a nested use destroys the outer setting
    starts = []
    for c in super_calls:
        targets, how = idx.resolve_call(grader_fi, c)
        starts += [t for t in targets if hasattr(t, 'node')]
    reach = reachable_functions(idx, starts)
    for f, c in others:
        top = f
        while top.qualname not in reach and top.outer is not None:
            top = top.outer
        if f.qualname in reach or top.qualname in reach:
            r.violation(construct, '%s enters `%s` while MatrixGrader.check_response holds the switch at config[negative_powers] around the '
                        'whole check (it is reachable from the guarded evaluation). The manager is not re-entrant: on exit it resets the '
                        'class switch to a fixed value instead of restoring the previous one, so after this nested use negative matrix '
                        'powers are enabled again for the rest of the check and `A^-1` is evaluated although the grader has '
                        'negative_powers=False' % (f.qualname, short(c)), lib.loc(f, c),
                        expected='a single caller (MatrixGrader.check_response), or a manager that saves and restores the previous value',
                        found=short(c))
        else:
            r.undecided(construct, '%s also enters the non-re-entrant manager; whether it can run inside MatrixGrader.check_response could '
                        'not be established from the resolved call graph' % f.qualname, lib.loc(f, c))


# ----------------------------------------------------------------------------- D5 array-valued producers
PRODUCERS = ['mitxgraders.sampling.RandomFunction.gen_sample.<locals>.random_function',
             'mitxgraders.matrixsampling.ArraySamplingSet.gen_sample',
             'mitxgraders.helpers.calc.mathfuncs.cross',
             'mitxgraders.helpers.calc.math_array.identity',
             'mitxgraders.helpers.calc.math_array.random_math_array']
NP_ARRAY_MAKERS = {'tile', 'zeros', 'ones', 'rand', 'randn', 'random_sample', 'vstack', 'hstack', 'identity', 'eye', 'linspace',
                   'arange', 'outer', 'kron', 'full', 'empty', 'diag', 'stack', 'concatenate', 'meshgrid'}
NUMBER_MAKERS = {'float', 'int', 'complex', 'len', 'abs', 'item', 'norm', 'det', 'trace', 'round'}


class ArrayKinds(object):
    """Flow-insensitive kind of an expression inside a producer: 'MARR' (MathArray), 'NUM' (number / element), 'NDARR' (plain
    numpy array or the result of numpy arithmetic on plain arrays), 'UNK'."""
    def __init__(self, idx, fi):
        self.idx, self.fi = idx, fi
        self.assign = {}
        self.subscripted = set()
        scopes = [fi.node]
        cur = fi
        while cur.outer is not None:
            cur = cur.outer
            scopes.append(cur.node)
        self.scopes = scopes
        for fn in scopes:
            for n in walk_own(fn):
                if isinstance(n, ast.Assign):
                    for t in n.targets:
                        if isinstance(t, ast.Name):
                            self.assign.setdefault(t.id, []).append(n.value)
                elif isinstance(n, ast.AugAssign) and isinstance(n.target, ast.Name):
                    self.assign.setdefault(n.target.id, []).append(ast.BinOp(left=ast.Name(id=n.target.id, ctx=ast.Load()), op=n.op, right=n.value))
                elif isinstance(n, ast.Subscript) and isinstance(n.value, ast.Name) and isinstance(n.ctx, ast.Load) \
                        and isinstance(n.slice, ast.Constant) and isinstance(n.slice.value, int):
                    self.subscripted.add(n.value.id)
        self.busy = set()

    def is_matharray_ctor(self, call):
        try:
            targets, how = self.idx.resolve_call(self.fi, call)
        except Exception:
            return False
        for t in targets:
            if isinstance(t, tuple) and t[0] == 'class' and t[1].qualname == AQ:
                return True
            if getattr(t, 'qualname', None) in PRODUCERS:
                return True
        return False

    def kind(self, e):
        if isinstance(e, ast.Constant):
            return 'NUM' if isinstance(e.value, (int, float, complex)) else 'UNK'
        if isinstance(e, ast.Name):
            if e.id in self.busy:
                return None
            vals = self.assign.get(e.id)
            if not vals:
                return 'UNK'
            self.busy.add(e.id)
            try:
                ks = {self.kind(v) for v in vals} - {None}
            finally:
                self.busy.discard(e.id)
            return ks.pop() if len(ks) == 1 else ('UNK' if ks else 'UNK')
        if isinstance(e, ast.Call):
            if self.is_matharray_ctor(e):
                return 'MARR'
            name = nf.callee_name(e)
            d = self.idx.dotted_of(self.fi.module, e.func) if isinstance(e.func, (ast.Attribute, ast.Name)) else None
            if name in NUMBER_MAKERS:
                return 'NUM'
            if d is not None and d.startswith('numpy.'):
                ks = [self.kind(a) for a in e.args]
                if 'MARR' in ks:
                    return 'UNK'          # numpy functions keep the subclass of their argument or not, depending on the function
                if name in NP_ARRAY_MAKERS or name == 'array':
                    return 'NDARR'
                if 'NDARR' in ks:
                    return 'NDARR'        # elementwise functions / reductions of a plain array
                return 'UNK'
            return 'UNK'
        if isinstance(e, ast.BinOp):
            l, r_ = self.kind(e.left), self.kind(e.right)
            if 'MARR' in (l, r_):
                return 'MARR'
            if l is None or r_ is None:
                return None           # x = x op c: the kind is that of x's other bindings
            if 'NDARR' in (l, r_):
                return 'NDARR'
            if l == r_ == 'NUM':
                return 'NUM'
            return 'UNK'
        if isinstance(e, ast.UnaryOp):
            return self.kind(e.operand)
        if isinstance(e, ast.Subscript):
            base = self.kind(e.value)
            if base in ('NDARR', 'MARR') and isinstance(e.slice, ast.Constant) and isinstance(e.slice.value, int):
                return 'ELEM'
            return 'UNK'
        if isinstance(e, ast.Attribute) and e.attr == 'T':
            return self.kind(e.value)
        return 'UNK'

    def has_axes(self, e):
        """Evidence that a plain-array expression has at least one axis (so it is not a scalar)."""
        if isinstance(e, ast.Name):
            if e.id in self.subscripted:
                return True
            return any(self.has_axes(v) for v in self.assign.get(e.id, []) if not (isinstance(v, ast.BinOp) and e.id in lib.names_in(v)))
        if isinstance(e, ast.Call) and nf.callee_name(e) in NP_ARRAY_MAKERS:
            return True
        if isinstance(e, ast.BinOp):
            return self.has_axes(e.left) or self.has_axes(e.right)
        return False


def d5_producers(ctx, idx):
    r = ctx.rule('D5.PRODUCERS', 'array values the library itself hands to the evaluator (samplers, function tables) are MathArrays', floor=7)
    with r:
        for q in PRODUCERS:
            fi = idx.func(q)
            kinds = ArrayKinds(idx, fi)
            rets = lib.returns_of(fi.node)
            if not rets:
                raise AnalysisError('%s: no return' % q)
            label = q.replace('mitxgraders.', '').replace('.<locals>', '')
            for ret in rets:
                cases = _value_cases(ret.value)
                for guard, v in cases:
                    k = kinds.kind(v)
                    construct = '%s: return%s' % (label, ' [%s]' % short(guard, 40) if guard is not None else '')
                    where = lib.loc(fi, ret)
                    if k == 'MARR':
                        r.ok(construct, 'MathArray', where)
                    elif k in ('NUM', 'ELEM'):
                        r.ok(construct, 'a number / array element (made builtin by eval_node)', where, nontrivial=False)
                    elif k == 'NDARR' and kinds.has_axes(v):
                        r.violation(construct, '`%s` is a plain numpy array (built by numpy calls, never wrapped in MathArray) and is returned '
                                    'as the value of an array-valued %s: in the evaluator every operator on it is numpy\'s broadcasting one '
                                    '(array + 1, array / array elementwise, shapes broadcast silently) instead of MathArray\'s strict rules'
                                    % (short(v, 50), 'function' if 'Function' in q or 'cross' in q else 'sample'), where,
                                    expected='MathArray(%s)' % short(v, 40), found=short(ret, 80))
                    else:
                        r.undecided(construct, 'cannot tell whether `%s` is a MathArray, a number or a plain numpy array' % short(v, 60), where)
        # the constant tables of array-valued variables
        mf = idx.module('mitxgraders.helpers.calc.mathfuncs')
        n_tab = 0
        for name in ('pauli', 'cartesian_xyz', 'cartesian_ijk'):
            vals = mf.assigns.get(name, [])
            if len(vals) != 1 or not isinstance(vals[0], ast.Dict):
                continue
            for k, v in zip(vals[0].keys, vals[0].values):
                n_tab += 1
                ok = isinstance(v, ast.Call) and nf.callee_name(v) == 'MathArray'
                if not ok:
                    plain = isinstance(v, ast.Call) and (idx.dotted_of(mf, v.func) or '').startswith('numpy.')
                    if plain or isinstance(v, (ast.List, ast.Tuple)):
                        r.violation('mathfuncs.%s[%s]' % (name, short(k)), 'the array constant is `%s`, not a MathArray: its operators are '
                                    'numpy\'s / list concatenation' % short(v, 60), lib.mloc(mf, v), expected='MathArray([...])')
                    else:
                        r.undecided('mathfuncs.%s[%s]' % (name, short(k)), 'value `%s` not recognised' % short(v, 60), lib.mloc(mf, v))
        if n_tab:
            r.ok('mathfuncs array constants', '%d table entries are MathArray(...) literals' % n_tab, mf.relpath)


def _value_cases(expr):
    if isinstance(expr, ast.IfExp):
        out = []
        for g, sub in ((expr.test, expr.body), (ast.UnaryOp(op=ast.Not(), operand=expr.test), expr.orelse)):
            out += [(g if g0 is None else g0, v) for g0, v in _value_cases(sub)]
        return out
    return [(None, expr)]


# ----------------------------------------------------------------------------- D4
def d4_cast(ctx, idx, flag_attr):
    r = ctx.rule('D4.CAST', 'results of evaluation actions and intermediate products pass through cast_np_numeric_as_builtin', floor=10)
    with r:
        cast = idx.func(CAST)
        # (a) the cast itself, by interpretation, in every mode its callers (eval_node, eval_product, helpers split off them) use
        hook = make_hook(flag_attr, True)
        modes = {}
        idx.func(ME + '.eval_node'), idx.func(ME + '.eval_product')      # anchors
        for caller in idx.package_funcs():
            q = caller.qualname
            if caller is cast:
                continue
            for c in walk_own(caller.node):
                if isinstance(c, ast.Call) and _resolves_to(idx, caller, c, cast):
                    extra = []
                    for i, a_ in enumerate(c.args[1:], 1):
                        if i >= len(cast.params):
                            raise AnalysisError('%s: too many arguments in `%s`' % (q, short(c)))
                        extra.append((cast.params[i], a_))
                    extra += [(k.arg, k.value) for k in c.keywords]
                    kw = {}
                    for name, node in extra:
                        if name is None or not isinstance(node, ast.Constant):
                            raise AnalysisError('%s: mode argument `%s` of the cast is not a constant' % (q, short(node)))
                        kw[name] = node.value
                    key = tuple(sorted(kw.items()))
                    modes.setdefault(key, (kw, q.split('.')[-1], c, caller))
        if not modes:
            raise AnalysisError('no call of cast_np_numeric_as_builtin in the package')
        samples = [('numpy float scalar', S.N(7.0, True)), ('numpy integer scalar', S.N(3, True)), ('numpy complex scalar', S.N(1 + 2j, True))]
        for key, (kw, who, c, caller) in sorted(modes.items(), key=lambda kv: repr(kv[0])):
            mode = ', '.join('%s=%r' % kv for kv in sorted(kw.items())) or 'default mode'
            for label, v in samples:
                out = S.run_function(idx, AQ, cast.qualname, [v], dict(kw), class_attr=hook)
                ok = out.kind == 'VALUE' and isinstance(out.value, S.N) and not out.value.np and out.value.v == v.v
                r.check(ok, 'cast_np_numeric_as_builtin [%s, %s]' % (label, mode), 'becomes a builtin number',
                        'called as in %s (`%s`), a %s is %s: it stays a numpy scalar, and a numpy scalar on the left of an operator '
                        'bypasses MathArray\'s reflected methods (np.float64 + vector broadcasts silently instead of raising)'
                        % (who, short(c), label, out.describe() if out.kind == 'RAISE' else 'returned as %s' % S.describe(out.value)),
                        where_of(idx, out, cast.loc), expected='obj.item()')
            arr = S.Arr(('n',), name='A')
            out = S.run_function(idx, AQ, cast.qualname, [arr], dict(kw), class_attr=hook)
            r.check(out.kind == 'VALUE' and out.value is arr, 'cast_np_numeric_as_builtin [array, %s]' % mode, 'arrays pass unchanged',
                    'an array is not returned unchanged (%s)' % out.describe(), cast.loc)
        # (b) eval_node: every return that hands out an action's result is cast
        fi = idx.func(ME + '.eval_node')
        if len(fi.params) < 2:
            raise AnalysisError('eval_node: unexpected signature')
        actions_p = fi.params[1]
        env = lib.local_env(fi.node)
        action_calls = []
        for c in walk_own(fi.node):
            if isinstance(c, ast.Call):
                f = c.func
                if isinstance(f, ast.Name) and f.id in env:
                    f = env[f.id]
                if isinstance(f, ast.Subscript) and isinstance(f.value, ast.Name) and f.value.id == actions_p:
                    action_calls.append(c)
        if not action_calls:
            raise AnalysisError('eval_node: no call of an action found')
        cfg = cfg_of(fi.node)
        n_ret = 0
        for k, acall in enumerate(action_calls):
            ast_stmt = lib.enclosing_stmt(acall)
            if not (isinstance(ast_stmt, ast.Assign) and len(ast_stmt.targets) == 1 and isinstance(ast_stmt.targets[0], ast.Name)
                    and ast_stmt.value is acall):
                # handed straight to a helper or returned directly
                if isinstance(ast_stmt, ast.Return):
                    holder_ok = _is_cast_expr(idx, fi, ast_stmt.value, cast, set(), 0, raw_call=acall)
                    n_ret += 1
                    _report_cast(r, fi, ast_stmt, ast_stmt.value, holder_ok, acall, len(action_calls))
                    continue
                raise AnalysisError('eval_node: the action result `%s` is not bound to a local' % short(acall))
            seed = ast_stmt.targets[0].id
            start = cfg.nodes_of(ast_stmt)
            # names derived from THIS call: only through assignments the call's statement reaches
            derived = {seed}
            changed = True
            while changed:
                changed = False
                for n in walk_own(fi.node):
                    if isinstance(n, ast.Assign) and n is not ast_stmt and lib.names_in(n.value) & derived \
                            and cfg.nodes_of(n) and cfg.reaches(start, cfg.nodes_of(n)):
                        for t in n.targets:
                            for x in ast.walk(t):
                                if isinstance(x, ast.Name) and x.id not in derived:
                                    derived.add(x.id)
                                    changed = True
            for ret in lib.returns_of(fi.node):
                rn = cfg.nodes_of(ret)
                if not rn or not cfg.reaches(start, rn):
                    continue
                v = ret.value
                if v is None or not (lib.names_in(v) & derived):
                    continue
                n_ret += 1
                ok = _is_cast_expr(idx, fi, v, cast, derived, 0, at=ret, origin=ast_stmt)
                _report_cast(r, fi, ret, v, ok, acall, len(action_calls))
        if n_ret == 0:
            absent(r, idx, 'MathExpression.eval_node: return of the action result', 'no return hands out the action result', fi.loc)
        # (c) eval_product: every arithmetic update of the accumulator is followed by the cast before the next iteration / return
        try:
            _d4_product_loop(r, idx, cast)
        except AnalysisError as e:
            if ctx.extra.get('_c14_leftcast_all_chains'):
                # the loop keeps its state elsewhere (an accumulator object, a table of steps): its statement structure is not
                # read here, but the same obligation was decided semantically over all chains by D4.LEFTCAST
                r.ok('MathExpression.eval_product: cast after every step', 'loop shape not read structurally (%s); decided by '
                     'interpretation over all chains (D4.LEFTCAST)' % e, idx.func(ME + '.eval_product').loc, nontrivial=False)
            else:
                raise


def _d4_product_loop(r, idx, cast):
    if True:
        fp = idx.func(ME + '.eval_product')
        pcfg = cfg_of(fp.node)
        loops = [l for l in lib.loops_of(fp.node)]
        if len(loops) != 1:
            raise AnalysisError('eval_product: expected one loop')
        loop = loops[0]
        rets = lib.returns_of(fp.node)
        acc = None
        for ret in rets:
            if isinstance(ret.value, ast.Name):
                acc = ret.value.id
        if acc is None:
            raise AnalysisError('eval_product: the accumulator is not returned by name')
        updates, casts, cast_updates = [], [], []
        for n in walk_own(loop):
            st = None
            if isinstance(n, ast.Assign) and len(n.targets) == 1 and isinstance(n.targets[0], ast.Name) and n.targets[0].id == acc:
                st, val = n, n.value
            elif isinstance(n, ast.AugAssign) and isinstance(n.target, ast.Name) and n.target.id == acc:
                st, val = n, ast.BinOp(left=ast.Name(id=acc, ctx=ast.Load()), op=n.op, right=n.value)
            if st is None:
                continue
            ival = lib.inline_locals(val, fp.node)
            if isinstance(val, ast.Call) and _resolves_to(idx, fp, val, cast) and val.args:
                if isinstance(val.args[0], ast.Name) and val.args[0].id == acc:
                    casts.append(st)            # acc = cast(acc)
                elif lib.names_in(val.args[0]) & {acc}:
                    cast_updates.append(st)     # acc = cast(<new value computed from acc>): update and cast in one statement
                else:
                    updates.append((st, 'accumulator update `%s`' % short(val, 40)))
            elif isinstance(ival, ast.BinOp) and isinstance(ival.op, (ast.Mult, ast.Div)):
                updates.append((st, 'accumulator %s factor' % ('*' if isinstance(ival.op, ast.Mult) else '/')))
            elif lib.names_in(ival) & {acc}:
                updates.append((st, 'accumulator update'))
        if not updates and not cast_updates:
            raise AnalysisError('eval_product: no update of the accumulator found in the loop')
        for st in cast_updates:
            r.ok('MathExpression.eval_product: accumulator update', 'the new value is cast in the statement that stores it', lib.loc(fp, st))
        cast_nodes = [x for s in casts for x in pcfg.nodes_of(s)]
        heads = pcfg.nodes_of(loop)
        for u, role in updates:
            un = pcfg.nodes_of(u)
            ok = bool(cast_nodes) and pcfg.must_pass(un, cast_nodes, exits=heads + [pcfg.exit_return])
            r.check(ok, 'MathExpression.eval_product: %s' % role, 'followed by the cast on every path to the next step',
                    'after `%s` a path reaches the next factor (or the return) without cast_np_numeric_as_builtin: a vector*vector '
                    'product leaves a numpy scalar in the accumulator, which then bypasses MathArray as a left operand' % short(u),
                    lib.loc(fp, u), expected='%s = cast_np_numeric_as_builtin(%s)' % (acc, acc))


def _report_cast(r, fi, ret, v, ok, acall, n_calls):
    where_if = ''
    for a_ in ancestors(acall):
        if isinstance(a_, ast.If) and any(acall is x for st in a_.body for x in ast.walk(st)):
            where_if = ' (the exit taken when `%s`)' % short(a_.test, 60)
            break
        if isinstance(a_, (ast.FunctionDef, ast.Lambda)):
            break
    construct = 'MathExpression.eval_node: return of the action result' + (' `%s`' % short(acall, 40) if n_calls > 1 else '')
    left = list(getattr(r.ctx.index, 'unreviewed', None) or [])
    if ok is False and left:
        # the returned value and every binding of it are free of calls of the un-inlined helpers: the data flow from the action
        # call to this return was read completely, the finding does not depend on them
        exprs = [v] + [x for nm in lib.names_in(v) for x in lib.assigned_value(fi.node, nm)]
        called = {nf.callee_name(c) for e in exprs for c in ast.walk(e) if isinstance(c, ast.Call)}
        if not any(q.rsplit('.', 1)[-1] in called for q in left):
            construct += ' [data flow read completely: no call of %s between the action and this return]' % ', '.join(left)
    if ok is None:
        r.undecided(construct, 'cannot tell whether `%s` passes the action result through cast_np_numeric_as_builtin' % short(v), lib.loc(fi, ret))
        return
    r.check(ok, construct, 'cast_np_numeric_as_builtin(result, ...)',
            'the value computed by the evaluation action `%s`%s is returned as `%s` without cast_np_numeric_as_builtin: every exit of '
            'eval_node that hands out an action\'s result must pass the cast, otherwise numpy scalars (numpy-typed variables, results of '
            'np.dot, norm, det, trace) reach the next operator as left operands and broadcast silently instead of raising'
            % (short(acall, 50), where_if, short(v)), lib.loc(fi, ret),
            expected='return cast_np_numeric_as_builtin(result, map_across_lists=True)', found=short(ret))


def _derived_closure(fn_node, seeds):
    derived = set(seeds)
    changed = True
    while changed:
        changed = False
        for n in walk_own(fn_node):
            if isinstance(n, ast.Assign) and lib.names_in(n.value) & derived:
                for t in n.targets:
                    for x in ast.walk(t):
                        if isinstance(x, ast.Name) and x.id not in derived:
                            derived.add(x.id)
                            changed = True
    return derived


def _is_cast_expr(idx, fi, v, cast, derived, depth=0, at=None, origin=None, raw_call=None):
    """True: v is cast(<derived name>, ...), a local whose every binding is such a call, or a call of a package helper all of whose
    returns that hand out the derived argument are such casts.  False: a recognised hand-out without the cast.  None: unknown."""
    if depth > 4:
        return None
    if raw_call is not None:
        # the action call is written inline: it must sit (possibly through helpers) inside the cast call
        if isinstance(v, ast.Call) and _resolves_to(idx, fi, v, cast):
            return bool(v.args) and any(x is raw_call for x in ast.walk(v.args[0]))
        if v is raw_call:
            return False
        return None
    if isinstance(v, ast.Call):
        if _resolves_to(idx, fi, v, cast):
            return bool(v.args and isinstance(v.args[0], ast.Name) and v.args[0].id in derived)
        try:
            targets, how = idx.resolve_call(fi, v)
        except Exception:
            return None
        fs = [t for t in targets if hasattr(t, 'node') and hasattr(t, 'qualname')]
        if len(fs) != 1 or not fs[0].module.name.startswith('mitxgraders'):
            return None
        callee = fs[0]
        a = callee.node.args
        if a.vararg or a.kwarg or a.kwonlyargs:
            return None
        names = [x.arg for x in a.args]
        if callee.cls is not None and not callee.is_static and isinstance(v.func, ast.Attribute):
            names = names[1:]
        seeds = set()
        for nm, arg in list(zip(names, v.args)) + [(k.arg, k.value) for k in v.keywords if k.arg]:
            if lib.names_in(arg) & derived:
                if not isinstance(arg, ast.Name):
                    return None       # the action result is transformed before the helper sees it
                seeds.add(nm)
        if not seeds:
            return None
        inner = _derived_closure(callee.node, seeds)
        verdicts = []
        for ret in lib.returns_of(callee.node):
            if ret.value is None or not (lib.names_in(ret.value) & inner):
                continue
            verdicts.append(_is_cast_expr(idx, callee, ret.value, cast, inner, depth + 1))
        if not verdicts:
            return None
        if any(x is False for x in verdicts):
            return False
        return True if all(x is True for x in verdicts) else None
    if isinstance(v, ast.Name):
        vals = lib.assigned_value(fi.node, v.id)
        if at is not None and depth == 0:
            # only the bindings that can reach this return
            cfg = cfg_of(fi.node)
            rn = cfg.nodes_of(at)
            keep = []
            for n in walk_own(fi.node):
                if isinstance(n, ast.Assign) and any(isinstance(t, ast.Name) and t.id == v.id for t in n.targets) \
                        and cfg.nodes_of(n) and cfg.reaches(cfg.nodes_of(n), rn):
                    if origin is None or n is origin or cfg.reaches(cfg.nodes_of(origin), cfg.nodes_of(n)):
                        keep.append(n.value)
            vals = keep
        if not vals:
            return False if v.id in derived else None      # a parameter carrying the action result, handed out bare
        if v.id in derived and all(not (lib.names_in(x) & (derived - {v.id})) and not _resolves_to_cast(idx, fi, x, cast) for x in vals):
            return False        # the variable that holds the raw action result itself
        verdicts = [_is_cast_expr(idx, fi, x, cast, derived, depth + 1) for x in vals]
        if any(x is False for x in verdicts):
            return False
        return True if all(x is True for x in verdicts) else None
    if isinstance(v, ast.IfExp):
        verdicts = [_is_cast_expr(idx, fi, x, cast, derived, depth + 1) for x in (v.body, v.orelse) if lib.names_in(x) & derived]
        if any(x is False for x in verdicts):
            return False
        return True if verdicts and all(x is True for x in verdicts) else None
    return None


def _resolves_to_cast(idx, fi, x, cast):
    return isinstance(x, ast.Call) and _resolves_to(idx, fi, x, cast)


def _resolves_to(idx, fi, call, target):
    targets, how = idx.resolve_call(fi, call)
    return any(t is target for t in targets)


# ------------------------------------------------------------------------ self-test
_CM_OLD = '    @classmethod\n    @contextmanager\n    def enable_negative_powers(cls, value):\n        """\n        A context-manager manager that can be used to temporarily disable\n        negative matrix powers.\n\n        Usage\n        =====\n\n        By default, negative integer matrix powers are interpreted as inverses.\n        Use MathArray.enable_negative_powers(False) to temporarily throw errors\n        instead:\n        >>> A = MathArray([[2, 1], [-1, 3]])\n        >>> with MathArray.enable_negative_powers(False):\n        ...     try:\n        ...         A**-1\n        ...     except MathArrayError as err:\n        ...         print(err)\n        Negative matrix powers have been disabled.\n\n        It\'s only temporary!\n        >>> approx_equal_as_arrays(\n        ...     A * A**-1,\n        ...     MathArray([[1, 0], [0, 1]])\n        ... )\n        True\n        """\n        # setup\n        cls._negative_powers = value\n        try:\n            # try with block\n            yield\n        finally:\n            # teardown\n            cls._negative_powers = cls._default_negative_powers\n'
_CM_HEAD = '    @classmethod\n    def enable_negative_powers(cls, value):\n        """\n        A context-manager manager that can be used to temporarily disable\n        negative matrix powers.\n\n        Usage\n        =====\n\n        By default, negative integer matrix powers are interpreted as inverses.\n        Use MathArray.enable_negative_powers(False) to temporarily throw errors\n        instead:\n        >>> A = MathArray([[2, 1], [-1, 3]])\n        >>> with MathArray.enable_negative_powers(False):\n        ...     try:\n        ...         A**-1\n        ...     except MathArrayError as err:\n        ...         print(err)\n        Negative matrix powers have been disabled.\n\n        It\'s only temporary!\n        >>> approx_equal_as_arrays(\n        ...     A * A**-1,\n        ...     MathArray([[1, 0], [0, 1]])\n        ... )\n        True\n        """\n'
_CM_CLASS = (_CM_HEAD + "        return MathArray._Setting(cls, value)\n\n    class _Setting(object):\n        def __init__(self, array_class, value):\n"
             "            self.array_class = array_class\n            self.value = value\n\n        def __enter__(self):\n            %s\n\n"
             "        def __exit__(self, exc_type, exc_value, traceback):\n            %s\n            return False\n")

MUTANTS = [
    # ---- D1: operator table
    Mutant('add-shape-loosened-to-ndim', MA, "            if self.shape == other.shape:\n                return super_ADD(other)",
           "            if self.ndim == other.ndim:\n                return super_ADD(other)", 'D1'),
    Mutant('mul-tensor-refusal-removed', MA, "            elif self.ndim > 2 or other.ndim > 2:", "            elif False:", 'D1'),
    Mutant('add-number-test-widened', MA, "        if is_number_zero(other):\n            return super_ADD(other)",
           "        if isinstance(other, Number):\n            return super_ADD(other)", 'D1'),
    Mutant('mul-number-test-widened-to-ndarray', MA, "        super_MUL = super(MathArray, self).__mul__\n        if isinstance(other, Number):",
           "        super_MUL = super(MathArray, self).__mul__\n        if isinstance(other, (Number, np.ndarray)):", 'D1'),
    Mutant('division-by-array-allowed', MA, "            else:\n                raise ShapeError('Cannot divide a {self.shape_name} by a {other.shape_name}'\n                                     .format(self=self, other=other))",
           "            else:\n                return super_DIV(other)", 'D1'),
    Mutant('rtruediv-guard-loosened', MA, "        if self.ndim > 0:\n            raise ShapeError(\"Cannot divide by a {self.shape_name}\".format(self=self))",
           "        if self.ndim > 2:\n            raise ShapeError(\"Cannot divide by a {self.shape_name}\".format(self=self))", 'D1'),
    Mutant('pow-integer-test-dropped', MA, "        if not integer_like:\n            raise MathArrayError(\"Cannot raise a matrix to non-integer powers.\")\n        elif exponent < 0",
           "        if False:\n            raise MathArrayError(\"Cannot raise a matrix to non-integer powers.\")\n        elif exponent < 0", 'D1'),
    Mutant('pow-integer-valued-floats-refused', MA, "        integer_like = (isinstance(exponent, int) or\n                        isinstance(exponent, float) and exponent.is_integer())",
           "        integer_like = isinstance(exponent, int)", 'D1'),
    Mutant('pow-switch-reads-default-flag', MA, "        elif exponent < 0 and not MathArray._negative_powers:",
           "        elif exponent < 0 and not MathArray._default_negative_powers:", 'D1'),
    Mutant('pow-switch-ignored', MA, "        elif exponent < 0 and not MathArray._negative_powers:", "        elif exponent < 0 and not True:", 'D1'),
    Mutant('pow-zero-counts-as-negative', MA, "        elif exponent < 0 and not MathArray._negative_powers:",
           "        elif exponent <= 0 and not MathArray._negative_powers:", 'D1'),
    Mutant('pow-int-cast-dropped', MA, "            exponent = int(exponent)\n            try:", "            try:", 'D1'),
    Mutant('add-shapeerror-to-valueerror', MA, "            raise ShapeError(\"Cannot add/subtract scalars to a {self.shape_name}.\"",
           "            raise ValueError(\"Cannot add/subtract scalars to a {self.shape_name}.\"", 'D1'),
    Mutant('mul-1x1-collapse-removed', MA, "                if isinstance(result, MathArray) and is_numberlike_array(result):", "                if False:", 'D1'),
    Mutant('pow-singular-reraised', MA, "                    raise MathArrayError('Cannot raise singular matrix to negative powers.')", "                    raise", 'D1'),
    Mutant('sub-sign-dropped', MA, "        return self.__add__(-1*other)", "        return self.__add__(other)", 'D1'),
    Mutant('rsub-operands-swapped', MA, "        return (-self).__add__(other) # pylint: disable=invalid-unary-operand-type", "        return self.__add__(-1*other)", 'D1'),
    Mutant('isub-delegates-to-add', MA, "    def __isub__(self, other):\n        return self.__sub__(other)", "    def __isub__(self, other):\n        return self.__add__(other)", 'D1'),
    Mutant('rpow-falls-through-to-numpy', MA, "            raise ShapeError(\"Cannot raise a scalar to power of a {self.shape_name}.\"\n                                 .format(self=self))",
           "            return super(MathArray, self).__rpow__(other)", 'D1'),
    Mutant('pow-nonsquare-check-dropped', MA, "        elif not is_square(self):", "        elif False:", 'D1'),
    Mutant('is-square-loosened', MA, "    return array.ndim == 2 and array.shape[0] == array.shape[1]", "    return array.ndim == 2", 'D1'),
    Mutant('mul-handler-narrowed', MA, "            except ValueError:\n                # vector-specific message mentions dot product", "            except TypeError:\n                # vector-specific message mentions dot product", 'D1'),
    Mutant('itruediv-removed', MA, "    def __itruediv__(self, other):\n        return self.__truediv__(other)\n", "", 'D1'),
    Mutant('radd-bypasses-add', MA, "    def __radd__(self, other):\n        return self.__add__(other)", "    def __radd__(self, other):\n        return super(MathArray, self).__radd__(other)", 'D1'),
    Mutant('is-number-zero-inverted', MA, "    return isinstance(value, Number) and value == 0", "    return isinstance(value, Number) and value != 0", 'D1'),
    Mutant('robust-pow-operands-swapped', RPOW, "    return base ** exponent", "    return exponent ** base", 'D1'),
    # ---- D2: eval_product / eval_array
    Mutant('triple-flag-never-set', EXPR, "                        double_vector_mult_has_occured = True", "                        double_vector_mult_has_occured = False", 'D2'),
    Mutant('triple-flag-set-without-vector-result', EXPR, "                    elif is_vector(result):\n                        double_vector_mult_has_occured = True",
           "                    else:\n                        double_vector_mult_has_occured = True", 'D2'),
    Mutant('triple-raise-removed', EXPR, "                        raise triple_vector_mult_error\n", "                        pass\n", 'D2'),
    Mutant('triple-test-on-accumulator', EXPR, "                if is_vector(value):\n                    if double_vector_mult_has_occured:",
           "                if is_vector(result):\n                    if double_vector_mult_has_occured:", 'D2'),
    Mutant('eval-array-plain-ndarray', EXPR, "            array = MathArray(parse_result)", "            array = np.array(parse_result)", 'D2'),
    Mutant('eval-array-dtype-test-removed', EXPR, "        if array.dtype == 'object':", "        if False:", 'D2'),
    Mutant('eval-array-valueerror-reraised', EXPR, "            # when using numpy version 1.6\n            raise UnableToParse(shape_message)", "            # when using numpy version 1.6\n            raise", 'D2'),
    # ---- D3: negative powers guard
    Mutant('negpow-with-removed', MG, "            with MathArray.enable_negative_powers(self.config['negative_powers']):", "            if True:", 'D3'),
    Mutant('negpow-constant-argument', MG, "MathArray.enable_negative_powers(self.config['negative_powers'])", "MathArray.enable_negative_powers(True)", 'D3'),
    Mutant('negpow-setup-installs-default', MA, "        cls._negative_powers = value\n        try:", "        cls._negative_powers = cls._default_negative_powers\n        try:", 'D3'),
    Mutant('negpow-wrong-config-key', MG, "MathArray.enable_negative_powers(self.config['negative_powers'])", "MathArray.enable_negative_powers(self.config['shape_errors'])", 'D3'),
    # ---- D4: cast discipline
    Mutant('eval-product-cast-dropped', EXPR, "            result = cast_np_numeric_as_builtin(result)\n\n        return result", "            pass\n\n        return result", 'D4'),
    Mutant('eval-node-cast-dropped', EXPR, "        return cast_np_numeric_as_builtin(result, map_across_lists=True)", "        return result", 'D4'),
    Mutant('cast-narrowed-to-floating', EXPR, "    if isinstance(obj, np.number):\n        return obj.item()", "    if isinstance(obj, np.floating):\n        return obj.item()", 'D4'),
    Mutant('seeded-C14a-cast-skipped-in-list-mode', EXPR, "    if isinstance(obj, np.number):\n        return obj.item()\n    if map_across_lists and isinstance(obj, list):\n        return [item.item() if isinstance(item, np.number) else item\n                for item in obj]\n    return obj",
           "    if map_across_lists:\n        if isinstance(obj, list):\n            return [cast_np_numeric_as_builtin(item) for item in obj]\n        return obj\n    if isinstance(obj, np.number):\n        return obj.item()\n    return obj", 'D4'),
    Mutant('seeded-C14b-integrality-by-tolerance', MA, "        integer_like = (isinstance(exponent, int) or\n                        isinstance(exponent, float) and exponent.is_integer())",
           "        integer_like = (isinstance(exponent, int) or isinstance(exponent, float)\n                        and abs(exponent - np.round(exponent)) < 1e-12)", 'D1'),
    Mutant('integrality-by-builtin-round', MA, "        integer_like = (isinstance(exponent, int) or\n                        isinstance(exponent, float) and exponent.is_integer())",
           "        integer_like = (isinstance(exponent, int) or isinstance(exponent, float)\n                        and abs(exponent - round(exponent)) <= 1e-9)", 'D1'),
    Mutant('seeded-C14d-inplace-stores-into-self', MA, "    def __iadd__(self, other):\n        return self.__add__(other)",
           "    def __iadd__(self, other):\n        self[...] = self.__add__(other)\n        return self", 'D1'),
    Mutant('inplace-division-slice-store', MA, "    def __itruediv__(self, other):\n        return self.__truediv__(other)",
           "    def __itruediv__(self, other):\n        self[:] = self.__truediv__(other)\n        return self", 'D1'),
    Mutant('inplace-sub-copyto', MA, "    def __isub__(self, other):\n        return self.__sub__(other)",
           "    def __isub__(self, other):\n        np.copyto(self, self.__sub__(other))\n        return self", 'D1'),
    Mutant('seeded-C14e-tensor-powers-through-relaxed-squareness', MA, "        elif not self.ndim == 2:\n            raise ShapeError(\"Cannot raise a {self.shape_name} to powers.\".format(\n                self=self))\n\n        elif not is_square(self):",
           "        elif is_vector(self):\n            raise ShapeError(\"Cannot raise a {self.shape_name} to powers.\".format(\n                self=self))\n\n        elif not (self.ndim >= 2 and self.shape[-2] == self.shape[-1]):", 'D1'),
    Mutant('seeded-C14f-division-by-unconverted-single-entry-array', MA, "                return super_DIV(other.item())", "                return super_DIV(other)", 'D1'),
    Mutant('mul-by-unconverted-single-entry-array', MA, "                return super_MUL(other.item())", "                return super_MUL(other)", 'D1'),
    Mutant('add-unconverted-single-entry-zero', MA, "            return super_ADD(other.item())", "            return super_ADD(other)", 'D1'),
    Mutant('seeded-C14h-random-function-returns-plain-ndarray', SAMP, "            return MathArray(fullsum) if output_dim > 1 else fullsum[0]",
           "            return fullsum[0] if output_dim == 1 else fullsum", 'D5'),
    Mutant('array-sampler-returns-plain-ndarray', 'mitxgraders/matrixsampling.py', "        array = self.generate_sample()\n        return MathArray(array)",
           "        array = np.ones(3) * 1.0\n        return array", 'D5'),
    Mutant('identity-returns-plain-ndarray', MA, "    return MathArray(np.identity(n))", "    return np.identity(n)", 'D5'),
    Mutant('seeded-C14g-nested-non-reentrant-negative-powers', SAMP, "            result, _ = evaluator(formula=self.config['formula'],\n                                  variables=sample_dict,\n                                  functions=functions,\n                                  suffixes=suffixes)\n",
           "            from mitxgraders.helpers.calc.math_array import MathArray\n            with MathArray.enable_negative_powers(True):\n                result, _ = evaluator(formula=self.config['formula'],\n                                      variables=sample_dict,\n                                      functions=functions,\n                                      suffixes=suffixes)\n", 'D3'),
    Mutant('class-manager-installs-default-on-entry', MA, _CM_OLD, _CM_CLASS % ("self.array_class._negative_powers = self.array_class._default_negative_powers", "self.array_class._negative_powers = self.array_class._default_negative_powers"), 'D3'),
    # wave 5: refactorings with one slip (the filed diff is the mutant, the corrected diff is the benign twin below)
    Mutant('seeded-C14i-merged-add-sub-keeps-plus-for-zero-array', MA, hunks('C14i', MA), None, 'D1'),
    Mutant('seeded-C14j-explicit-shape-check-returns-before-tensor-guard', MA, hunks('C14j', MA), None, 'D1'),
    Mutant('eval-node-screening-helper-returns-uncast', EXPR,
           "        # All actions convert the input to a number, array, or list.\n        # (Only self.actions['arguments'] returns a list.)\n        as_list = result if isinstance(result, list) else [result]\n\n        # Check if there were any infinities or nan\n        if not allow_inf and any(np.any(np.isinf(r)) for r in as_list):\n            raise CalcOverflowError(\"Numerical overflow occurred. Does your expression \"\n                                    \"generate very large numbers?\")\n        if any(np.any(np.isnan(r)) for r in as_list):\n            return float('nan')\n\n        return cast_np_numeric_as_builtin(result, map_across_lists=True)\n",
           "        return MathExpression._screen_result(result, allow_inf)\n\n    @staticmethod\n    def _screen_result(result, allow_inf):\n        entries = result if isinstance(result, list) else [result]\n        if not allow_inf:\n            for entry in entries:\n                if np.any(np.isinf(entry)):\n                    raise CalcOverflowError(\"Numerical overflow occurred.\")\n        for entry in entries:\n            if np.any(np.isnan(entry)):\n                return float('nan')\n        return result\n", 'D4'),
    Mutant('seeded-C14k-terminal-exit-of-eval-node-uncast', EXPR, hunks('C14k', EXPR), None, 'D4'),
    Mutant('eval-product-cast-only-after-division', EXPR, "            # Need to cast np numerics as builtins here (in addition to during\n            # eval_node) because the result is changing shape\n            result = cast_np_numeric_as_builtin(result)",
           "            if op == '/':\n                result = cast_np_numeric_as_builtin(result)", 'D4'),
]

BENIGN = [
    Benign('zero-argument-super', MA, "        super_ADD = super(MathArray, self).__add__", "        super_ADD = super().__add__"),
    Benign('radd-through-operator', MA, "    def __radd__(self, other):\n        return self.__add__(other)", "    def __radd__(self, other):\n        return self + other"),
    Benign('rtruediv-guard-rephrased', MA, "        if self.ndim > 0:\n            raise ShapeError(\"Cannot divide by a {self.shape_name}\".format(self=self))",
           "        if len(self.shape) != 0:\n            raise ShapeError(\"Cannot divide by a {self.shape_name}\".format(self=self))"),
    Benign('tensor-test-with-max', MA, "            elif self.ndim > 2 or other.ndim > 2:", "            elif max(self.ndim, other.ndim) > 2:"),
    Benign('pow-switch-conjuncts-reordered', MA, "        elif exponent < 0 and not MathArray._negative_powers:", "        elif not MathArray._negative_powers and exponent < 0:"),
    Benign('product-through-temporary', EXPR, "                result = result*value\n", "                product = result*value\n                result = product\n"),
    Benign('eval-node-cast-through-local', EXPR, "        return cast_np_numeric_as_builtin(result, map_across_lists=True)",
           "        out = cast_np_numeric_as_builtin(result, map_across_lists=True)\n        return out"),
    Benign('negpow-argument-through-local', MG, "            with MathArray.enable_negative_powers(self.config['negative_powers']):",
           "            allow = self.config['negative_powers']\n            with MathArray.enable_negative_powers(allow):"),
    Benign('pow-exponent-name-shortcut', MA, "            if isinstance(other, Number):\n                return robust_pow(self.item(), other)",
           "            if isinstance(other, Number):\n                return self.item() ** other"),
    Benign('integrality-by-modulo', MA, "        integer_like = (isinstance(exponent, int) or\n                        isinstance(exponent, float) and exponent.is_integer())",
           "        integer_like = (isinstance(exponent, int) or\n                        isinstance(exponent, float) and exponent % 1 == 0)"),
    Benign('cast-list-branch-first', EXPR, "    if isinstance(obj, np.number):\n        return obj.item()\n    if map_across_lists and isinstance(obj, list):\n        return [item.item() if isinstance(item, np.number) else item\n                for item in obj]\n    return obj",
           "    if map_across_lists and isinstance(obj, list):\n        return [item.item() if isinstance(item, np.number) else item\n                for item in obj]\n    if isinstance(obj, np.number):\n        return obj.item()\n    return obj"),
    Benign('is-square-on-last-two-axes-alone', MA, "    return array.ndim == 2 and array.shape[0] == array.shape[1]",
           "    return array.ndim >= 2 and array.shape[-2] == array.shape[-1]"),
    Benign('pow-guard-is-vector-alone', MA, "        elif not self.ndim == 2:", "        elif is_vector(self):"),
    Benign('division-by-item-through-local', MA, "                return super_DIV(other.item())", "                divisor = other.item()\n                return super_DIV(divisor)"),
    Benign('triple-error-built-at-raise-site-from-module-constant', EXPR,
           "                if is_vector(value):\n                    if double_vector_mult_has_occured:\n                        raise triple_vector_mult_error\n                    elif is_vector(result):\n                        double_vector_mult_has_occured = True\n",
           "                if is_vector(value) and double_vector_mult_has_occured:\n                    raise CalcError(' '.join(['Multiplying three or more vectors is ambiguous.', 'Please place parentheses.']))\n                if is_vector(value) and is_vector(result):\n                    double_vector_mult_has_occured = True\n"),
    Benign('random-function-wrap-before-branch', SAMP, "            return MathArray(fullsum) if output_dim > 1 else fullsum[0]",
           "            if output_dim > 1:\n                return MathArray(fullsum)\n            return fullsum[0]"),
    # NOTE: a save/restore (re-entrant) form of enable_negative_powers is accepted by D3.NEGPOW, but the imported clause
    # C14.REL.C11.D8.PAIR (sa/related.py, not mine) currently reports it; the twin is therefore not listed here.
    # NOTE: `switch = MathArray.enable_negative_powers(...)` followed by `with switch:` is accepted by D3.NEGPOW (refactoring C04j),
    # but the imported clause C14.REL.C11.D8.PAIR (sa/related.py, not mine) reports it; the twin is therefore not listed here.
    # NOTE: the class form of the manager (__enter__/__exit__) is exercised by the filed refactorings C01j/C02j/C04j/C11j/C14j/C16j
    # (module-level helper class, which a single text edit cannot express); a nested-class twin trips the imported C11 clause.
    Benign('C14i-corrected-merged-add-sub', MA, hunks('C14i', MA, fixes=[
        ("            if is_numberlike_zero_array(self):\n                return self.item() + other\n",
         "            if is_numberlike_zero_array(self):\n                return self.item() - other if subtract else self.item() + other\n")]), None),
    Benign('C14j-corrected-explicit-shape-check', MA, hunks('C14j', MA, fixes=[
        ("        if is_vector(other):\n            if inner_length == len(other):\n                return\n",
         "        if self.ndim > 2 or other.ndim > 2:\n            raise MathArrayError(\"Multiplication of tensor arrays is not currently supported.\")\n\n        if is_vector(other):\n            if inner_length == len(other):\n                return\n")]), None),
    Benign('eval-node-screening-and-cast-in-helper', EXPR,
           "        # All actions convert the input to a number, array, or list.\n        # (Only self.actions['arguments'] returns a list.)\n        as_list = result if isinstance(result, list) else [result]\n\n        # Check if there were any infinities or nan\n        if not allow_inf and any(np.any(np.isinf(r)) for r in as_list):\n            raise CalcOverflowError(\"Numerical overflow occurred. Does your expression \"\n                                    \"generate very large numbers?\")\n        if any(np.any(np.isnan(r)) for r in as_list):\n            return float('nan')\n\n        return cast_np_numeric_as_builtin(result, map_across_lists=True)\n",
           "        return MathExpression._screen_result(result, allow_inf)\n\n    @staticmethod\n    def _screen_result(result, allow_inf):\n        entries = result if isinstance(result, list) else [result]\n        if not allow_inf:\n            for entry in entries:\n                if np.any(np.isinf(entry)):\n                    raise CalcOverflowError(\"Numerical overflow occurred.\")\n        for entry in entries:\n            if np.any(np.isnan(entry)):\n                return float('nan')\n        return cast_np_numeric_as_builtin(result, map_across_lists=True)\n"),
    Benign('C14k-corrected-eval-node-split', EXPR, hunks('C14k', EXPR, fixes=[
        ("            return MathExpression.screen_result(action(list(node)), allow_inf)\n",
         "            return cast_np_numeric_as_builtin(MathExpression.screen_result(action(list(node)), allow_inf),\n                                              map_across_lists=True)\n")]), None),
    Benign('mul-collapse-without-isinstance', MA, "                if isinstance(result, MathArray) and is_numberlike_array(result):", "                if is_numberlike_array(result):"),
]
