"""Helpers for the C13 / C18 / C19 property modules: structural (normal-form) queries on top of sa.nf.

* statement/expression patterns with wildcards (`find_stmts`, `match_stmt`, `classify_any`);
* `Guards`: evaluation of *extracted* branch conditions over a complete finite domain of atoms
  (option flags, "is None" facts, truth of an opaque test, order type of an opaque count against
  the constants it is compared with).  Data never becomes concrete: an atom is recognised by its
  *shape* (an NF pattern) and the world only fixes its truth value / order type;
* order-insensitive matching of result-record dict literals;
* small CFG conveniences.
"""
import ast
import itertools

from ..index import AnalysisError, walk_own, unparse, short, parent
from ..cfg import cfg_of
from .. import nf, lib


class Unrecognised(AnalysisError):
    """A condition / term outside the recognised atoms (undecided)."""


# ------------------------------------------------------------------ patterns
def spat(src):
    """Statement pattern."""
    return nf.pat(src, mode='exec')[0]


def find_stmts(root, pattern, own=True):
    """[(stmt, binds)] for statements under root matching the statement pattern."""
    p = spat(pattern) if isinstance(pattern, str) else pattern
    out = []
    walker = walk_own(root) if own and isinstance(root, (ast.FunctionDef, ast.AsyncFunctionDef)) else ast.walk(root)
    for n in walker:
        if isinstance(n, ast.stmt):
            b = nf.Matcher().match(p, nf.canon(n))
            if b is not None:
                out.append((n, b))
    return out


def find_exprs(root, pattern, own=True):
    p = nf.pat(pattern) if isinstance(pattern, str) else pattern
    out = []
    walker = walk_own(root) if own and isinstance(root, (ast.FunctionDef, ast.AsyncFunctionDef)) else ast.walk(root)
    for n in walker:
        if isinstance(n, ast.expr):
            b = nf.Matcher().match(p, nf.canon(n))
            if b is not None:
                out.append((n, b))
    return out


def m(pattern, node, binds=None):
    """Match an expression (or statement) against a pattern; returns binds or None."""
    if isinstance(pattern, str):
        try:
            pattern = nf.pat(pattern)
        except SyntaxError:
            pattern = spat(pattern)
    return nf.Matcher().match(pattern, nf.canon(node) if isinstance(node, ast.AST) else node, dict(binds or {}))


def any_match(patterns, node, binds=None):
    for p in patterns:
        b = m(p, node, binds)
        if b is not None:
            return b
    return None


def is_name(node, name=None):
    return isinstance(node, ast.Name) and (name is None or node.id == name)


def names_loaded(node):
    return {n.id for n in ast.walk(node) if isinstance(n, ast.Name)}


def mentions(node, name):
    return any(isinstance(n, ast.Name) and n.id == name for n in ast.walk(node))


def assigned_names(stmt):
    return {n.id for n in ast.walk(stmt) if isinstance(n, ast.Name) and isinstance(n.ctx, (ast.Store, ast.Del))}


def dict_items(node):
    """{constant key: value node} of a dict literal, or None."""
    if not isinstance(node, ast.Dict):
        return None
    out = {}
    for k, v in zip(node.keys, node.values):
        if not (isinstance(k, ast.Constant)):
            return None
        out[k.value] = v
    return out


def record_is(node, reference):
    """Does the dict literal `node` equal {key: pattern source} (order-insensitive)?"""
    items = dict_items(node)
    if items is None or set(items) != set(reference):
        return False
    return all(m(reference[k], items[k]) is not None for k in reference)


def const_truth(expr):
    """Truth value of an expression whose truthiness is fixed by its shape, else None."""
    if isinstance(expr, ast.Constant):
        return bool(expr.value)
    # 'text {}'.format(...) / 'text %s' % x / f'text {x}': non-empty literal text makes the result non-empty
    if isinstance(expr, ast.Call) and isinstance(expr.func, ast.Attribute) and expr.func.attr == 'format' \
            and isinstance(expr.func.value, ast.Constant) and isinstance(expr.func.value.value, str):
        import re
        return True if re.sub(r'\{[^{}]*\}', '', expr.func.value.value).strip('{}') else None
    if isinstance(expr, ast.BinOp) and isinstance(expr.op, ast.Mod) and isinstance(expr.left, ast.Constant) \
            and isinstance(expr.left.value, str):
        import re
        return True if re.sub(r'%[sdrf]', '', expr.left.value) else None
    if isinstance(expr, ast.JoinedStr):
        return True if any(isinstance(v, ast.Constant) and v.value for v in expr.values) else None
    if isinstance(expr, ast.BinOp) and isinstance(expr.op, ast.Add):
        # string concatenation: a non-empty piece makes the whole non-empty
        def text_piece(x):
            return (isinstance(x, ast.Constant) and isinstance(x.value, str)) or isinstance(x, ast.JoinedStr) or (
                isinstance(x, ast.Call) and isinstance(x.func, ast.Attribute) and x.func.attr == 'format') or (
                isinstance(x, ast.BinOp) and isinstance(x.op, (ast.Mod, ast.Add)) and (text_piece(x.left) or text_piece(x.right)))
        for side in (expr.left, expr.right):
            if text_piece(side) and const_truth(side) is True:
                return True
    return None


# ------------------------------------------------------------------ guards over worlds
class Guards(object):
    """Compile canonical guard expressions into predicates over a `world` (dict of atom values).

    `atom(expr)` is supplied by the property: it returns a function world -> bool for a recognised
    atomic condition, or None.  `term(expr)` returns a function world -> int for a recognised count
    term (used in order comparisons), or None.
    """

    def __init__(self, atom, term=None):
        self.atom = atom
        self.term = term or (lambda e: None)
        self._cache = {}

    def compile(self, expr):
        key = id(expr)
        if key not in self._cache:
            self._cache[key] = (expr, self._compile(expr))
        return self._cache[key][1]

    def _compile(self, e):
        t = const_truth(e) if isinstance(e, ast.Constant) else None
        if t is not None:
            return (lambda w, t=t: t)
        if isinstance(e, ast.BoolOp):
            parts = [self._compile(v) for v in e.values]
            if isinstance(e.op, ast.And):
                return lambda w: all(p(w) for p in parts)
            return lambda w: any(p(w) for p in parts)
        if isinstance(e, ast.UnaryOp) and isinstance(e.op, ast.Not):
            inner = self._compile(e.operand)
            return lambda w: not inner(w)
        if isinstance(e, ast.Compare) and len(e.ops) == 1 and isinstance(e.left, ast.Constant) \
                and isinstance(e.comparators[0], ast.Constant):
            a_, b_, op = e.left.value, e.comparators[0].value, e.ops[0]
            fold = {ast.Is: lambda: a_ is b_ if (a_ is None or b_ is None or isinstance(a_, bool) or isinstance(b_, bool)) else a_ == b_,
                    ast.IsNot: lambda: not (a_ is b_ if (a_ is None or b_ is None or isinstance(a_, bool) or isinstance(b_, bool)) else a_ == b_),
                    ast.Eq: lambda: a_ == b_, ast.NotEq: lambda: a_ != b_}.get(type(op))
            if fold is not None:
                val = bool(fold())
                return lambda w, val=val: val
        a = self.atom(e)
        if a is not None:
            return a
        if isinstance(e, ast.Compare) and len(e.ops) == 1:
            lt, rt = self.term(e.left), self.term(e.comparators[0])
            if lt is not None and rt is not None:
                op = e.ops[0]
                table = {ast.Lt: lambda a, b: a < b, ast.LtE: lambda a, b: a <= b, ast.Gt: lambda a, b: a > b,
                         ast.GtE: lambda a, b: a >= b, ast.Eq: lambda a, b: a == b, ast.NotEq: lambda a, b: a != b}
                if type(op) in table:
                    f = table[type(op)]
                    return lambda w: f(lt(w), rt(w))
        t = const_truth(e)
        if t is not None:
            return (lambda w, t=t: t)
        raise Unrecognised('condition not recognised: `%s`' % short(e))


def select_paths(paths, guards, world):
    """Paths whose guards all hold in the world."""
    out = []
    for p in paths:
        ok = True
        for g in p.guards:
            if not guards.compile(g)(world):
                ok = False
                break
        if ok:
            out.append(p)
    return out


def worlds(domain):
    """All assignments of a {name: [values]} domain."""
    keys = list(domain)
    for vals in itertools.product(*[domain[k] for k in keys]):
        yield dict(zip(keys, vals))


# ------------------------------------------------------------------ CFG conveniences
def cfg_nodes(cfg, node):
    res = cfg.nodes_containing(node) if isinstance(node, ast.expr) else cfg.nodes_of(node)
    if not res:
        raise AnalysisError('no CFG node for `%s`' % short(node))
    return res


def dominates(fi, first, then):
    cfg = cfg_of(fi.node)
    a = [n for x in (first if isinstance(first, list) else [first]) for n in cfg_nodes(cfg, x)]
    b = [n for x in (then if isinstance(then, list) else [then]) for n in cfg_nodes(cfg, x)]
    return cfg.dominates(a, b)


def passes_between(fi, start, through, target):
    """Every path from (after) `start` to `target` passes one of `through` (AST nodes)."""
    cfg = cfg_of(fi.node)
    s = cfg_nodes(cfg, start)
    t = cfg_nodes(cfg, target)
    thr = [n for x in through for n in cfg_nodes(cfg, x)]
    reach = cfg.reach(s, blocked=thr, include_starts=False)
    return not any(n in reach for n in t)


def enclosing_loop(node):
    p = parent(node)
    while p is not None and not isinstance(p, (ast.For, ast.While, ast.FunctionDef, ast.Lambda)):
        p = parent(p)
    return p if isinstance(p, (ast.For, ast.While)) else None


def in_subtree(node, root):
    return any(n is node for n in ast.walk(root))


def raise_class(stmt):
    return nf.exc_class_name(stmt.exc) if isinstance(stmt, ast.Raise) and stmt.exc is not None else None


def body_raises(stmts, cls=None):
    """All paths through the statement list end in raise (of class cls if given); returns (bool, classes)."""
    paths = nf.decision_paths(stmts)
    classes = set()
    ok = True
    for p in paths:
        if p.leaf.kind != 'raise':
            ok = False
        else:
            classes.add(nf.exc_class_name(p.leaf.expr) if p.leaf.expr is not None else 're-raise')
    if cls is not None and classes - {cls}:
        ok = False
    return ok, classes


# ------------------------------------------------------------------ calls
def bind_call(call, params, skip_self=False):
    """{parameter name: argument expression} for a call, given the callee's positional parameter names."""
    ps = list(params[1:] if skip_self else params)
    bound = {}
    for i, a in enumerate(call.args):
        if isinstance(a, ast.Starred):
            raise AnalysisError('call with *args: %s' % short(call))
        if i >= len(ps):
            raise AnalysisError('too many positional arguments in %s' % short(call))
        bound[ps[i]] = a
    for k in call.keywords:
        if k.arg is None:
            raise AnalysisError('call with **kwargs: %s' % short(call))
        bound[k.arg] = k.value
    return bound


def copy_source(e):
    """The expression X if e is a shallow copy of X (`X.copy()`, `dict(X)`, `list(X)`, `X[:]`, `{**X}`), else None."""
    if isinstance(e, ast.Call) and isinstance(e.func, ast.Attribute) and e.func.attr == 'copy' and not e.args and not e.keywords:
        return e.func.value
    if isinstance(e, ast.Call) and isinstance(e.func, ast.Name) and e.func.id in ('dict', 'list', 'set', 'sorted', 'tuple') \
            and len(e.args) == 1 and not e.keywords:
        return e.args[0]
    if isinstance(e, ast.Subscript) and isinstance(e.slice, ast.Slice) and e.slice.lower is None and e.slice.upper is None \
            and e.slice.step is None:
        return e.value
    if isinstance(e, ast.Dict) and len(e.keys) == 1 and e.keys[0] is None:
        return e.values[0]
    return None


def handler_covers(h, accepted):
    return any(n in accepted for n in lib.handler_class_names(h))


# ------------------------------------------------------------------ absence policy / control dependence
def no_unreviewed(rule):
    """True when no un-inlined, unreviewed helper is left in the analysed tree (an absence may then be definite)."""
    return not getattr(rule.ctx.index, 'unreviewed', None)


def absent(rule, construct, detail, loc='', expected=None, understood=True):
    """Report a missing construct: a VIOLATION only if the surrounding code was fully understood and no unreviewed
    helper could host the moved construct; otherwise UNDECIDED."""
    if understood and no_unreviewed(rule):
        rule.violation(construct, detail, loc, expected=expected)
    else:
        rule.undecided(construct, 'not found (%s); the enclosing code is not fully classified or unreviewed helpers remain: %s'
                       % (detail[:120], ', '.join(getattr(rule.ctx.index, 'unreviewed', []) or ['-'])), loc)


def only_calls(nodes, allowed):
    """Every call under the given nodes has a callee name in `allowed` (so no unknown callee can host a moved check)."""
    for root in nodes:
        for n in ast.walk(root):
            if isinstance(n, ast.Call) and nf.callee_name(n) not in allowed:
                return False
    return True


def controlled_by(fi, test_stmt, positive, target_stmt):
    """`target_stmt` is reachable only through the edge of `test_stmt` on which its condition is `positive`."""
    cfg = cfg_of(fi.node)
    tn = [n for n in cfg.nodes_of(test_stmt) if n.kind == 'test']
    tg = cfg.nodes_of(target_stmt)
    if not tn or not tg:
        raise AnalysisError('no CFG node for `%s`' % short(test_stmt.test))
    other = 'false' if positive else 'true'
    # block every edge of the test except the wanted one (the unwanted edge may be labelled false/back/...)
    wanted = 'true' if positive else 'false'
    blocked = []
    for t, lab in tn[0].succs:
        if positive and lab != 'true' and lab != 'exc':
            blocked.append((tn[0], t, lab))
        if not positive and lab == 'true':
            blocked.append((tn[0], t, lab))
    reach = cfg.reach([cfg.entry], blocked_edges=blocked)
    # with the *wanted* edge removed instead, the target must be unreachable
    blocked2 = []
    for t, lab in tn[0].succs:
        if positive and lab == 'true':
            blocked2.append((tn[0], t, lab))
        if not positive and lab != 'true' and lab != 'exc':
            blocked2.append((tn[0], t, lab))
    reach2 = cfg.reach([cfg.entry], blocked_edges=blocked2)
    return not any(n in reach2 for n in tg)


def truth_test(test, name):
    """+1 if the canonical test holds exactly when `name` is truthy / not None, -1 for the negation, 0 otherwise."""
    t = nf.canon(test)
    if m(name, t) is not None or m("%s is not None" % name, t) is not None or m("%s != None" % name, t) is not None:
        return 1
    if m("not %s" % name, t) is not None or m("%s is None" % name, t) is not None or m("%s == None" % name, t) is not None:
        return -1
    return 0


def aliases(fn, name):
    """Names that denote the same object as `name` through plain `a = b` assignments (either direction)."""
    out = {name}
    changed = True
    while changed:
        changed = False
        for s in walk_own(fn):
            if isinstance(s, ast.Assign) and len(s.targets) == 1 and isinstance(s.targets[0], ast.Name) and isinstance(s.value, ast.Name):
                a, b = s.targets[0].id, s.value.id
                if (a in out) != (b in out):
                    out |= {a, b}
                    changed = True
    return out


# ------------------------------------------------------------------ local unrolling of loops / any() over literal tuples
class View(object):
    """A rewritten copy of a function that can be handed to the helpers expecting a FuncInfo."""

    def __init__(self, fi, node):
        self.node = node
        self.module = fi.module
        self.qualname = fi.qualname
        self.params = fi.params
        self.loc = fi.loc
        self.cls = fi.cls
        self.is_static = fi.is_static
        self.outer = getattr(fi, 'outer', None)
        self.decorators = getattr(fi, 'decorators', [])
        self.name = getattr(fi, 'name', '')
        self.all_params = getattr(fi, 'all_params', fi.params)
        self.original = getattr(fi, 'original', fi)


def _literal_seq(e, env):
    if isinstance(e, ast.Name) and e.id in env:
        e = env[e.id]
    if isinstance(e, (ast.Tuple, ast.List)) and e.elts and not any(isinstance(x, ast.Starred) for x in e.elts):
        return list(e.elts)
    return None


def _bind_target(target, value):
    """{name: expr} for binding a loop target to a literal element, or None."""
    if isinstance(target, ast.Name):
        return {target.id: value}
    if isinstance(target, (ast.Tuple, ast.List)) and isinstance(value, (ast.Tuple, ast.List)) and len(target.elts) == len(value.elts):
        out = {}
        for t, v in zip(target.elts, value.elts):
            b = _bind_target(t, v)
            if b is None:
                return None
            out.update(b)
        return out
    return None


def _without_continue(stmts):
    """The loop body with guard-clause `continue`s turned into if/else nesting (`if c: continue; rest` -> `if c: pass else: rest`);
    None if a continue sits anywhere else (inside a nested loop, try, with ...)."""
    out = []
    for i, s in enumerate(stmts):
        if isinstance(s, ast.Continue):
            return out or [ast.copy_location(ast.Pass(), s)]
        if isinstance(s, ast.If) and any(isinstance(x, ast.Continue) for x in ast.walk(s)):
            rest = list(stmts[i + 1:])
            ends_b = bool(s.body) and isinstance(s.body[-1], ast.Continue)
            ends_o = bool(s.orelse) and isinstance(s.orelse[-1], ast.Continue)
            if ends_b and not any(isinstance(x, ast.Continue) for y in s.body[:-1] + list(s.orelse) for x in ast.walk(y)):
                then = list(s.body[:-1]) or [ast.copy_location(ast.Pass(), s)]
                other = _without_continue(list(s.orelse) + rest)
                if other is None:
                    return None
                out.append(ast.copy_location(ast.If(test=s.test, body=then, orelse=other), s))
                return out
            if ends_o and not any(isinstance(x, ast.Continue) for y in list(s.body) + s.orelse[:-1] for x in ast.walk(y)):
                then = _without_continue(list(s.body) + rest)
                if then is None:
                    return None
                out.append(ast.copy_location(ast.If(test=s.test, body=then or [ast.copy_location(ast.Pass(), s)],
                                                    orelse=list(s.orelse[:-1])), s))
                return out
            return None
        if any(isinstance(x, ast.Continue) for x in ast.walk(s)):
            return None
        out.append(s)
    return out


class _Unroll(ast.NodeTransformer):
    def __init__(self, env):
        self.env = env

    def visit_FunctionDef(self, node):
        return node if getattr(self, '_inside', False) else self._top(node)

    def _stable(self, name, use):
        """The tuple bound to `name` reads only constants and names that are not reassigned between its definition and `use`."""
        root = getattr(self, '_root', None)
        val = self.env.get(name)
        if root is None or val is None:
            return True
        reads = {n.id for n in ast.walk(val) if isinstance(n, ast.Name)}
        if not reads:
            return True
        d = [s_ for s_ in ast.walk(root) if isinstance(s_, ast.Assign) and s_.value is val]
        if len(d) != 1:
            return False
        order = {}

        def number(stmts):
            for s_ in stmts:
                order[id(s_)] = len(order)
                for fld in ('body', 'orelse', 'finalbody'):
                    if isinstance(getattr(s_, fld, None), list):
                        number(getattr(s_, fld))
                for h in getattr(s_, 'handlers', []) or []:
                    number(h.body)
        number(root.body)
        lo, hi = order.get(id(d[0])), order.get(id(use))
        if lo is None or hi is None or any(isinstance(a_, (ast.For, ast.While)) for a_ in self._loops_around(root, use)):
            return False
        for s_ in ast.walk(root):
            if isinstance(s_, (ast.Assign, ast.AugAssign, ast.For, ast.Delete)) and s_ is not d[0] and s_ is not use \
                    and lo < order.get(id(s_), -1) < hi and assigned_names(s_) & reads:
                return False
        return True

    @staticmethod
    def _loops_around(root, node):
        out = []

        def find(stmts, stack):
            for s_ in stmts:
                if s_ is node:
                    out.extend(stack)
                    return True
                for fld in ('body', 'orelse', 'finalbody'):
                    if isinstance(getattr(s_, fld, None), list) and find(getattr(s_, fld), stack + [s_]):
                        return True
            return False
        find(root.body, [])
        return out

    def _top(self, node):
        self._root = node
        self._inside = True
        self.generic_visit(node)
        return node

    def visit_Lambda(self, node):
        return node

    def visit_For(self, node):
        self.generic_visit(node)
        seq = _literal_seq(node.iter, self.env)
        if seq is None or node.orelse:
            return node
        if isinstance(node.iter, ast.Name) and not self._stable(node.iter.id, node):
            return node
        body = _without_continue(node.body)
        if body is None or any(isinstance(x, (ast.Break, ast.Continue)) for s_ in body for x in ast.walk(s_)):
            return node
        node = ast.copy_location(ast.For(target=node.target, iter=node.iter, body=body, orelse=[]), node)
        out = []
        for elt in seq:
            b = _bind_target(node.target, elt)
            if b is None:
                return node
            assigned = set()
            for s in node.body:
                assigned |= assigned_names(s)
            if assigned & set(b):
                return node
            for s in node.body:
                out.append(nf._Subst(b).visit(clone_stmt(s)))
        return out

    def visit_Call(self, node):
        self.generic_visit(node)
        if isinstance(node.func, ast.Name) and node.func.id in ('any', 'all') and len(node.args) == 1 and not node.keywords \
                and isinstance(node.args[0], (ast.GeneratorExp, ast.ListComp)) and len(node.args[0].generators) == 1 \
                and not node.args[0].generators[0].ifs:
            g = node.args[0].generators[0]
            seq = _literal_seq(g.iter, self.env)
            if seq is not None:
                vals = []
                for elt in seq:
                    b = _bind_target(g.target, elt)
                    if b is None:
                        return node
                    vals.append(nf.subst(node.args[0].elt, b))
                op = ast.Or() if node.func.id == 'any' else ast.And()
                return ast.copy_location(ast.BoolOp(op=op, values=vals) if len(vals) > 1 else vals[0], node)
        return node

    def visit_Assign(self, node):
        self.generic_visit(node)
        return self._split(node)

    def _split(self, node):
        from ..index import clone
        if isinstance(node, ast.Assign) and isinstance(node.value, ast.IfExp):
            v = node.value
            a = ast.copy_location(ast.Assign(targets=[clone(t) for t in node.targets], value=v.body), node)
            b = ast.copy_location(ast.Assign(targets=[clone(t) for t in node.targets], value=v.orelse), node)
            return ast.copy_location(ast.If(test=v.test, body=[self._split(a)], orelse=[self._split(b)]), node)
        return node

    def visit_Subscript(self, node):
        self.generic_visit(node)
        if isinstance(node.slice, ast.IfExp) and isinstance(node.ctx, ast.Load):
            from ..index import clone
            return ast.copy_location(ast.IfExp(test=node.slice.test,
                                               body=ast.Subscript(value=clone(node.value), slice=node.slice.body, ctx=ast.Load()),
                                               orelse=ast.Subscript(value=clone(node.value), slice=node.slice.orelse, ctx=ast.Load())), node)
        return node


def clone_stmt(s):
    from ..index import clone
    return clone(s)


def unrolled(fi):
    """View of the function with loops / any() / all() over literal tuples unrolled and `d[a if c else b]` distributed."""
    from ..index import clone, set_parents
    node = clone(fi.node)
    env = {k: v for k, v in lib.local_env(node).items() if isinstance(v, (ast.Tuple, ast.List))}
    new = _Unroll(env)._top(node)
    ast.fix_missing_locations(new)
    set_parents(new)
    return View(fi, new)


# ------------------------------------------------------------------ local inlining of procedure-like helper calls
def inline_procedures(idx, fi, only=None):
    """View of the function in which expression statements `recv.helper(args)` calling a package function that returns
    nothing (no `return <value>`) are replaced by the helper's body (parameters substituted by the arguments).
    `only`: restrict to these qualified names (e.g. the unreviewed helpers the normaliser could not inline)."""
    from ..index import clone, set_parents
    orig = getattr(fi, 'original', fi)
    node = clone(fi.node)
    set_parents(node)
    # map cloned Expr statements to original calls by position in a parallel walk
    pairs = []
    for a, b in zip(ast.walk(fi.node), ast.walk(node)):
        if isinstance(a, ast.Expr) and isinstance(a.value, ast.Call):
            pairs.append((a, b))
    changed = False
    for a, b in pairs:
        try:
            targets, how = idx.resolve_call(orig, a.value)
        except Exception:
            continue
        fts = [t for t in targets if hasattr(t, 'node')]
        if len(fts) != 1:
            continue
        callee = fts[0]
        if only is not None and callee.qualname not in only:
            continue
        if any(isinstance(x, ast.Return) and x.value is not None for x in walk_own(callee.node)) or \
                any(isinstance(x, (ast.Yield, ast.YieldFrom, ast.Global, ast.Nonlocal)) for x in ast.walk(callee.node)):
            continue
        if any(isinstance(x, ast.Return) for x in walk_own(callee.node)):
            continue                      # bare early returns would need restructuring
        params = list(callee.params)
        if callee.cls is not None and not callee.is_static:
            params = params[1:]
        try:
            bound = bind_call(a.value, params)
        except AnalysisError:
            continue
        if set(bound) != set(params) or callee.node.args.vararg or callee.node.args.kwarg:
            continue
        body = [clone(s) for s in callee.node.body
                if not (isinstance(s, ast.Expr) and isinstance(s.value, ast.Constant))]
        caller_names = lib.names_in(fi.node)
        rename = {}
        for s in body:
            for n in assigned_names(s):
                if n in caller_names and n not in bound:
                    rename[n] = n + '_inlp'
        new_body = []
        for s in body:
            s2 = nf._Subst({k: v for k, v in bound.items()}).visit(s)
            for n in ast.walk(s2):
                if isinstance(n, ast.Name) and n.id in rename:
                    n.id = rename[n.id]
            new_body.append(s2)
        par = parent(b)
        for field in ('body', 'orelse', 'finalbody'):
            lst = getattr(par, field, None)
            if isinstance(lst, list) and any(x is b for x in lst):
                i = [k for k, x in enumerate(lst) if x is b][0]
                lst[i:i + 1] = new_body or [ast.Pass()]
                changed = True
    if not changed:
        return fi
    ast.fix_missing_locations(node)
    set_parents(node)
    return View(fi, node)


# ------------------------------------------------------------------ expression-level inlining of pure helper predicates
def _pure_body(callee):
    """(assignments env, return expr) if the callee is `[docstring] name = expr ... return expr`, else None."""
    body = [s for s in callee.node.body if not (isinstance(s, ast.Expr) and isinstance(s.value, ast.Constant))]
    if not body or not isinstance(body[-1], ast.Return) or body[-1].value is None:
        return None
    env = {}
    for s in body[:-1]:
        if not (isinstance(s, ast.Assign) and len(s.targets) == 1 and isinstance(s.targets[0], ast.Name)) or s.targets[0].id in env:
            return None
        env[s.targets[0].id] = nf.subst(s.value, env)
    if callee.node.args.kwarg or any(isinstance(n, (ast.Yield, ast.YieldFrom, ast.Lambda)) for n in ast.walk(callee.node)):
        return None
    if callee.node.args.vararg and (body[:-1] or not _only_spread(body[-1].value, callee.node.args.vararg.arg)):
        return None
    return env, nf.subst(body[-1].value, env)


def _only_spread(e, name):
    """Every use of the *args parameter is a spread `f(*args)` as the last positional argument."""
    uses = [n for n in ast.walk(e) if isinstance(n, ast.Name) and n.id == name]
    spreads = [c.args[-1].value for c in ast.walk(e) if isinstance(c, ast.Call) and c.args and isinstance(c.args[-1], ast.Starred)
               and isinstance(c.args[-1].value, ast.Name) and c.args[-1].value.id == name]
    return len(uses) == len(spreads)


class _Splice(ast.NodeTransformer):
    """f(a, *(x, y)) -> f(a, x, y)"""
    def visit_Call(self, node):
        self.generic_visit(node)
        if node.args and isinstance(node.args[-1], ast.Starred) and isinstance(node.args[-1].value, ast.Tuple):
            node.args = node.args[:-1] + list(node.args[-1].value.elts)
        return node


class Beta(ast.NodeTransformer):
    """(lambda a, b: body)(x, y) -> body[a:=x, b:=y]  (positional parameters only)"""
    def visit_Call(self, node):
        self.generic_visit(node)
        f = node.func
        if isinstance(f, ast.Lambda) and not node.keywords and not f.args.vararg and not f.args.kwarg and not f.args.kwonlyargs \
                and len(f.args.args) == len(node.args) and not any(isinstance(a, ast.Starred) for a in node.args):
            return nf.subst(f.body, {p_.arg: a for p_, a in zip(f.args.args, node.args)})
        return node


def inline_pure_calls(idx, fi, only=None):
    """View of the function in which calls of pure single-expression helpers (resolved package functions whose body is a
    few local bindings and one `return <expr>`) are replaced by that expression, also under short-circuit operators
    (harmless for the analysis: the helper has no effects).  Returns (view, set of inlined qualified names)."""
    from ..index import clone, set_parents
    orig = getattr(fi, 'original', fi)
    node = clone(fi.node)
    mapping = {}
    for a, b in zip(ast.walk(fi.node), ast.walk(node)):
        if isinstance(a, ast.Call):
            mapping[id(b)] = a
    done = set()

    class T(ast.NodeTransformer):
        def visit_Call(self, n):
            self.generic_visit(n)
            a = mapping.get(id(n))
            if a is None:
                return n
            try:
                targets, how = idx.resolve_call(orig, a)
            except Exception:
                return n
            fts = [t for t in targets if hasattr(t, 'node')]
            if len(fts) != 1 or (only is not None and fts[0].qualname not in only):
                return n
            callee = fts[0]
            pb = _pure_body(callee)
            if pb is None:
                return n
            params = list(callee.params)
            if callee.cls is not None and not callee.is_static:
                params = params[1:]
            va = callee.node.args.vararg
            call_ = n
            extra = None
            if va is not None:
                fixed = [p_ for p_ in params if p_ != va.arg]
                if n.keywords or any(isinstance(a_, ast.Starred) for a_ in n.args) or len(n.args) < len(fixed):
                    return n
                extra = ast.Tuple(elts=list(n.args[len(fixed):]), ctx=ast.Load())
                call_ = ast.Call(func=n.func, args=list(n.args[:len(fixed)]), keywords=[])
                params = fixed
            try:
                bound = bind_call(call_, params)
            except AnalysisError:
                return n
            if set(bound) != set(params):
                return n
            if extra is not None:
                bound = dict(bound)
                bound[va.arg] = extra
            done.add(callee.qualname)
            return ast.copy_location(_Splice().visit(nf.subst(pb[1], bound)), n)
    new = T().visit(node)
    if not done:
        return fi, done
    ast.fix_missing_locations(new)
    set_parents(new)
    return View(fi, new), done


def settle_unreviewed(idx, inlined, inside):
    """Helpers whose every call site lies in the functions `inside` (qualified names) and was inlined there are no longer
    unreviewed for this run."""
    left = getattr(idx, 'unreviewed', None)
    if not left:
        return
    for q in list(inlined):
        if q not in left:
            continue
        name = q.rsplit('.', 1)[-1]
        sites = [f.qualname for f in idx.package_funcs() if lib.calls_named(f.node, name) and f.qualname != q]
        if all(s in inside for s in sites):
            left.remove(q)


# ------------------------------------------------------------------ keyed reading of dictionary comprehensions / aliases
class _Keyed(ast.NodeTransformer):
    """`for k, v in D.items()` -> `for k in D` with v read as D[k];  `for v in D.values()` -> `for _k in D` with D[_k];
    `for k in D.keys()` -> `for k in D`;  `a if x is None else b` -> `b if x is not None else a`.  D must be a plain
    name or attribute chain (reading it twice is the same object)."""

    def _plain(self, e):
        while isinstance(e, ast.Attribute):
            e = e.value
        return isinstance(e, ast.Name)

    def _comp(self, node):
        from ..index import clone
        self.generic_visit(node)
        if len(node.generators) != 1:
            return node
        g = node.generators[0]
        it = g.iter
        if not (isinstance(it, ast.Call) and isinstance(it.func, ast.Attribute) and it.func.attr in ('items', 'values', 'keys')
                and not it.args and not it.keywords and self._plain(it.func.value)):
            return node
        D = it.func.value
        if it.func.attr == 'keys' and isinstance(g.target, ast.Name):
            g.iter = D
            return node
        if it.func.attr == 'items' and isinstance(g.target, ast.Tuple) and len(g.target.elts) == 2 \
                and all(isinstance(t, ast.Name) for t in g.target.elts):
            k, v = g.target.elts[0].id, g.target.elts[1].id
        elif it.func.attr == 'values' and isinstance(g.target, ast.Name):
            k, v = '_k', g.target.id
        else:
            return node
        if k == v:
            return node
        bind = {v: ast.Subscript(value=clone(D), slice=ast.Name(id=k, ctx=ast.Load()), ctx=ast.Load())}
        for fld in ('elt', 'key', 'value'):
            if hasattr(node, fld):
                setattr(node, fld, nf.subst(getattr(node, fld), bind))
        g.ifs = [nf.subst(t, bind) for t in g.ifs]
        g.target = ast.Name(id=k, ctx=ast.Store())
        g.iter = clone(D)
        return node

    visit_ListComp = visit_SetComp = visit_GeneratorExp = visit_DictComp = _comp

    def visit_IfExp(self, node):
        self.generic_visit(node)
        t = node.test
        if isinstance(t, ast.Compare) and len(t.ops) == 1 and isinstance(t.ops[0], ast.Is) and isinstance(t.comparators[0], ast.Constant) \
                and t.comparators[0].value is None:
            return ast.copy_location(ast.IfExp(test=ast.Compare(left=t.left, ops=[ast.IsNot()], comparators=t.comparators),
                                               body=node.orelse, orelse=node.body), node)
        return node


def settled(fi, keyed=True):
    """View of a function with (a) single-assignment aliases of plain attribute chains / parameters substituted and
    (b) dictionary comprehensions over items()/values()/keys() read in the keyed form."""
    from ..index import clone, set_parents, walk_own
    node = clone(fi.node)
    counts = {}
    for n in walk_own(node):
        for t in (n.targets if isinstance(n, ast.Assign) else [n.target] if isinstance(n, (ast.AugAssign, ast.For, ast.comprehension)) else []):
            for x in ast.walk(t):
                if isinstance(x, ast.Name) and isinstance(x.ctx, (ast.Store, ast.Del)):
                    counts[x.id] = counts.get(x.id, 0) + 1
    # `a, b = x, y` with values that read none of the targets is the two assignments in sequence
    split = []
    for s in node.body:
        if isinstance(s, ast.Assign) and len(s.targets) == 1 and isinstance(s.targets[0], (ast.Tuple, ast.List)) \
                and isinstance(s.value, (ast.Tuple, ast.List)) and len(s.targets[0].elts) == len(s.value.elts) \
                and all(isinstance(t, ast.Name) for t in s.targets[0].elts) \
                and not ({t.id for t in s.targets[0].elts} & {n.id for n in ast.walk(s.value) if isinstance(n, ast.Name)}) \
                and not all(isinstance(v, ast.Name) for v in s.value.elts):
            split.extend(ast.copy_location(ast.Assign(targets=[t], value=v), s) for t, v in zip(s.targets[0].elts, s.value.elts))
        else:
            split.append(s)
    node.body = split
    alias = {}
    drop = []

    def source_ok(v):
        if isinstance(v, ast.Attribute):
            return _Keyed()._plain(v)
        # another local bound once (the same object under two names) or a parameter that is never rebound
        return isinstance(v, ast.Name) and (counts.get(v.id, 0) == 1 or (v.id in fi.params and counts.get(v.id, 0) == 0))
    for s in node.body:
        if not isinstance(s, ast.Assign) or len(s.targets) != 1:
            continue
        t, v = s.targets[0], s.value
        if isinstance(t, ast.Name):
            pairs = [(t, v)]
        elif isinstance(t, (ast.Tuple, ast.List)) and isinstance(v, (ast.Tuple, ast.List)) and len(t.elts) == len(v.elts) \
                and all(isinstance(x, ast.Name) for x in t.elts):
            pairs = list(zip(t.elts, v.elts))
        else:
            continue
        if all(counts.get(a.id) == 1 and a.id not in fi.params and source_ok(b) for a, b in pairs):
            for a, b in pairs:
                alias[a.id] = nf.subst(b, alias)
            drop.append(s)
    if alias:
        body = []
        for s in node.body:
            if any(s is d_ for d_ in drop):
                continue
            body.append(nf._Subst(alias).visit(s))
        node.body = body
    # the same inside loop bodies: `b = a` directly in the body of a loop, both names bound once in the function, every
    # read of b after it in statement order: b is this iteration's a
    order = {}

    def number(stmts):
        for s_ in stmts:
            order[id(s_)] = len(order)
            for fld in ('body', 'orelse', 'finalbody'):
                if isinstance(getattr(s_, fld, None), list):
                    number(getattr(s_, fld))
            for h in getattr(s_, 'handlers', []) or []:
                number(h.body)
    number(node.body)
    set_parents(node)
    nested = {}
    for lp in [x for x in walk_own(node) if isinstance(x, (ast.For, ast.While))]:
        for s in list(lp.body):
            if isinstance(s, ast.Assign) and len(s.targets) == 1 and isinstance(s.targets[0], ast.Name) and isinstance(s.value, ast.Name) \
                    and counts.get(s.targets[0].id) == 1 and counts.get(s.value.id) == 1 and s.targets[0].id not in fi.params:
                b, a = s.targets[0].id, s.value.id
                adef = [x for x in lp.body if isinstance(x, ast.Assign) and len(x.targets) == 1 and is_name(x.targets[0], a)]
                reads = [n for n in walk_own(node) if isinstance(n, ast.Name) and n.id == b and isinstance(n.ctx, ast.Load)]
                if len(adef) == 1 and order[id(adef[0])] < order[id(s)] and all(order.get(id(_stmt_of(n)), -1) > order[id(s)] for n in reads):
                    nested[b] = a
                    lp.body.remove(s)
    if nested:
        node = nf._Subst({b: ast.Name(id=a, ctx=ast.Load()) for b, a in nested.items()}).visit(node)
    if keyed:
        node = _Keyed().visit(node)
    ast.fix_missing_locations(node)
    set_parents(node)
    return View(fi, node)


# ------------------------------------------------------------------ inlining of decision-tree helpers
def _tree_of(callee):
    """[(guards, kind, expr)] for a helper that (after unrolling) is a loop-free decision tree without effects whose
    guards and results mention only its parameters and globals; None otherwise."""
    view = unrolled(callee)
    fn = view.node
    if fn.args.vararg or fn.args.kwarg or any(isinstance(n, (ast.For, ast.While, ast.Try, ast.With, ast.Yield, ast.YieldFrom, ast.Lambda,
                                                              ast.FunctionDef, ast.Global, ast.Nonlocal)) and n is not fn for n in ast.walk(fn)):
        return None
    try:
        paths = nf.decision_paths(fn.body, max_paths=64)
    except AnalysisError:
        return None
    from ..index import local_names
    locs = set(local_names(fn)) - set(callee.params)
    out = []
    for p_ in paths:
        if p_.effects or p_.leaf.kind == 'fall':
            return None
        exprs = list(p_.guards) + ([p_.leaf.expr] if p_.leaf.expr is not None else [])
        if any(isinstance(n, ast.Name) and n.id in locs for e in exprs for n in ast.walk(e)):
            return None
        out.append((p_.guards, p_.leaf.kind, p_.leaf.expr))
    return out


def inline_decision_calls(idx, fi, only=None):
    """View of the function in which statements `T = helper(args)` / `return helper(args)` calling a decision-tree helper
    (see _tree_of) with side-effect-free arguments are replaced by the helper's own if/elif chain.  Returns (view, names)."""
    from ..index import clone, set_parents
    orig = getattr(fi, 'original', fi)
    node = clone(fi.node)
    mapping = {}
    for a, b in zip(ast.walk(fi.node), ast.walk(node)):
        if isinstance(a, ast.Call):
            mapping[id(b)] = a
    done = set()

    def simple(e):
        return all(isinstance(n, (ast.Name, ast.Constant, ast.Attribute, ast.UnaryOp, ast.BinOp, ast.Load, ast.operator, ast.unaryop, ast.Subscript))
                   for n in ast.walk(e))

    def expand(stmt):
        call = stmt.value if isinstance(stmt, (ast.Assign, ast.Return)) else None
        if not isinstance(call, ast.Call) or (isinstance(stmt, ast.Assign) and len(stmt.targets) != 1):
            return None
        a = mapping.get(id(call))
        if a is None:
            return None
        try:
            targets, how = idx.resolve_call(orig, a)
        except Exception:
            return None
        fts = [t for t in targets if hasattr(t, 'node')]
        if len(fts) != 1 or (only is not None and fts[0].qualname not in only):
            return None
        callee = fts[0]
        tree = _tree_of(callee)
        if not tree:
            return None
        params = list(callee.params)
        if callee.cls is not None and not callee.is_static:
            params = params[1:]
            if any(isinstance(n, ast.Name) and n.id == callee.params[0] for g, k, e in tree for x in list(g) + ([e] if e is not None else [])
                   for n in ast.walk(x)) and not (isinstance(call.func, ast.Attribute) and is_name(call.func.value, 'self')
                                                  and orig.params and orig.params[0] == 'self' and callee.params[0] == 'self'):
                return None
        try:
            bound = bind_call(call, params)
        except AnalysisError:
            return None
        if set(bound) != set(params) or not all(simple(v) for v in bound.values()):
            return None

        def leaf(kind, e):
            e = nf.subst(e, bound) if e is not None else None
            if kind == 'raise':
                return ast.Raise(exc=e, cause=None)
            if isinstance(stmt, ast.Return):
                return ast.Return(value=e)
            return ast.Assign(targets=[clone(stmt.targets[0])], value=e)
        chain = None
        for g, kind, e in reversed(tree):
            body = [ast.copy_location(leaf(kind, e), stmt)]
            if chain is None:
                chain = body
            else:
                gs = [nf.subst(x, bound) for x in g]
                test = gs[0] if len(gs) == 1 else ast.BoolOp(op=ast.And(), values=gs)
                chain = [ast.copy_location(ast.If(test=test, body=body, orelse=chain), stmt)]
        done.add(callee.qualname)
        return chain

    def rewrite(stmts):
        out = []
        for st in stmts:
            rep = expand(st)
            if rep is not None:
                out.extend(rep)
                continue
            for fld in ('body', 'orelse', 'finalbody'):
                if isinstance(getattr(st, fld, None), list) and not isinstance(st, (ast.FunctionDef, ast.ClassDef)):
                    setattr(st, fld, rewrite(getattr(st, fld)))
            if isinstance(st, ast.Try):
                for h in st.handlers:
                    h.body = rewrite(h.body)
            out.append(st)
        return out
    node.body = rewrite(node.body)
    if not done:
        return fi, done
    ast.fix_missing_locations(node)
    set_parents(node)
    return View(fi, node), done


# ------------------------------------------------------------------ hoisting of straight-line helpers
def inline_straight_calls(idx, fi, only=None):
    """View in which a call of a straight-line helper (`name = expr ...; return expr`, see _pure_body) that is evaluated
    exactly once by its statement (right-hand side of an assignment / expression statement / return value / iterable of
    a for loop; not under a short-circuit operator, conditional expression, lambda or comprehension) is replaced by the
    helper's return expression, with the helper's local bindings hoisted in front of the statement under fresh names.
    Returns (view, qualified names inlined)."""
    from ..index import clone, set_parents
    orig = getattr(fi, 'original', fi)
    node = clone(fi.node)
    mapping = {}
    for a, b in zip(ast.walk(fi.node), ast.walk(node)):
        if isinstance(a, ast.Call):
            mapping[id(b)] = a
    done = set()
    counter = [0]

    def once_calls(e):
        """Calls in e that are evaluated exactly once when e is."""
        out = []

        def go(x):
            if isinstance(x, (ast.BoolOp, ast.IfExp, ast.Lambda, ast.ListComp, ast.SetComp, ast.DictComp, ast.GeneratorExp)):
                if isinstance(x, ast.BoolOp):
                    go(x.values[0])
                elif isinstance(x, ast.IfExp):
                    go(x.test)
                elif not isinstance(x, ast.Lambda):
                    go(x.generators[0].iter)
                return
            if isinstance(x, ast.Call):
                out.append(x)
            for c in ast.iter_child_nodes(x):
                go(c)
        go(e)
        return out

    def expand(st):
        if isinstance(st, (ast.Assign, ast.Expr, ast.Return)) and st.value is not None:
            holder, fld = st, 'value'
        elif isinstance(st, ast.For):
            holder, fld = st, 'iter'
        else:
            return None
        pre = []
        for call in once_calls(getattr(holder, fld)):
            a = mapping.get(id(call))
            if a is None:
                continue
            try:
                targets, how = idx.resolve_call(orig, a)
            except Exception:
                continue
            fts = [t for t in targets if hasattr(t, 'node')]
            if len(fts) != 1 or (only is not None and fts[0].qualname not in only):
                continue
            callee = fts[0]
            body = [s_ for s_ in callee.node.body if not (isinstance(s_, ast.Expr) and isinstance(s_.value, ast.Constant))]
            if _pure_body(callee) is None or len(body) < 2:
                continue
            params = list(callee.params)
            recv = None
            if callee.cls is not None and not callee.is_static:
                recv, params = params[0], params[1:]
                if not (isinstance(call.func, ast.Attribute) and is_name(call.func.value, 'self') and recv == 'self'):
                    continue
            try:
                bound = bind_call(call, params)
            except AnalysisError:
                continue
            if set(bound) != set(params) or not all(isinstance(v, (ast.Name, ast.Constant, ast.Attribute)) for v in bound.values()):
                continue
            counter[0] += 1
            ren = {}
            for s_ in body[:-1]:
                ren[s_.targets[0].id] = ast.Name(id='%s_h%d' % (s_.targets[0].id, counter[0]), ctx=ast.Load())
            sub = dict(bound)
            sub.update(ren)
            for s_ in body[:-1]:
                pre.append(ast.copy_location(ast.Assign(targets=[ast.Name(id=ren[s_.targets[0].id].id, ctx=ast.Store())],
                                                        value=nf.subst(s_.value, sub)), st))
            new = nf.subst(body[-1].value, sub)
            # replace the call node in place
            for par_ in ast.walk(holder):
                for f_, v_ in ast.iter_fields(par_):
                    if v_ is call:
                        setattr(par_, f_, new)
                    elif isinstance(v_, list):
                        for i_, x_ in enumerate(v_):
                            if x_ is call:
                                v_[i_] = new
            done.add(callee.qualname)
        return pre or None

    def rewrite(stmts):
        out = []
        for st in stmts:
            pre = expand(st)
            for fld in ('body', 'orelse', 'finalbody'):
                if isinstance(getattr(st, fld, None), list) and not isinstance(st, (ast.FunctionDef, ast.ClassDef)):
                    setattr(st, fld, rewrite(getattr(st, fld)))
            for h in getattr(st, 'handlers', []) or []:
                h.body = rewrite(h.body)
            out.extend(pre or [])
            out.append(st)
        return out
    node.body = rewrite(node.body)
    if not done:
        return fi, done
    ast.fix_missing_locations(node)
    set_parents(node)
    return View(fi, node), done


# ------------------------------------------------------------------ filtered literal tables
class _FoldIndex(ast.NodeTransformer):
    """(a, b, c)[1] -> b"""
    def visit_Subscript(self, node):
        self.generic_visit(node)
        if isinstance(node.value, (ast.Tuple, ast.List)) and isinstance(node.slice, ast.Constant) and isinstance(node.slice.value, int) \
                and -len(node.value.elts) <= node.slice.value < len(node.value.elts) and isinstance(node.ctx, ast.Load):
            return node.value.elts[node.slice.value]
        return node


def select_tables(fi):
    """View in which a list `S = [row for row in T if cond(row)]` over a literal table T of tuples (both bound once, rows
    call-pure and not invalidated before the uses) is read row by row: the truth value of S becomes `cond(R0) or cond(R1) ...`,
    `S[-1]` the last and `S[0]` the first row that satisfies cond (as a conditional expression).  Other uses of S are left."""
    from ..index import clone, set_parents, walk_own
    node = clone(fi.node)
    set_parents(node)
    order = {}

    def number(stmts):
        for s_ in stmts:
            order[id(s_)] = len(order)
            for fld in ('body', 'orelse', 'finalbody'):
                if isinstance(getattr(s_, fld, None), list):
                    number(getattr(s_, fld))
            for h in getattr(s_, 'handlers', []) or []:
                number(h.body)
    number(node.body)
    assigns = {}
    for s_ in walk_own(node):
        if isinstance(s_, (ast.Assign, ast.AugAssign, ast.For, ast.Delete, ast.With)):
            for n in assigned_names(s_):
                assigns.setdefault(n, []).append(s_)
    changed = False
    for sname, defs in list(assigns.items()):
        if len(defs) != 1 or not isinstance(defs[0], ast.Assign) or not isinstance(defs[0].value, ast.ListComp) or len(defs[0].targets) != 1 \
                or not isinstance(defs[0].targets[0], ast.Name) or defs[0].targets[0].id != sname:
            continue
        comp = defs[0].value
        if len(comp.generators) != 1 or len(comp.generators[0].ifs) != 1:
            continue
        g = comp.generators[0]
        tbl, tdef = g.iter, defs[0]
        if isinstance(tbl, ast.Name):
            td = assigns.get(tbl.id, [])
            if len(td) != 1 or not isinstance(td[0], ast.Assign) or len(td[0].targets) != 1 or not isinstance(td[0].targets[0], ast.Name):
                continue
            tbl, tdef = td[0].value, td[0]
        if not isinstance(tbl, (ast.List, ast.Tuple)) or not tbl.elts or not all(isinstance(r_, ast.Tuple) for r_ in tbl.elts):
            continue
        if not (isinstance(comp.elt, ast.Name) and isinstance(g.target, ast.Name) and comp.elt.id == g.target.id):
            continue
        reads = {n.id for n in ast.walk(tbl) if isinstance(n, ast.Name)}
        uses = [n for n in walk_own(node) if isinstance(n, ast.Name) and n.id == sname and isinstance(n.ctx, ast.Load)]
        if not uses:
            continue
        last_use = max(order.get(id(_stmt_of(u)), 10 ** 9) for u in uses)
        lo = order.get(id(tdef))
        if lo is None or any(lo < order.get(id(a_), -1) <= last_use for n_ in reads for a_ in assigns.get(n_, [])):
            continue
        if any(isinstance(a_, (ast.For, ast.While)) for a_ in _Unroll._loops_around(node, tdef)):
            continue
        conds = [_FoldIndex().visit(nf.subst(clone(g.ifs[0]), {g.target.id: clone(r_)})) for r_ in tbl.elts]
        rows = list(tbl.elts)

        def pick(seq):
            out = seq[-1][1]
            for c_, r_ in reversed(seq[:-1]):
                out = ast.IfExp(test=c_, body=r_, orelse=out)
            return out
        for u in uses:
            par = parent(u)
            new = None
            if isinstance(par, ast.Subscript) and par.value is u and isinstance(par.slice, ast.Constant) and par.slice.value in (0, -1) \
                    or (isinstance(par, ast.Subscript) and par.value is u and isinstance(par.slice, ast.UnaryOp) and isinstance(par.slice.op, ast.USub)
                        and isinstance(par.slice.operand, ast.Constant) and par.slice.operand.value == 1):
                first = isinstance(par.slice, ast.Constant) and par.slice.value == 0
                seq = list(zip(conds, rows)) if first else list(zip(conds, rows))[::-1]
                new, old = pick([(clone(c_), clone(r_)) for c_, r_ in seq]), par
            elif isinstance(par, (ast.If, ast.While, ast.IfExp)) and par.test is u or (isinstance(par, ast.UnaryOp) and isinstance(par.op, ast.Not)) \
                    or (isinstance(par, ast.BoolOp)):
                new, old = ast.BoolOp(op=ast.Or(), values=[clone(c_) for c_ in conds]) if len(conds) > 1 else clone(conds[0]), u
            if new is None:
                continue
            gp = parent(old)
            for f_, v_ in ast.iter_fields(gp):
                if v_ is old:
                    setattr(gp, f_, new)
                    changed = True
                elif isinstance(v_, list):
                    for i_, x_ in enumerate(v_):
                        if x_ is old:
                            v_[i_] = new
                            changed = True
    if not changed:
        return fi
    ast.fix_missing_locations(node)
    set_parents(node)
    return View(fi, node)


def _stmt_of(node):
    while node is not None and not isinstance(node, ast.stmt):
        node = parent(node)
    return node


# ------------------------------------------------------------------ lookups in constant tables
def expand_table_lookups(fi, resolve):
    """View in which `T = TABLE[k]` (TABLE resolved by `resolve(expr)` to a dict display with constant keys, k a plain name)
    is read as the chain `if k == key0: T = value0 elif ... else: raise KeyError(k)`."""
    from ..index import clone, set_parents
    node = clone(fi.node)
    changed = [False]

    def rewrite(stmts):
        out = []
        for st in stmts:
            for fld in ('body', 'orelse', 'finalbody'):
                if isinstance(getattr(st, fld, None), list) and not isinstance(st, (ast.FunctionDef, ast.ClassDef)):
                    setattr(st, fld, rewrite(getattr(st, fld)))
            if isinstance(st, ast.Assign) and len(st.targets) == 1 and isinstance(st.value, ast.Subscript) and isinstance(st.value.slice, ast.Name):
                tbl = resolve(st.value.value)
                if isinstance(tbl, ast.Dict) and tbl.keys and all(isinstance(k, ast.Constant) for k in tbl.keys):
                    k = st.value.slice
                    chain = [ast.copy_location(ast.Raise(exc=ast.Call(func=ast.Name(id='KeyError', ctx=ast.Load()), args=[clone(k)], keywords=[]),
                                                         cause=None), st)]
                    for key, val in reversed(list(zip(tbl.keys, tbl.values))):
                        test = ast.Compare(left=clone(k), ops=[ast.Eq()], comparators=[clone(key)])
                        chain = [ast.copy_location(ast.If(test=test, body=[ast.copy_location(
                            ast.Assign(targets=[clone(st.targets[0])], value=clone(val)), st)], orelse=chain), st)]
                    out.extend(chain)
                    changed[0] = True
                    continue
            out.append(st)
        return out
    node.body = rewrite(node.body)
    if not changed[0]:
        return fi
    ast.fix_missing_locations(node)
    set_parents(node)
    return View(fi, node)


# ------------------------------------------------------------------ next() over a constant table, message-then-raise
def expand_next_over_tables(fi, rows_of):
    """View in which `T = next((ELT for TGT in TABLE if COND), DEFAULT)` (TABLE resolved by rows_of(expr) to a list of
    tuple rows) is read as the first-match chain `if COND(R0): T = ELT(R0) elif ... else: T = DEFAULT`; lambdas that
    come out of the rows are applied to their arguments."""
    from ..index import clone, set_parents
    node = clone(fi.node)
    changed = [False]

    def chain_for(st):
        if not (isinstance(st, ast.Assign) and len(st.targets) == 1 and isinstance(st.value, ast.Call) and isinstance(st.value.func, ast.Name)
                and st.value.func.id == 'next' and len(st.value.args) == 2 and not st.value.keywords
                and isinstance(st.value.args[0], ast.GeneratorExp) and len(st.value.args[0].generators) == 1):
            return None
        gen = st.value.args[0]
        g = gen.generators[0]
        rows = rows_of(g.iter)
        if rows is None or g.is_async:
            return None
        out = [ast.copy_location(ast.Assign(targets=[clone(st.targets[0])], value=clone(st.value.args[1])), st)]
        for row in reversed(rows):
            b = _bind_target(g.target, row)
            if b is None:
                return None
            conds = [Beta().visit(_Splice().visit(nf.subst(clone(t), b))) for t in g.ifs]
            elt = Beta().visit(_Splice().visit(nf.subst(clone(gen.elt), b)))
            leaf = ast.copy_location(ast.Assign(targets=[clone(st.targets[0])], value=elt), st)
            if not conds:
                out = [leaf]
            else:
                test = conds[0] if len(conds) == 1 else ast.BoolOp(op=ast.And(), values=conds)
                out = [ast.copy_location(ast.If(test=test, body=[leaf], orelse=out), st)]
        return out

    def rewrite(stmts):
        res = []
        for st in stmts:
            for fld in ('body', 'orelse', 'finalbody'):
                if isinstance(getattr(st, fld, None), list) and not isinstance(st, (ast.FunctionDef, ast.ClassDef)):
                    setattr(st, fld, rewrite(getattr(st, fld)))
            ch = chain_for(st)
            if ch is not None:
                res.extend(ch)
                changed[0] = True
            else:
                res.append(st)
        return res
    node.body = rewrite(node.body)
    if not changed[0]:
        return fi
    ast.fix_missing_locations(node)
    set_parents(node)
    return View(fi, node)


def fuse_message_raise(fi):
    """View in which `if c0: M = 'a' elif c1: M = 'b' else: M = None` directly followed by `if M is not None: raise E(..M..)`
    (M read nowhere else) is read as `if c0: raise E(..'a'..) elif c1: raise E(..'b'..)`."""
    from ..index import clone, set_parents, walk_own
    node = clone(fi.node)
    changed = [False]

    def leaves(st, M):
        """[(list holding the leaf, index)] of the chain's assignments to M, or None."""
        out = []
        for branch in (st.body, st.orelse):
            if len(branch) == 1 and isinstance(branch[0], ast.Assign) and len(branch[0].targets) == 1 and is_name(branch[0].targets[0], M) \
                    and isinstance(branch[0].value, ast.Constant):
                out.append((branch, 0))
            elif len(branch) == 1 and isinstance(branch[0], ast.If):
                sub = leaves(branch[0], M)
                if sub is None:
                    return None
                out.extend(sub)
            else:
                return None
        return out

    def rewrite(stmts):
        res = []
        i = 0
        while i < len(stmts):
            st = stmts[i]
            for fld in ('body', 'orelse', 'finalbody'):
                if isinstance(getattr(st, fld, None), list) and not isinstance(st, (ast.FunctionDef, ast.ClassDef)):
                    setattr(st, fld, rewrite(getattr(st, fld)))
            nxt = stmts[i + 1] if i + 1 < len(stmts) else None
            if isinstance(st, ast.If) and isinstance(nxt, ast.If) and not nxt.orelse and len(nxt.body) == 1 and isinstance(nxt.body[0], ast.Raise):
                tb = m("_M is not None", nf.canon(nxt.test))
                M = tb['_M'].id if tb is not None and isinstance(tb['_M'], ast.Name) else None
                lv = leaves(st, M) if M else None
                reads = [n for n in walk_own(node) if isinstance(n, ast.Name) and n.id == M and isinstance(n.ctx, ast.Load)] if M else []
                inside = [n for n in ast.walk(nxt) if isinstance(n, ast.Name) and n.id == M and isinstance(n.ctx, ast.Load)] if M else []
                if lv and len(reads) == len(inside):
                    for branch, k in lv:
                        val = branch[k].value
                        if val.value is None:
                            branch[k] = ast.copy_location(ast.Pass(), branch[k])
                        else:
                            branch[k] = ast.copy_location(nf._Subst({M: val}).visit(clone(nxt.body[0])), branch[k])
                    res.append(st)
                    changed[0] = True
                    i += 2
                    continue
            res.append(st)
            i += 1
        return res
    node.body = rewrite(node.body)
    if not changed[0]:
        return fi
    ast.fix_missing_locations(node)
    set_parents(node)
    return View(fi, node)


# ------------------------------------------------------------------ per-call record objects as locals
def scalarize(idx, fi):
    """View in which a local record object `P = Cls(args)` of a package class whose __init__ only stores its parameters /
    fresh empty displays into fields, and which is used through `P.field` only (never handed on, no method calls left),
    is read as one local per field (`P__field`)."""
    from ..index import clone, set_parents, walk_own
    node = clone(fi.node)
    set_parents(node)
    changed = False
    for st in [x for x in walk_own(node) if isinstance(x, ast.Assign)]:
        if not (len(st.targets) == 1 and isinstance(st.targets[0], ast.Name) and isinstance(st.value, ast.Call) and isinstance(st.value.func, ast.Name)):
            continue
        P, cname = st.targets[0].id, st.value.func.id
        ci = idx.classes.get(fi.module.name + '.' + cname)
        if ci is None or not idx.has_func(ci.qualname + '.__init__') or len(ci.mro) > 2:
            continue
        stores = [n for n in walk_own(node) if isinstance(n, ast.Name) and n.id == P and isinstance(n.ctx, (ast.Store, ast.Del))]
        loads = [n for n in walk_own(node) if isinstance(n, ast.Name) and n.id == P and isinstance(n.ctx, ast.Load)]
        init = idx.func(ci.qualname + '.__init__')
        params = list(init.params[1:])
        body = [s_ for s_ in init.node.body if not (isinstance(s_, ast.Expr) and isinstance(s_.value, ast.Constant))]
        fields = []
        ok = len(stores) == 1 and not init.node.args.vararg and not init.node.args.kwarg and not init.node.args.defaults
        for s_ in body:
            b = m(spat("self._F = _V"), s_) if False else None
            if isinstance(s_, ast.Assign) and len(s_.targets) == 1 and isinstance(s_.targets[0], ast.Attribute) and is_name(s_.targets[0].value, init.params[0]):
                v = s_.value
                fresh = (isinstance(v, (ast.List, ast.Dict, ast.Set, ast.Tuple)) and not getattr(v, 'elts', getattr(v, 'keys', None))) or (
                    isinstance(v, ast.Constant)) or (isinstance(v, ast.Call) and isinstance(v.func, ast.Name) and v.func.id in ('list', 'dict', 'set') and not v.args)
                if isinstance(v, ast.Name) and v.id in params:
                    fields.append((s_.targets[0].attr, ('param', v.id)))
                elif fresh:
                    fields.append((s_.targets[0].attr, ('fresh', v)))
                else:
                    ok = False
            else:
                ok = False
        names = [f for f, _ in fields]
        if not ok or len(set(names)) != len(names) or not fields:
            continue
        if not all(isinstance(parent(n), ast.Attribute) and parent(n).value is n and parent(n).attr in names for n in loads):
            continue
        # methods of the record must not be in play any more (the normaliser inlined them), and fields are plain data
        call = st.value
        new_stmts = None
        if len(call.args) == 1 and isinstance(call.args[0], ast.Starred) and not call.keywords \
                and [k for f, (k, _) in fields] == ['param'] * len(fields) and [v for f, (k, v) in fields] == params:
            new_stmts = [ast.Assign(targets=[ast.Tuple(elts=[ast.Name(id='%s__%s' % (P, f), ctx=ast.Store()) for f in names], ctx=ast.Store())],
                                    value=call.args[0].value)]
        elif not any(isinstance(a, ast.Starred) for a in call.args):
            try:
                bound = bind_call(call, params)
            except AnalysisError:
                continue
            if set(bound) != set(params):
                continue
            # arguments are evaluated in call order, then the fields are bound
            if [k for f, (k, _) in fields if k == 'param'] and [v for f, (k, v) in fields if k == 'param'] != params:
                if not all(isinstance(bound[q], (ast.Name, ast.Constant, ast.Attribute)) for q in params):
                    continue
            new_stmts = []
            for f, (k, v) in fields:
                new_stmts.append(ast.Assign(targets=[ast.Name(id='%s__%s' % (P, f), ctx=ast.Store())], value=bound[v] if k == 'param' else clone(v)))
        if new_stmts is None:
            continue
        par = parent(st)
        placed = False
        for fld in ('body', 'orelse', 'finalbody'):
            lst = getattr(par, fld, None)
            if isinstance(lst, list) and any(x is st for x in lst):
                i = [k for k, x in enumerate(lst) if x is st][0]
                lst[i:i + 1] = [ast.copy_location(x, st) for x in new_stmts]
                placed = True
        if not placed:
            continue
        for n in loads:
            a = parent(n)
            ga = parent(a)
            repl = ast.Name(id='%s__%s' % (P, a.attr), ctx=a.ctx)
            for f_, v_ in ast.iter_fields(ga):
                if v_ is a:
                    setattr(ga, f_, repl)
                elif isinstance(v_, list):
                    for i_, x_ in enumerate(v_):
                        if x_ is a:
                            v_[i_] = repl
        changed = True
        ast.fix_missing_locations(node)
        set_parents(node)
    if not changed:
        return fi
    return View(fi, node)


# ------------------------------------------------------------------ generators consumed by a for loop
def inline_generator_loops(idx, fi, only=None):
    """View in which `for T in gen(args): BODY` over a package generator function (yields as expression statements only, no
    return; BODY without break / continue / return of its own) is read as the generator's body with every `yield E`
    replaced by `T = E; BODY` - the order of all effects is the one of the lazy original.  Returns (view, names)."""
    from ..index import clone, set_parents, walk_own, local_names
    orig = getattr(fi, 'original', fi)
    node = clone(fi.node)
    mapping = {}
    for a, b in zip(ast.walk(fi.node), ast.walk(node)):
        if isinstance(a, ast.Call):
            mapping[id(b)] = a
    done = set()
    counter = [0]

    def escapes(stmts):
        for s_ in stmts:
            for x in ast.walk(s_):
                if isinstance(x, ast.Return):
                    return True
            stack = [s_]
            while stack:
                y = stack.pop()
                if isinstance(y, (ast.Break, ast.Continue)):
                    return True
                for c in ast.iter_child_nodes(y):
                    if not isinstance(c, (ast.For, ast.While, ast.FunctionDef, ast.Lambda)):
                        stack.append(c)
        return False

    def expand(st):
        if not isinstance(st, ast.For) or st.orelse or not isinstance(st.iter, ast.Call):
            return None
        a = mapping.get(id(st.iter))
        if a is None:
            return None
        try:
            targets, how = idx.resolve_call(orig, a)
        except Exception:
            return None
        fts = [t for t in targets if hasattr(t, 'node')]
        if len(fts) != 1 or (only is not None and fts[0].qualname not in only):
            return None
        g = fts[0]
        gn = g.node
        yields = [y for y in ast.walk(gn) if isinstance(y, (ast.Yield, ast.YieldFrom))]
        if not yields or any(isinstance(y, ast.YieldFrom) or not isinstance(parent(y), ast.Expr) for y in yields) \
                or any(isinstance(x, (ast.Return, ast.Try, ast.With, ast.FunctionDef, ast.Lambda, ast.Global, ast.Nonlocal)) and x is not gn for x in ast.walk(gn)) \
                or gn.args.vararg or gn.args.kwarg or escapes(st.body):
            return None
        params = list(g.params)
        if g.cls is not None and not g.is_static:
            if not (isinstance(st.iter.func, ast.Attribute) and is_name(st.iter.func.value, 'self') and params and params[0] == 'self'):
                return None
            params = params[1:]
        try:
            bound = bind_call(st.iter, params)
        except AnalysisError:
            return None
        if set(bound) != set(params):
            return None
        counter[0] += 1
        pre = []
        sub = {}
        for q in params:
            if isinstance(bound[q], (ast.Name, ast.Constant, ast.Attribute)):
                sub[q] = bound[q]
            else:
                tmp = '%s_g%d' % (q, counter[0])
                pre.append(ast.copy_location(ast.Assign(targets=[ast.Name(id=tmp, ctx=ast.Store())], value=bound[q]), st))
                sub[q] = ast.Name(id=tmp, ctx=ast.Load())
        ren = {n: '%s_g%d' % (n, counter[0]) for n in set(local_names(gn)) - set(g.params)}
        body = [clone(s_) for s_ in gn.body if not (isinstance(s_, ast.Expr) and isinstance(s_.value, ast.Constant))]

        def fix(stmts):
            out = []
            for s_ in stmts:
                if isinstance(s_, ast.Expr) and isinstance(s_.value, ast.Yield):
                    val = s_.value.value if s_.value.value is not None else ast.Constant(value=None)
                    out.append(ast.copy_location(ast.Assign(targets=[clone(st.target)], value=val), st))
                    out.extend(clone(b_) for b_ in st.body)
                    continue
                for fld in ('body', 'orelse', 'finalbody'):
                    if isinstance(getattr(s_, fld, None), list):
                        setattr(s_, fld, fix(getattr(s_, fld)))
                out.append(s_)
            return out
        # rename / substitute in the generator's own code first, then splice the consumer's body in
        new_body = []
        for s_ in body:
            s2 = nf._Subst(sub).visit(s_)
            for n in ast.walk(s2):
                if isinstance(n, ast.Name) and n.id in ren:
                    n.id = ren[n.id]
            new_body.append(s2)
        done.add(g.qualname)
        return pre + fix(new_body)

    def rewrite(stmts):
        out = []
        for st in stmts:
            for fld in ('body', 'orelse', 'finalbody'):
                if isinstance(getattr(st, fld, None), list) and not isinstance(st, (ast.FunctionDef, ast.ClassDef)):
                    setattr(st, fld, rewrite(getattr(st, fld)))
            rep = expand(st)
            out.extend(rep if rep is not None else [st])
        return out
    node.body = rewrite(node.body)
    if not done:
        return fi, done
    ast.fix_missing_locations(node)
    set_parents(node)
    return View(fi, node), done


def local_value(fn, v, use_stmt):
    """If v is a local name bound exactly once, by a statement of the same block as `use_stmt` and before it, with nothing
    in between that rebinds or stores into a name its value reads: that value; else v itself."""
    from ..index import walk_own
    if not isinstance(v, ast.Name):
        return v
    defs = [x for x in walk_own(fn) if (isinstance(x, (ast.Assign, ast.AugAssign)) and v.id in assigned_names(x))
            or (isinstance(x, (ast.For, ast.comprehension)) and v.id in assigned_names(x.target))]
    if len(defs) != 1 or not isinstance(defs[0], ast.Assign) or len(defs[0].targets) != 1 or not is_name(defs[0].targets[0], v.id):
        return v
    d = defs[0]
    par = parent(d)
    for fld in ('body', 'orelse', 'finalbody'):
        lst = getattr(par, fld, None)
        if isinstance(lst, list) and any(x is d for x in lst) and any(x is use_stmt for x in lst):
            i, j = [k for k, x in enumerate(lst) if x is d][0], [k for k, x in enumerate(lst) if x is use_stmt][0]
            if i >= j:
                return v
            reads = {n.id for n in ast.walk(d.value) if isinstance(n, ast.Name)}
            for mid in lst[i + 1:j]:
                for n in ast.walk(mid):
                    if isinstance(n, ast.Name) and n.id in reads and isinstance(n.ctx, (ast.Store, ast.Del)):
                        return v
                    if isinstance(n, (ast.Subscript, ast.Attribute)) and isinstance(n.ctx, (ast.Store, ast.Del)) and isinstance(n.value, ast.Name) \
                            and n.value.id in reads:
                        return v
            return d.value
    return v
