"""Constant folding of module-level table initialisers (private helper of C03).

``fold(module, name)`` computes the value a module-level name has after the module body ran, for tables built from
literals by a *closed constant computation*: a literal display, followed by subscript stores, ``.update`` calls and
``for`` loops / comprehensions over literal strings, tuples, ``zip``/``enumerate``/``range`` of those, with arithmetic,
``float``/``int``/``str`` conversions and string formatting on literals.  Only statements that write the name (or a
name it is computed from) are interpreted; every value is a Python constant, every callee a pure builtin from the
white list below.  Anything else raises AnalysisError: the table is then *undecided*, never "empty".
"""
import ast

from ..index import AnalysisError, short

MAX_STEPS = 20000
PURE = {
    'float': float, 'int': int, 'str': str, 'len': len, 'zip': lambda *a: list(zip(*a)), 'range': lambda *a: list(range(*a)),
    'enumerate': lambda it, start=0: list(enumerate(it, start)), 'dict': dict, 'list': list, 'tuple': tuple, 'set': set,
    'sorted': sorted, 'reversed': lambda x: list(reversed(x)), 'abs': abs, 'pow': pow, 'round': round, 'min': min,
    'max': max, 'sum': sum, 'bool': bool,
}
STR_METHODS = {'format', 'upper', 'lower', 'strip', 'split', 'join', 'replace', 'zfill', 'ljust', 'rjust', 'title'}
DICT_READ = {'keys', 'values', 'items', 'get', 'copy'}
DICT_WRITE = {'update', 'setdefault', 'pop', 'clear'}
LIST_WRITE = {'append', 'extend', 'insert'}
CONST_TYPES = (int, float, complex, str, bool, type(None))


class _Folder(object):
    def __init__(self, module):
        self.module = module
        self.steps = 0
        self.cache = {}
        self.active = set()

    # ------------------------------------------------------------------ module level
    def value_of(self, name):
        if name in self.cache:
            return self.cache[name]
        if name in self.active:
            raise AnalysisError('cyclic definition of %s' % name)
        self.active.add(name)
        try:
            env = {}
            bound = False
            for s in self.module.tree.body:
                if isinstance(s, (ast.FunctionDef, ast.AsyncFunctionDef, ast.ClassDef, ast.Import, ast.ImportFrom)):
                    if getattr(s, 'name', None) == name:
                        raise AnalysisError('%s is a function/class, not a table' % name)
                    continue
                if not self._writes(s, name):
                    continue
                self.exec_stmt(s, env, name)
                bound = True
            if not bound or name not in env:
                raise AnalysisError('no module-level definition of %s found' % name)
            self.cache[name] = env[name]
            return env[name]
        finally:
            self.active.discard(name)

    @staticmethod
    def _writes(stmt, name):
        for n in ast.walk(stmt):
            if isinstance(n, ast.Name) and n.id == name and isinstance(n.ctx, (ast.Store, ast.Del)):
                return True
            if isinstance(n, (ast.Subscript, ast.Attribute)) and isinstance(n.ctx, (ast.Store, ast.Del)):
                b = n.value
                while isinstance(b, (ast.Subscript, ast.Attribute)):
                    b = b.value
                if isinstance(b, ast.Name) and b.id == name:
                    return True
            if isinstance(n, ast.Call) and isinstance(n.func, ast.Attribute) and n.func.attr in (DICT_WRITE | LIST_WRITE):
                b = n.func.value
                while isinstance(b, (ast.Subscript, ast.Attribute)):
                    b = b.value
                if isinstance(b, ast.Name) and b.id == name:
                    return True
        return False

    # ------------------------------------------------------------------- statements
    def tick(self):
        self.steps += 1
        if self.steps > MAX_STEPS:
            raise AnalysisError('constant folding exceeded its step budget')

    def exec_stmt(self, s, env, name):
        self.tick()
        if isinstance(s, ast.Assign):
            v = self.eval(s.value, env)
            for t in s.targets:
                self.assign(t, v, env)
            return
        if isinstance(s, ast.AnnAssign) and s.value is not None:
            self.assign(s.target, self.eval(s.value, env), env)
            return
        if isinstance(s, ast.AugAssign):
            cur = self.eval(_load(s.target), env)
            self.assign(s.target, self.binop(s.op, cur, self.eval(s.value, env), s), env)
            return
        if isinstance(s, ast.Expr):
            if isinstance(s.value, ast.Constant):
                return
            self.eval(s.value, env)
            return
        if isinstance(s, ast.For):
            if s.orelse:
                raise AnalysisError('for/else in a table initialiser')
            for item in self.iterate(self.eval(s.iter, env), s):
                self.assign(s.target, item, env)
                for b in s.body:
                    if isinstance(b, (ast.Break, ast.Continue)):
                        raise AnalysisError('break/continue in a table initialiser')
                    self.exec_stmt(b, env, name)
            return
        if isinstance(s, ast.If):
            test = self.eval(s.test, env)
            for b in (s.body if test else s.orelse):
                self.exec_stmt(b, env, name)
            return
        if isinstance(s, ast.Pass):
            return
        if isinstance(s, ast.Delete):
            for t in s.targets:
                if isinstance(t, ast.Subscript):
                    obj = self.eval(t.value, env)
                    key = self.eval(t.slice, env)
                    if isinstance(obj, dict) and key in obj:
                        del obj[key]
                        continue
                raise AnalysisError('unsupported delete in a table initialiser: `%s`' % short(s))
            return
        raise AnalysisError('statement `%s` that builds a table is outside the constant-folding subset' % short(s, 60))

    def assign(self, t, v, env):
        if isinstance(t, ast.Name):
            env[t.id] = v
            return
        if isinstance(t, (ast.Tuple, ast.List)):
            items = self.iterate(v, t)
            if len(items) != len(t.elts) or any(isinstance(e, ast.Starred) for e in t.elts):
                raise AnalysisError('unpacking mismatch in a table initialiser')
            for e, x in zip(t.elts, items):
                self.assign(e, x, env)
            return
        if isinstance(t, ast.Subscript):
            obj = self.eval(t.value, env)
            key = self.eval(t.slice, env)
            if isinstance(obj, dict) and _hashable(key):
                obj[key] = v
                return
            if isinstance(obj, list) and isinstance(key, int):
                obj[key] = v
                return
        raise AnalysisError('unsupported store `%s` in a table initialiser' % short(t))

    def iterate(self, v, node):
        if isinstance(v, (list, tuple, str, set, frozenset)):
            return list(v)
        if isinstance(v, dict):
            return list(v)
        raise AnalysisError('cannot iterate over `%s` in a table initialiser' % short(node))

    # ------------------------------------------------------------------ expressions
    def eval(self, e, env):
        self.tick()
        if isinstance(e, ast.Constant):
            return e.value
        if isinstance(e, ast.Name):
            if e.id in env:
                return env[e.id]
            if e.id in ('True', 'False', 'None'):
                return {'True': True, 'False': False, 'None': None}[e.id]
            if e.id in self.module.assigns:
                return _copy(self.value_of(e.id))
            raise AnalysisError('name %s is not a constant the folder can see' % e.id)
        if isinstance(e, ast.Dict):
            d = {}
            for k, v in zip(e.keys, e.values):
                if k is None:
                    inner = self.eval(v, env)
                    if not isinstance(inner, dict):
                        raise AnalysisError('** of a non-dict in a table')
                    d.update(inner)
                else:
                    d[self._key(self.eval(k, env), k)] = self.eval(v, env)
            return d
        if isinstance(e, (ast.List, ast.Tuple, ast.Set)):
            items = []
            for x in e.elts:
                if isinstance(x, ast.Starred):
                    items.extend(self.iterate(self.eval(x.value, env), x))
                else:
                    items.append(self.eval(x, env))
            return items if isinstance(e, ast.List) else tuple(items) if isinstance(e, ast.Tuple) else set(items)
        if isinstance(e, (ast.DictComp, ast.ListComp, ast.SetComp, ast.GeneratorExp)):
            return self.comprehension(e, env)
        if isinstance(e, ast.BinOp):
            return self.binop(e.op, self.eval(e.left, env), self.eval(e.right, env), e)
        if isinstance(e, ast.UnaryOp):
            v = self.eval(e.operand, env)
            if isinstance(e.op, ast.USub) and _num(v):
                return -v
            if isinstance(e.op, ast.UAdd) and _num(v):
                return v
            if isinstance(e.op, ast.Not):
                return not v
            raise AnalysisError('unsupported unary operator in `%s`' % short(e))
        if isinstance(e, ast.BoolOp):
            v = None
            for x in e.values:
                v = self.eval(x, env)
                if isinstance(e.op, ast.And) and not v:
                    return v
                if isinstance(e.op, ast.Or) and v:
                    return v
            return v
        if isinstance(e, ast.Compare) and len(e.ops) == 1:
            a, b = self.eval(e.left, env), self.eval(e.comparators[0], env)
            op = e.ops[0]
            try:
                return {ast.Eq: lambda: a == b, ast.NotEq: lambda: a != b, ast.Lt: lambda: a < b, ast.LtE: lambda: a <= b,
                        ast.Gt: lambda: a > b, ast.GtE: lambda: a >= b, ast.In: lambda: a in b, ast.NotIn: lambda: a not in b,
                        ast.Is: lambda: a is b, ast.IsNot: lambda: a is not b}[type(op)]()
            except TypeError:
                raise AnalysisError('comparison `%s` not foldable' % short(e))
        if isinstance(e, ast.IfExp):
            return self.eval(e.body, env) if self.eval(e.test, env) else self.eval(e.orelse, env)
        if isinstance(e, ast.Subscript):
            obj = self.eval(e.value, env)
            if isinstance(e.slice, ast.Slice):
                parts = [self.eval(x, env) if x is not None else None for x in (e.slice.lower, e.slice.upper, e.slice.step)]
                if isinstance(obj, (list, tuple, str)):
                    return obj[slice(*parts)]
                raise AnalysisError('slice of `%s` not foldable' % short(e.value))
            key = self.eval(e.slice, env)
            try:
                return obj[key]
            except Exception:
                raise AnalysisError('subscript `%s` not foldable' % short(e))
        if isinstance(e, ast.JoinedStr):
            out = ''
            for part in e.values:
                if isinstance(part, ast.Constant):
                    out += part.value
                elif isinstance(part, ast.FormattedValue) and part.conversion == -1:
                    spec = self.eval(part.format_spec, env) if part.format_spec is not None else ''
                    out += format(self.eval(part.value, env), spec)
                else:
                    raise AnalysisError('f-string conversion not foldable')
            return out
        if isinstance(e, ast.Call):
            return self.call(e, env)
        raise AnalysisError('expression `%s` is outside the constant-folding subset' % short(e, 60))

    def comprehension(self, e, env):
        out = []

        def rec(i, cenv):
            if i == len(e.generators):
                if isinstance(e, ast.DictComp):
                    out.append((self._key(self.eval(e.key, cenv), e.key), self.eval(e.value, cenv)))
                else:
                    out.append(self.eval(e.elt, cenv))
                return
            g = e.generators[i]
            for item in self.iterate(self.eval(g.iter, cenv), g.iter):
                inner = dict(cenv)
                self.assign(g.target, item, inner)
                if all(self.eval(c, inner) for c in g.ifs):
                    rec(i + 1, inner)
        rec(0, dict(env))
        if isinstance(e, ast.DictComp):
            return dict(out)
        if isinstance(e, ast.SetComp):
            return set(out)
        return out

    def _key(self, k, node):
        if not _hashable(k):
            raise AnalysisError('unhashable key `%s` in a table' % short(node))
        return k

    def binop(self, op, a, b, node):
        self.tick()
        try:
            if isinstance(op, ast.Add):
                return a + b
            if isinstance(op, ast.Sub):
                return a - b
            if isinstance(op, ast.Mult):
                if (isinstance(a, (str, list, tuple)) and isinstance(b, int) and b > 1000) or \
                        (isinstance(b, (str, list, tuple)) and isinstance(a, int) and a > 1000):
                    raise AnalysisError('repetition too large')
                return a * b
            if isinstance(op, ast.Div):
                return a / b
            if isinstance(op, ast.FloorDiv):
                return a // b
            if isinstance(op, ast.Mod):
                return a % b
            if isinstance(op, ast.Pow):
                if _num(a) and _num(b) and abs(b) <= 400:
                    return a ** b
                raise AnalysisError('power too large to fold')
            if isinstance(op, ast.BitOr) and isinstance(a, (dict, set)) and isinstance(b, type(a)):
                return a | b
        except AnalysisError:
            raise
        except Exception as exc:
            raise AnalysisError('`%s` does not fold (%s)' % (short(node), type(exc).__name__))
        raise AnalysisError('operator in `%s` is outside the constant-folding subset' % short(node))

    def call(self, e, env):
        args = []
        for a in e.args:
            if isinstance(a, ast.Starred):
                args.extend(self.iterate(self.eval(a.value, env), a))
            else:
                args.append(self.eval(a, env))
        kwargs = {}
        for k in e.keywords:
            if k.arg is None:
                inner = self.eval(k.value, env)
                if not isinstance(inner, dict):
                    raise AnalysisError('** of a non-dict')
                kwargs.update(inner)
            else:
                kwargs[k.arg] = self.eval(k.value, env)
        f = e.func
        try:
            if isinstance(f, ast.Name) and f.id in PURE and f.id not in env and f.id not in self.module.assigns \
                    and f.id not in self.module.funcs:
                return PURE[f.id](*args, **kwargs)
            if isinstance(f, ast.Attribute):
                recv = self.eval(f.value, env)
                m = f.attr
                if isinstance(recv, str) and m in STR_METHODS:
                    return getattr(recv, m)(*args, **kwargs)
                if isinstance(recv, dict) and m in DICT_READ:
                    r = getattr(recv, m)(*args, **kwargs)
                    return list(r) if m in ('keys', 'values', 'items') else r
                if isinstance(recv, dict) and m in DICT_WRITE:
                    return getattr(recv, m)(*args, **kwargs)
                if isinstance(recv, list) and m in LIST_WRITE:
                    return getattr(recv, m)(*args, **kwargs)
                if isinstance(recv, (list, tuple, str)) and m in ('index', 'count'):
                    return getattr(recv, m)(*args)
        except AnalysisError:
            raise
        except Exception as exc:
            raise AnalysisError('`%s` does not fold (%s)' % (short(e), type(exc).__name__))
        raise AnalysisError('call `%s` is outside the constant-folding subset' % short(e, 60))


def _num(v):
    return isinstance(v, (int, float, complex)) and not isinstance(v, bool)


def _hashable(k):
    try:
        hash(k)
        return True
    except TypeError:
        return False


def _copy(v):
    if isinstance(v, dict):
        return {k: _copy(x) for k, x in v.items()}
    if isinstance(v, list):
        return [_copy(x) for x in v]
    if isinstance(v, set):
        return set(v)
    return v


def _load(t):
    from ..index import clone
    c = clone(t)
    for n in ast.walk(c):
        if hasattr(n, 'ctx'):
            n.ctx = ast.Load()
    return c


def fold(module, name):
    """Value of the module-level constant `name` (a Python constant / dict / list of constants)."""
    return _Folder(module).value_of(name)


def definition_node(module, name):
    vals = module.assigns.get(name, [])
    return vals[0] if vals else None
