"""C01 -- every grader call returns a well-formed, self-consistent edX result."""
import ast

from ..index import AnalysisError, walk_own, walk_all, unparse, short, ancestors, parent
from ..cfg import cfg_of
from .. import nf, lib
from ..selftest import Mutant, Benign

ID = 'C01'
BASE = 'mitxgraders/baseclasses.py'
LG = 'mitxgraders/listgrader.py'
FILES = [BASE, LG, 'mitxgraders/stringgrader.py', 'mitxgraders/helpers/math_helpers.py',
         'mitxgraders/formulagrader/matrixgrader.py', 'mitxgraders/formulagrader/intervalgrader.py',
         'mitxgraders/formulagrader/integralgrader.py', 'mitxgraders/formulagrader/formulagrader.py']

EXPLANATION = (
    "(D1) exit pipeline of AbstractGrader.__call__ on the CFG: every normal path from the guarded check to the return passes "
    "the key filter (a membership filter against a literal whose element set is {ok, grade_decimal, msg}; the list form covers "
    "every entry of input_list), then attempt-based credit iff configured, then the debug append iff config['debug'], then "
    "format_messages; (D2) every result dict literal of the grader modules carries ok, grade_decimal and msg (long form: "
    "input_list and overall_message), and ListGrader refuses a submission whose length differs from what grouping/answers "
    "describe before grading; (D3) every store to R['grade_decimal'] is paired, on all paths to the exit, with a store of "
    "R['ok'] derived from the new grade (or a constant consistent pair, or a reviewed conditional repair backed by the fact that "
    "consolidate_results never returns an element whose ok is True), and every literal (ok, grade) pair is consistent; "
    "(D4) grade_decimal_to_ok maps 0/1/other to False/True/'partial' and the author can pin ok only with grade 1; "
    "(D5) the debug log is read for output only under config['debug']; (D6) range facts: answer credits are validated to "
    "[0,1], consolidate_grades clamps at 0.")
NOT_DECIDED = ("values returned by author-defined comparers/subgraders/credit functions (their contracts are trusted); that msg is a str "
               "when an author's comparer returns a non-string message; numeric range of products beyond the structural facts of D6.")
ASSUMPTIONS = ["comparer return values pass through ItemGrader.standardize_cfn_return, checked as a sanitiser in D3"]

AG = 'mitxgraders.baseclasses.AbstractGrader'
KEYS = {'ok', 'grade_decimal', 'msg'}
LONG_KEYS = {'input_list', 'overall_message'}
GRADER_MODULES = ('mitxgraders.baseclasses', 'mitxgraders.listgrader', 'mitxgraders.stringgrader', 'mitxgraders.helpers.math_helpers',
                  'mitxgraders.formulagrader.matrixgrader', 'mitxgraders.formulagrader.intervalgrader',
                  'mitxgraders.formulagrader.integralgrader', 'mitxgraders.formulagrader.formulagrader',
                  'mitxgraders.comparers.comparers', 'mitxgraders.comparers.linear_comparer', 'mitxgraders.comparers.baseclasses')


def check(ctx):
    idx = ctx.index
    _CTX_INDEX[0] = idx
    d1_pipeline(ctx, idx)
    d2_keys(ctx, idx)
    d3_ok_follows_grade(ctx, idx)
    d4_ok_map(ctx, idx)
    d5_debug_gate(ctx, idx)
    d6_ranges(ctx, idx)


# ----------------------------------------------------------------------------- D1
def _literal_set(fi, expr):
    """Set of string constants a name / literal evaluates to (list/tuple/set literal), else None."""
    if isinstance(expr, ast.Name):
        vals = lib.assigned_value(fi.node, expr.id)
        if not vals and expr.id not in fi.all_params:
            vals = fi.module.assigns.get(expr.id, [])      # a module-level constant (hoisted literal)
        if len(vals) != 1:
            return None
        expr = vals[0]
    if isinstance(expr, (ast.List, ast.Tuple, ast.Set)) and all(isinstance(e, ast.Constant) and isinstance(e.value, str) for e in expr.elts):
        return {e.value for e in expr.elts}
    return None


def _key_filters(fi):
    """DictComp nodes {k: v for k, v in X.items() if k in KEYS-literal}; returns [(node, source expr X)]."""
    out = []
    for n in walk_own(fi.node):
        if isinstance(n, ast.DictComp) and len(n.generators) == 1:
            g = n.generators[0]
            src = g.iter
            if not (isinstance(src, ast.Call) and nf.callee_name(src) == 'items'):
                continue
            tgt = g.target
            if not (isinstance(tgt, ast.Tuple) and len(tgt.elts) == 2 and all(isinstance(e, ast.Name) for e in tgt.elts)):
                continue
            kname, vname = tgt.elts[0].id, tgt.elts[1].id
            if not (isinstance(n.key, ast.Name) and n.key.id == kname and isinstance(n.value, ast.Name) and n.value.id == vname):
                continue
            sets = []
            for cond in g.ifs:
                c = nf.canon(cond)
                if isinstance(c, ast.Compare) and isinstance(c.ops[0], ast.In) and isinstance(c.left, ast.Name) and c.left.id == kname:
                    sets.append(_literal_set(fi, c.comparators[0]))
            out.append((n, src.func.value, sets))
    return out


def _copy_class(fn, seed):
    """Local names joined to `seed` by plain name-to-name copies (`a = b`), in either direction."""
    pairs = []
    for n in walk_own(fn):
        if isinstance(n, ast.Assign) and len(n.targets) == 1 and isinstance(n.targets[0], ast.Name) and isinstance(n.value, ast.Name):
            pairs.append((n.targets[0].id, n.value.id))
    names = {seed}
    changed = True
    while changed:
        changed = False
        for a, b in pairs:
            if (a in names) != (b in names):
                names.update((a, b))
                changed = True
    return names


def d1_pipeline(ctx, idx):
    r = ctx.rule('D1.PIPELINE', 'every return of __call__ passes key filter -> [attempt credit] -> [debug append] -> format_messages', floor=6)
    with r:
        fi = idx.func(AG + '.__call__')
        cfg = cfg_of(fi.node)
        chk = [c for c in lib.calls_named(fi.node, 'check') if isinstance(c.func, ast.Attribute)]
        if not chk:
            raise AnalysisError('no self.check call')
        chk_nodes = [n for c in chk for n in lib.cfg_nodes_for(cfg, c)]
        cst = lib.enclosing_stmt(chk[0])
        if not (isinstance(cst, ast.Assign) and isinstance(cst.targets[0], ast.Name)):
            raise AnalysisError('the result of self.check(...) is not bound to a local name')
        res = cst.targets[0].id
        # names that denote the grading result: closed under plain copies `a = b` in either direction (after a helper was
        # inlined the checked result and the returned name are two locals joined by such a copy)
        resnames = _copy_class(fi.node, res)
        starts = [t for n in chk_nodes for t, lab in n.succs if lab != 'exc']
        filters = _key_filters(fi)
        good = []
        for node, src, sets in filters:
            where = lib.loc(fi, node)
            if not sets:
                r.violation('AbstractGrader.__call__: key filter', 'the result is copied without a membership filter: extra keys used '
                            'between nesting levels (all_awarded, individual, ...) reach edX', where, expected='if key in [ok, grade_decimal, msg]')
                continue
            s = sets[0]
            if s is None:
                r.undecided('AbstractGrader.__call__: key filter', 'filter set is not a literal', where)
                continue
            if s == LONG_KEYS and unparse(src) in resnames:
                # the top level of a several-inputs result filtered down to what edX consumes (internal extras of a nested
                # list grader dropped): a different, legitimate filter; the per-entry filter is still required below
                r.ok('AbstractGrader.__call__: long-form top-level filter', 'keeps exactly overall_message and input_list', where)
                continue
            if s != KEYS:
                r.violation('AbstractGrader.__call__: key filter', 'the filter keeps %s instead of exactly %s' % (sorted(s), sorted(KEYS)),
                            where, expected=str(sorted(KEYS)), found=str(sorted(s)))
                continue
            good.append((node, src))
        if len(good) < 2:
            if not filters:
                r.violation('AbstractGrader.__call__: key filter', 'no key filter left in __call__: results are returned with every internal key', fi.loc)
        # every normal path from check to return passes a filter statement
        fnodes = []
        for node, _ in good:
            loops = [a for a in ancestors(node) if isinstance(a, (ast.For, ast.While))]
            # for the list form the loop head stands for "every entry is filtered" (LOOPFULL is checked below)
            fnodes.extend(cfg.nodes_of(loops[0]) if loops else lib.cfg_nodes_for(cfg, node))
        if good:
            ok = cfg.must_pass(starts, fnodes, exits='return', after=False)
            w = None if ok else cfg.witness_path(starts, fnodes, [cfg.exit_return], after=False)
            r.check(ok, 'AbstractGrader.__call__: key filter on every path', 'must-pass', 'a path from the grading call to the return skips the key '
                    'filter%s' % (' (via %s)' % w[len(w) // 2] if w else ''), fi.loc)
        # the list form: inside a loop over result['input_list'] with no early exit, selected by 'input_list' in result
        for node, src in good:
            st = lib.enclosing_stmt(node)
            loops = [a for a in ancestors(node) if isinstance(a, (ast.For, ast.While))]
            test = None
            for a in ancestors(node):
                if isinstance(a, ast.If):
                    test = a
                    break
            lcomp = parent(node) if isinstance(parent(node), ast.ListComp) and parent(node).elt is node else None
            if not loops and lcomp is not None and len(lcomp.generators) == 1 and not lcomp.generators[0].ifs:
                # `X['input_list'] = [{...filter...} for entry in X['input_list']]`: every entry by construction
                env = lib.local_env(fi.node)
                it = unparse(nf.subst(lcomp.generators[0].iter, env))
                covers = "['input_list']" in it and it.split('[')[0] in resnames
                stores_back = isinstance(st, ast.Assign) and any(
                    unparse(nf.subst(t, env)).split('[')[0] in resnames and unparse(nf.subst(t, env)).endswith("['input_list']")
                    for t in st.targets)
                if covers and stores_back:
                    r.ok('AbstractGrader.__call__: list-form filter', 'applied to every entry of input_list (comprehension)', lib.loc(fi, st))
                elif not covers:
                    r.undecided('AbstractGrader.__call__: list-form filter', 'comprehension iterates `%s`, not recognised as '
                                'result[\'input_list\']' % it, lib.loc(fi, st))
                else:
                    r.violation('AbstractGrader.__call__: list-form filter', 'the filtered entries are not stored back into input_list',
                                lib.loc(fi, st))
                pos = False
                if test is not None:
                    in_body = any(st is s_ or st in ast.walk(s_) for s_ in test.body)
                    in_else = any(st is s_ or st in ast.walk(s_) for s_ in test.orelse)
                    pos = any((in_body and nf.match("'input_list' in %s" % rn, test.test) is not None) or
                              (in_else and nf.match("'input_list' not in %s" % rn, test.test) is not None) for rn in sorted(resnames))
                if pos:
                    r.ok('AbstractGrader.__call__: list-form selection', "selected by 'input_list' in result", lib.loc(fi, st))
                else:
                    r.undecided('AbstractGrader.__call__: list-form selection', 'selection of the list form not recognised', lib.loc(fi, st))
            elif loops:
                lp = loops[0]
                env = lib.local_env(fi.node)
                it = unparse(nf.subst(lp.iter, env))
                covers = "['input_list']" in it
                early = lib.loop_has_early_exit(lp)

                def _back(t):
                    return "['input_list'][" in unparse(nf.subst(t, env))
                stores_back = isinstance(st, ast.Assign) and any(_back(t) for t in st.targets)
                if isinstance(st, ast.Assign) and len(st.targets) == 1 and isinstance(st.targets[0], ast.Name):
                    tmp = st.targets[0].id
                    stores_back = any(isinstance(x, ast.Assign) and isinstance(x.value, ast.Name) and x.value.id == tmp
                                      and any(_back(t) for t in x.targets) for x in lp.body)
                if covers and not early and stores_back:
                    r.ok('AbstractGrader.__call__: list-form filter', 'applied to every entry of input_list', lib.loc(fi, lp))
                elif early:
                    r.violation('AbstractGrader.__call__: list-form filter', 'the list-form filter does not cover every entry of input_list '
                                '(early exit in the loop)', lib.loc(fi, lp))
                elif not covers:
                    r.undecided('AbstractGrader.__call__: list-form filter', 'loop iterates `%s`, not recognised as result[\'input_list\']' % it, lib.loc(fi, lp))
                else:
                    r.violation('AbstractGrader.__call__: list-form filter', 'the filtered entry is not stored back into input_list', lib.loc(fi, lp))
                pos = False
                if test is not None:
                    in_body = any(lp is s_ or lp in ast.walk(s_) for s_ in test.body)
                    in_else = any(lp is s_ or lp in ast.walk(s_) for s_ in test.orelse)
                    pos = any((in_body and nf.match("'input_list' in %s" % rn, test.test) is not None) or
                              (in_else and nf.match("'input_list' not in %s" % rn, test.test) is not None) for rn in sorted(resnames))
                if pos:
                    r.ok('AbstractGrader.__call__: list-form selection', "selected by 'input_list' in result", lib.loc(fi, lp))
                else:
                    r.undecided('AbstractGrader.__call__: list-form selection', 'selection of the list form not recognised', lib.loc(fi, lp))
            else:
                rebinding = isinstance(st, ast.Assign) and any(isinstance(t, ast.Name) and t.id in resnames for t in st.targets)
                r.check(rebinding and unparse(src) in resnames, 'AbstractGrader.__call__: single-form filter', 'result rebound to the filtered copy',
                        'the filtered copy is not what is returned (`%s`)' % short(st), lib.loc(fi, st))
        # format_messages post-dominates
        fm = lib.calls_named(fi.node, 'format_messages')
        if not fm:
            r.violation('AbstractGrader.__call__: format_messages', 'format_messages is never called: msg/overall_message may be missing and '
                        'line breaks are not rendered', fi.loc)
        else:
            fmn = [n for c in fm for n in lib.cfg_nodes_for(cfg, c)]
            ok = cfg.must_pass(starts, fmn, exits='return', after=False)
            r.check(ok, 'AbstractGrader.__call__: format_messages', 'on every normal path', 'a path returns without format_messages', lib.loc(fi, fm[0]))
            # and it comes after the filter and after the debug append
            if fnodes:
                r.check(not cfg.reaches(fmn, fnodes), 'AbstractGrader.__call__: order filter < format_messages', 'filter first',
                        'the key filter runs after format_messages', lib.loc(fi, fm[0]))
            arg_ok = fm[0].args and isinstance(fm[0].args[0], ast.Name) and fm[0].args[0].id in resnames
            rets = lib.returns_of(fi.node)
            ret_ok = all(isinstance(x.value, ast.Name) and x.value.id in resnames for x in rets)
            r.check(arg_ok and ret_ok, 'AbstractGrader.__call__: returned object', 'the formatted result is what is returned',
                    'format_messages is applied to `%s` but `%s` is returned' % (short(fm[0]), short(rets[0]) if rets else '?'), lib.loc(fi, fm[0]))
        fmt = idx.func(AG + '.format_messages')
        stores = {}
        for n in walk_own(fmt.node):
            if isinstance(n, ast.Assign) and isinstance(n.targets[0], ast.Subscript):
                k = lib.subscript_key(n.targets[0])
                stores[k] = n
        stores_computed = any(isinstance(n, ast.Assign) and isinstance(n.targets[0], ast.Subscript) and lib.subscript_key(n.targets[0]) is None
                              for n in walk_own(fmt.node))
        fmt_calls_unreviewed = False
        for c in lib.calls_in(fmt.node) if hasattr(lib, 'calls_in') else [x for x in ast.walk(fmt.node) if isinstance(x, ast.Call)]:
            try:
                targets, _how = idx.resolve_call(fmt, c)
            except Exception:
                targets = []
            if any(not isinstance(t, tuple) and t.qualname in set(getattr(idx, 'unreviewed', []) or []) for t in targets):
                fmt_calls_unreviewed = True
        for k in ('msg', 'overall_message'):
            n = stores.get(k)
            good_ = n is not None and isinstance(n.value, ast.Call) and nf.callee_name(n.value) == 'replace' and \
                any(isinstance(c, ast.Call) and nf.callee_name(c) == 'get' and c.args and nf.const_value(c.args[0]) == k
                    and len(c.args) > 1 and nf.const_value(c.args[1], None) == '' for c in ast.walk(n.value))
            if n is None and (stores_computed or fmt_calls_unreviewed):
                # the store is written through a computed key / by a helper this rule cannot read: absence of the literal
                # store is not a removal
                r.undecided("format_messages: %s" % k, 'no store with the literal key %r; format_messages stores through %s'
                            % (k, 'computed keys' if stores_computed else 'an unreviewed helper'), fmt.loc)
                continue
            r.check(good_, "format_messages: %s" % k, "set from .get(%r, '') so the key always exists as a string" % k,
                    "format_messages no longer guarantees %r (found `%s`)" % (k, short(n) if n is not None else 'no store'), fmt.loc)
        # attempt credit: control-dependent on the option, after filter, before format
        ac = lib.calls_named(fi.node, 'apply_attempt_based_credit')
        if ac:
            t = _enclosing_if(ac[0])
            gate = t is not None and lib.is_config(nf.canon(t.test), 'attempt_based_credit')
            acn = lib.cfg_nodes_for(cfg, ac[0])
            order = (not fnodes or cfg.dominates(fnodes, acn)) and (not fm or not cfg.reaches([n for c in fm for n in lib.cfg_nodes_for(cfg, c)], acn))
            r.check(gate and order, 'AbstractGrader.__call__: attempt credit', 'iff configured, after the filter, before formatting',
                    'attempt-based credit is %s' % ('not gated by its option alone' if not gate else 'applied before the key filter / after formatting'),
                    lib.loc(fi, ac[0]))
        else:
            r.violation('AbstractGrader.__call__: attempt credit', 'apply_attempt_based_credit is never called', fi.loc)


def _enclosing_if(node):
    child = node
    for a in ancestors(node):
        if isinstance(a, ast.If) and any(child is s or child in ast.walk(s) for s in a.body):
            return a
        if isinstance(a, (ast.FunctionDef, ast.Lambda)):
            return None
        child = a
    return None


# ----------------------------------------------------------------------------- D2
def d2_keys(ctx, idx):
    r = ctx.rule('D2.KEYS', 'every result literal carries ok, grade_decimal, msg; long form carries input_list and overall_message', floor=15)
    with r:
        for mn in GRADER_MODULES:
            m = idx.module(mn)
            for f in m.all_funcs:
                for n in walk_own(f.node):
                    if not isinstance(n, ast.Dict):
                        continue
                    keys = [k.value for k in n.keys if isinstance(k, ast.Constant) and isinstance(k.value, str)]
                    if len(keys) != len(n.keys):
                        continue
                    ks = set(keys)
                    if 'expect' in ks or 'comparer' in ks:
                        continue      # an *answer* description, not a result
                    if 'input_list' in ks:
                        # a several-inputs result; internal extras (a consolidated grade for a parent list grader) are legitimate
                        # exactly when AbstractGrader.__call__ filters the top level down to what edX consumes
                        extra = ks - LONG_KEYS
                        if 'overall_message' not in ks:
                            r.violation('%s: long-form literal' % f.qualname[len('mitxgraders.'):], 'a list result is built without '
                                        "['overall_message']", lib.loc(f, n))
                        elif not extra:
                            r.ok('%s: long-form literal' % f.qualname[len('mitxgraders.'):], 'has input_list and overall_message', lib.loc(f, n))
                        elif _long_top_filter(idx):
                            r.ok('%s: long-form literal' % f.qualname[len('mitxgraders.'):], 'extras %s are dropped by the top-level filter of '
                                 'AbstractGrader.__call__' % sorted(extra), lib.loc(f, n))
                        else:
                            r.undecided('%s: long-form literal' % f.qualname[len('mitxgraders.'):], 'carries %s besides input_list and '
                                        'overall_message and __call__ has no top-level filter for several-inputs results: whether the extra '
                                        'key reaches edX depends on the callers' % sorted(extra), lib.loc(f, n))
                        continue
                    if ks & {'ok', 'grade_decimal'}:
                        if _is_table_not_result(n):
                            continue
                        # a comparer may return {'grade_decimal':..., 'msg':...}: standardize_cfn_return adds ok (checked in D3)
                        if mn.startswith('mitxgraders.comparers') and 'grade_decimal' in ks:
                            r.ok('%s: comparer return literal' % f.qualname[len('mitxgraders.'):], 'sanitised by standardize_cfn_return', lib.loc(f, n), nontrivial=False)
                            continue
                        missing = KEYS - ks
                        # keys added right afterwards on the same local?
                        r.check(not missing, '%s: result literal {%s}' % (f.qualname[len('mitxgraders.'):], ', '.join(sorted(ks))),
                                'has ok, grade_decimal, msg', 'a result dictionary is built without %s: `%s`' % (sorted(missing), short(n)),
                                lib.loc(f, n), expected=str(sorted(KEYS)), found=str(sorted(ks)))
                    elif 'input_list' in ks or 'overall_message' in ks:
                        need = {'input_list', 'overall_message'}
                        r.check(need <= ks, '%s: long-form literal' % f.qualname[len('mitxgraders.'):], 'has input_list and overall_message',
                                'a list result is built without %s' % sorted(need - ks), lib.loc(f, n))
        # ListGrader: the length of the submission is validated before grading (so input_list has one entry per input)
        pc = idx.func('mitxgraders.listgrader.ListGrader.perform_check')
        vs = lib.calls_named(pc.node, 'validate_submission')
        graders = lib.calls_named(pc.node, ('get_ordered_input_list', 'find_optimal_order', 'groupify_list'))
        if not vs:
            r.violation('ListGrader.perform_check: validate_submission', 'the submission length is never validated: input_list may not have one entry per input', pc.loc)
        else:
            r.check(lib.dominated(pc, vs, graders), 'ListGrader.perform_check: validate_submission', 'dominates grouping and grading',
                    'grading can start before the submission length was validated', lib.loc(pc, vs[0]))
        vsf = idx.func('mitxgraders.listgrader.ListGrader.validate_submission')
        n_checks = 0
        for p in nf.decision_paths(vsf.node.body):
            if p.leaf.kind != 'raise':
                continue
            last = p.guards[-1] if p.guards else None
            n_checks += 1
            res = nf.classify(["len(self.config['grouping']) != len(student_list)", "len(answers) != len(student_list)"], last) if last is not None else nf.UNRECOGNISED
            if res == nf.MATCH:
                r.ok('ListGrader.validate_submission: length test', unparse(last), lib.loc(vsf, p.leaf.stmt))
            elif isinstance(res, tuple):
                r.violation('ListGrader.validate_submission: length test', 'the submission is refused only when `%s`: %s; a submission of another '
                            'length is graded and input_list no longer has one entry per input' % (unparse(last), res[1]), lib.loc(vsf, p.leaf.stmt),
                            expected='len(...) != len(student_list)')
            else:
                r.undecided('ListGrader.validate_submission: length test', 'test not recognised: %s' % short(last), lib.loc(vsf, p.leaf.stmt))
            r.check(nf.exc_class_name(p.leaf.expr) == 'ConfigError', 'ListGrader.validate_submission: error class', 'ConfigError',
                    'raises %s' % nf.exc_class_name(p.leaf.expr), lib.loc(vsf, p.leaf.stmt))
        if n_checks == 0:
            r.violation('ListGrader.validate_submission', 'no refusal at all: the submission length is never validated', vsf.loc)
        elif n_checks < 2:
            r.undecided('ListGrader.validate_submission', 'expected two length checks (grouping / answers), recognised %d raise path(s): '
                        'the refusals may have been merged into one' % n_checks, vsf.loc)
        # perform_check returns the long form built from ungroupify_list
        rets = lib.returns_of(pc.node)
        for ret in rets:
            v = ret.value
            okv = isinstance(v, ast.Dict) and (set(lib.dict_literal_keys(v)) == LONG_KEYS or
                                               (set(lib.dict_literal_keys(v)) > LONG_KEYS and _long_top_filter(idx)))
            src = None
            if okv:
                src = lib.inline_locals(v.values[lib.dict_literal_keys(v).index('input_list')], pc.node)
            r.check(okv and src is not None and any(isinstance(c, ast.Call) and nf.callee_name(c) == 'ungroupify_list' for c in ast.walk(src)),
                    'ListGrader.perform_check: return', 'input_list = ungroupify_list(...)', 'input_list is not the un-grouped list: `%s`' % short(v), lib.loc(pc, ret))


def _long_top_filter(idx):
    """AbstractGrader.__call__ rebinds the several-inputs result to a copy filtered to exactly overall_message / input_list."""
    fi = idx.func(AG + '.__call__')
    for node, src, sets in _key_filters(fi):
        st = lib.enclosing_stmt(node)
        if sets and sets[0] == LONG_KEYS and isinstance(st, ast.Assign) and st.value is node and \
                any(isinstance(t, ast.Name) and t.id == unparse(src) for t in st.targets):
            return True
    return False


def _is_table_not_result(d):
    return False


# ----------------------------------------------------------------------------- D3
OK_FUNC = 'grade_decimal_to_ok'


def _sub_base_key(t):
    if isinstance(t, ast.Subscript) and isinstance(t.value, ast.Name) and isinstance(t.slice, ast.Constant):
        return t.value.id, t.slice.value
    return None, None


def _stores(fn, key):
    out = []
    for n in walk_own(fn):
        if isinstance(n, (ast.Assign, ast.AugAssign)):
            ts = n.targets if isinstance(n, ast.Assign) else [n.target]
            for t in ts:
                b, k = _sub_base_key(t)
                if k == key:
                    out.append((n, b))
    return out


ACCEPTED_REPAIR_GUARDS = ["_R['ok'] == 'partial'", "_R['ok'] is not True", "_R['ok'] != True", "_R['ok'] is not False",
                          "_R['ok'] != False", "_R['ok'] in ('partial', True)", "_R['ok']"]


def d3_ok_follows_grade(ctx, idx):
    r = ctx.rule('D3.PAIR', "every store to R['grade_decimal'] is paired with a consistent store to R['ok']; literal pairs are consistent", floor=15)
    with r:
        n_sites = 0
        for mn in GRADER_MODULES:
            m = idx.module(mn)
            for f in m.all_funcs:
                gs = _stores(f.node, 'grade_decimal')
                if not gs:
                    continue
                cfg = cfg_of(f.node)
                oks = _stores(f.node, 'ok')
                for st, base in gs:
                    n_sites += 1
                    construct = "%s: store %s['grade_decimal']" % (f.qualname[len('mitxgraders.'):], base)
                    where = lib.loc(f, st)
                    t = _enclosing_if(st)
                    if t is not None and nf.match("'input_list' in %s" % base, t.test) is not None:
                        r.ok(construct, 'long-form dict (consolidated grade used only as a cost); no ok field', where, nontrivial=False)
                        continue
                    sn = cfg.nodes_of(st)
                    value = st.value if isinstance(st, ast.Assign) else None
                    cands = [(o, b) for o, b in oks if b == base]
                    verdict = None
                    for o, _ in cands:
                        on = cfg.nodes_of(o)
                        ov = o.value if isinstance(o, ast.Assign) else None
                        if ov is None:
                            continue
                        const_pair = value is not None and ((nf.const_value(value, 'x') in (0, 0.0) and nf.const_value(value, 'x') is not False and nf.const_value(ov, 'x') is False)
                                                            or (nf.const_value(value, 'x') in (1, 1.0) and nf.const_value(value, 'x') is not True and nf.const_value(ov, 'x') is True))
                        if const_pair:
                            if cfg.must_pass(sn, on, exits='return') or cfg.dominates(on, sn):
                                verdict = ('ok', 'constant pair (%s, %s)' % (unparse(ov), unparse(value)))
                                break
                            continue
                        if isinstance(ov, ast.Call) and nf.callee_name(ov) == OK_FUNC and ov.args:
                            arg = ov.args[0]
                            reads_field = nf.match("%s['grade_decimal']" % base, arg) is not None
                            same_local = value is not None and isinstance(arg, ast.Name) and isinstance(value, ast.Name) and arg.id == value.id
                            if not (reads_field or same_local):
                                continue
                            if cfg.must_pass(sn, on, exits='return'):
                                # and the grade is not changed again after the last ok store without another ok store: covered since
                                # every grade store is checked on its own
                                verdict = ('ok', 'ok recomputed from the new grade on every path to the exit')
                                break
                            # conditional repair
                            it = _enclosing_if(o)
                            if it is not None:
                                tn = cfg.nodes_of(it)
                                guard_ok = any(nf.match(g.replace('_R', base), it.test) is not None for g in ACCEPTED_REPAIR_GUARDS)
                                if guard_ok and cfg.must_pass(sn, tn, exits='return'):
                                    covers_true = any(nf.match(g.replace('_R', base), it.test) is not None
                                                      for g in ACCEPTED_REPAIR_GUARDS[1:3] + ACCEPTED_REPAIR_GUARDS[3:])
                                    fact = True if covers_true else _true_results_never_returned(idx, f, base, r)
                                    if fact:
                                        verdict = ('ok', 'conditional repair `if %s` + consolidate_results never returns an ok=True element' % unparse(it.test))
                                        break
                                    if fact is None:
                                        verdict = ('undecided', 'conditional repair `if %s` relies on consolidate_results never returning an ok=True '
                                                   'element, whose shape is not recognised' % unparse(it.test))
                                        break
                    if verdict is None:
                        # a store of ok that follows on every path and is computed from the new grade by something this rule cannot
                        # read (a callable held in a local object, a method of a per-call accumulator): not an absence
                        for o, _ in cands:
                            ov = o.value if isinstance(o, ast.Assign) else None
                            if ov is None or not isinstance(ov, ast.Call) or nf.callee_name(ov) == OK_FUNC:
                                continue
                            uses_new = any(nf.match("%s['grade_decimal']" % base, a) is not None or
                                           (value is not None and isinstance(a, ast.Name) and isinstance(value, ast.Name) and a.id == value.id)
                                           for a in ov.args)
                            if uses_new and cfg.must_pass(sn, cfg.nodes_of(o), exits='return'):
                                verdict = ('undecided', "%s['ok'] is recomputed from the new grade by `%s`, which is not recognisably %s"
                                           % (base, short(ov), OK_FUNC))
                                break
                    if verdict and verdict[0] == 'undecided':
                        r.undecided(construct, verdict[1], where)
                    elif verdict:
                        r.ok(construct, verdict[1], where)
                    else:
                        r.violation(construct, "`%s` changes the grade but no store of %s['ok'] derived from the new grade follows on every path to "
                                    "the exit: a result can leave with ok and grade_decimal disagreeing (e.g. ok='partial' or True with grade 0)"
                                    % (short(st), base), where, expected="%s['ok'] = grade_decimal_to_ok(%s['grade_decimal'])" % (base, base))
                # an ok store whose grade partner is missing (ok changed alone)
                for o, base in oks:
                    ov = o.value if isinstance(o, ast.Assign) else None
                    if ov is not None and isinstance(ov, ast.Constant) and not any(b == base for _, b in gs):
                        r.violation("%s: store %s['ok']" % (f.qualname[len('mitxgraders.'):], base), "ok is set to %s but grade_decimal is not "
                                    "set alongside" % unparse(ov), lib.loc(f, o))
        # literal pairs
        for mn in GRADER_MODULES:
            m = idx.module(mn)
            for f in m.all_funcs:
                env = lib.local_env(f.node)
                for n in walk_own(f.node):
                    if not isinstance(n, ast.Dict):
                        continue
                    keys = lib.dict_literal_keys(n)
                    if len(keys) != len(n.keys) or 'ok' not in keys or 'grade_decimal' not in keys or 'expect' in keys:
                        continue
                    if mn.startswith('mitxgraders.comparers'):
                        continue      # comparer returns are re-derived by standardize_cfn_return (checked below)
                    okv = n.values[keys.index('ok')]
                    gv = n.values[keys.index('grade_decimal')]
                    construct = '%s: literal pair (%s, %s)' % (f.qualname[len('mitxgraders.'):], short(okv, 40), short(gv, 40))
                    verdict = _pair_verdict(okv, gv, env)
                    if verdict is None and isinstance(okv, ast.Name):
                        # `ok` assigned in several places (pass-through of the comparer's verdict, re-derived when it was 'partial'):
                        # every re-derivation must use the very grade that is stored next to it
                        gx = nf.subst(gv, env)
                        contribs = [a.value for a in walk_own(f.node) if isinstance(a, ast.Assign)
                                    and any(isinstance(t, ast.Name) and t.id == okv.id for t in a.targets)]
                        derived = [c for c in contribs if isinstance(c, ast.Call) and nf.callee_name(c) == OK_FUNC and c.args]
                        passed = [c for c in contribs if _sub_base_key(c)[1] == 'ok']
                        if derived and len(derived) + len(passed) == len(contribs):
                            bad = [c for c in derived if not nf.equal(nf.subst(c.args[0], env), gx)]
                            if not bad:
                                verdict = True
                            else:
                                arg = nf.subst(bad[0].args[0], env)
                                inside = any(nf.equal(arg, x) for x in ast.walk(gx)) and isinstance(gx, ast.BinOp)
                                if inside:
                                    r.violation(construct, "ok is re-derived from `%s`, but the grade stored next to it is `%s`: after scaling by the answer's credit a "
                                                "partial verdict can reach grade 0 (or 1) while ok stays 'partial' (ok and grade_decimal disagree)"
                                                % (short(arg), short(gx)), lib.loc(f, n), expected='grade_decimal_to_ok(<the stored grade>)')
                                    continue
                    if verdict is True:
                        r.ok(construct, 'consistent', lib.loc(f, n))
                    elif verdict is False:
                        r.violation(construct, 'inconsistent (ok, grade_decimal) pair in a result literal: `%s`' % short(n), lib.loc(f, n),
                                    expected="(False, 0) | (True, 1) | ('partial', 0<g<1) | (grade_decimal_to_ok(g), g) | (X['ok'], X['grade_decimal'])")
                    else:
                        r.undecided(construct, 'pair not recognised', lib.loc(f, n))
        # sanitiser: standardize_cfn_return derives ok from grade_decimal and is on every path from a comparer to a result
        sc = idx.func('mitxgraders.baseclasses.ItemGrader.standardize_cfn_return')
        derived = False
        for p in nf.decision_paths(sc.node.body):
            if p.leaf.kind == 'ret' and isinstance(p.leaf.expr, ast.Dict) and not p.guards[-1:] == []:
                pass
        for p in nf.decision_paths(sc.node.body):
            if p.leaf.kind == 'ret' and isinstance(p.leaf.expr, ast.Dict):
                keys = lib.dict_literal_keys(p.leaf.expr)
                okv = p.leaf.expr.values[keys.index('ok')] if 'ok' in keys else None
                gv = p.leaf.expr.values[keys.index('grade_decimal')] if 'grade_decimal' in keys else None
                if okv is not None and isinstance(okv, ast.Call) and nf.callee_name(okv) == OK_FUNC and nf.equal(okv.args[0], gv):
                    derived = True
        # the three scalar verdict forms: decision over the complete domain of comparer returns {True, False, 'partial'
        # (any case), a dictionary}; data stays symbolic, only the class of `value` drives the guards
        vname = sc.params[-1]
        want = {'True': (True, (1, 1.0)), 'False': (False, (0, 0.0)), "'partial'": ('partial', (0.5,)), "'PARTIAL'": ('partial', (0.5,))}
        reps = {'True': True, 'False': False, "'partial'": 'partial', "'PARTIAL'": 'PARTIAL'}
        paths = nf.decision_paths(sc.node.body)
        for label, rep in reps.items():
            chosen = None
            unknown = False
            raises = False
            for p in paths:
                tvs = []
                for g in p.guards:
                    t = _eval_value_guard(g, vname, rep)
                    tvs.append(t)
                    if t is not True:
                        break
                if tvs and tvs[-1] == 'raise':
                    raises = True
                    break
                if any(t is None for t in tvs):
                    unknown = True
                    break
                if all(t is True for t in tvs):
                    chosen = p
                    break
            construct = 'ItemGrader.standardize_cfn_return(%s)' % label
            if raises:
                r.violation(construct, 'evaluating the tests of standardize_cfn_return for a comparer verdict of %s calls a string method on a '
                            'non-string: AttributeError instead of a standardised result' % label, sc.loc)
                continue
            if unknown or chosen is None:
                r.undecided(construct, 'guards not evaluable over the comparer-return classes', sc.loc)
                continue
            e = chosen.leaf.expr
            okw, gw = want[label]
            good = False
            if chosen.leaf.kind == 'ret' and isinstance(e, ast.Dict):
                keys = lib.dict_literal_keys(e)
                if 'ok' in keys and 'grade_decimal' in keys:
                    okv = nf.const_value(e.values[keys.index('ok')], '?')
                    gv = nf.const_value(e.values[keys.index('grade_decimal')], '?')
                    if isinstance(e.values[keys.index('ok')], ast.Name) and isinstance(e.values[keys.index('grade_decimal')], ast.Name):
                        # the record is filled from values computed elsewhere (a helper's result): not decided here
                        r.undecided(construct, 'the standardised record is built from computed values (`%s`), not from constants' % short(e), sc.loc)
                        continue
                    good = (okv is okw or (okv == okw and type(okv) is type(okw))) and gv in gw and not isinstance(gv, bool)
            r.check(good, construct, 'returns (%r, %s)' % (okw, gw[0]),
                    'a comparer verdict of %s is standardised to `%s` instead of ok=%r with grade %s' % (label, short(e) if e is not None else chosen.leaf.kind, okw, gw[0]),
                    lib.loc(sc, chosen.leaf.stmt or sc.node), expected='ok=%r, grade_decimal=%s' % (okw, gw[0]))
        r.check(derived, 'ItemGrader.standardize_cfn_return', 'dictionary form: ok = grade_decimal_to_ok(grade_decimal)',
                'the sanitiser no longer derives ok from grade_decimal for dictionary returns of comparers', sc.loc)
        ce = idx.func('mitxgraders.helpers.math_helpers.MathMixin.compare_evaluations')
        pname = 'comparer' if 'comparer' in ce.params else None
        if pname is None:
            raise AnalysisError('compare_evaluations: parameter comparer vanished')
        comp_calls = [c for c in walk_all(ce.node) if isinstance(c, ast.Call) and isinstance(c.func, ast.Name) and c.func.id == pname]
        std_aliases = {'standardize_cfn_return'}
        for n in walk_all(ce.node):
            if isinstance(n, ast.Assign) and len(n.targets) == 1 and isinstance(n.targets[0], ast.Name) and \
                    isinstance(n.value, ast.Attribute) and n.value.attr == 'standardize_cfn_return':
                std_aliases.add(n.targets[0].id)
        if not comp_calls:
            r.undecided('MathMixin.compare_evaluations', 'no direct call of the comparer found', ce.loc)
        for c in comp_calls:
            par = parent(c)
            wrapped = isinstance(par, ast.Call) and nf.callee_name(par) in std_aliases and any(a is c for a in par.args)
            via_local = False
            st = lib.enclosing_stmt(c)
            if not wrapped and isinstance(st, ast.Assign) and st.value is c and len(st.targets) == 1 and isinstance(st.targets[0], ast.Name):
                name = st.targets[0].id
                fn_scope = lib.enclosing_function(c) or ce.node
                uses = [n for n in ast.walk(fn_scope) if isinstance(n, ast.Name) and n.id == name and isinstance(n.ctx, ast.Load)]
                via_local = bool(uses) and all(isinstance(parent(u), ast.Call) and nf.callee_name(parent(u)) in std_aliases for u in uses)
            if wrapped or via_local:
                r.ok('MathMixin.compare_evaluations: comparer(...) result', 'passes standardize_cfn_return', lib.loc(ce, c))
            elif isinstance(st, ast.Assign) and st.value is c:
                r.violation('MathMixin.compare_evaluations: comparer(...) result', 'a comparer result is used without standardize_cfn_return: '
                            'ok/grade_decimal/msg of comparer returns are no longer normalised', lib.loc(ce, c))
            else:
                r.undecided('MathMixin.compare_evaluations: comparer(...) result', 'flow of the comparer result not recognised: `%s`' % short(st), lib.loc(ce, c))


def _true_results_never_returned(idx, f, base, r):
    """consolidate_results returns a per-sample element only under `element['ok'] != True`.

    True / False (an unguarded element is returned) / None (shape not recognised)."""
    cr = idx.func('mitxgraders.helpers.math_helpers.MathMixin.consolidate_results')
    if not lib.calls_named(f.node, 'consolidate_results'):
        return None
    results_param = cr.params[0] if cr.params else 'results'
    # names that hold elements of `results` filtered by ok != True, and names that hold unfiltered elements
    filtered, unfiltered = set(), set()
    tests = ("%s['ok'] != True", "%s['ok'] is not True")

    def is_failing_filter(gen):
        t = gen.target
        if not isinstance(t, ast.Name) or unparse(gen.iter) != results_param:
            return None
        return any(any(nf.match(g % t.id, c) is not None for g in tests) for c in gen.ifs)
    gen_names = {}
    for n in walk_own(cr.node):
        if isinstance(n, ast.Assign) and len(n.targets) == 1 and isinstance(n.targets[0], ast.Name) and \
                isinstance(n.value, (ast.GeneratorExp, ast.ListComp)) and len(n.value.generators) == 1 and \
                isinstance(n.value.elt, ast.Name) and isinstance(n.value.generators[0].target, ast.Name) and \
                n.value.elt.id == n.value.generators[0].target.id:
            flt = is_failing_filter(n.value.generators[0])
            if flt is not None:
                gen_names[n.targets[0].id] = flt
    for loop in lib.loops_of(cr.node):
        if not isinstance(loop, ast.For):
            return None
        it = loop.iter
        tgt = loop.target
        if isinstance(it, ast.Call) and nf.callee_name(it) == 'enumerate' and it.args and isinstance(tgt, ast.Tuple) and len(tgt.elts) == 2:
            it, tgt = it.args[0], tgt.elts[1]
        if not isinstance(tgt, ast.Name):
            return None
        src = unparse(it)
        if src == results_param:
            unfiltered.add((tgt.id, loop))
        elif src in gen_names:
            (filtered if gen_names[src] else unfiltered).add((tgt.id, loop))
        else:
            return None
    decided = False
    for ret in lib.returns_of(cr.node):
        v = ret.value
        if isinstance(v, ast.Subscript) and unparse(v.value) in gen_names:
            if not gen_names[unparse(v.value)]:
                return False
            decided = True
            continue
        if isinstance(v, ast.Subscript) and unparse(v.value) == results_param:
            return None
        if not isinstance(v, ast.Name):
            continue
        if any(v.id == name for name, _ in filtered):
            decided = True
            continue
        hit = [lp for name, lp in unfiltered if name == v.id]
        if hit:
            guarded = False
            for a in ancestors(ret):
                if isinstance(a, ast.If) and any(nf.match(g % v.id, a.test) is not None for g in tests + ("not %s['ok'] is True",)):
                    if any(ret in ast.walk(s_) for s_ in a.body):
                        guarded = True
                if a is hit[0]:
                    break
            if not guarded:
                return False
            decided = True
    return True if decided or not (filtered or unfiltered) else None


_DICT = object()


def _eval_value_guard(g, vname, rep):
    """Truth of a guard of standardize_cfn_return for a comparer return of class `rep`
    (True / False / 'partial' / 'PARTIAL' / a dict); None if the guard is outside the evaluated forms."""
    def val(e):
        if isinstance(e, ast.Name) and e.id == vname:
            return rep
        if isinstance(e, ast.Constant):
            return e.value
        if isinstance(e, ast.Call) and isinstance(e.func, ast.Attribute) and e.func.attr in ('lower', 'upper', 'strip', 'casefold') \
                and not e.args:
            base = val(e.func.value)
            if isinstance(base, str):
                return getattr(base, e.func.attr)()
            if base is _Unknown or base is _Raises:
                return base
            return _Raises       # bool / dict have no such method: AttributeError at run time
        if isinstance(e, (ast.Tuple, ast.List, ast.Set)):
            vs = [val(x) for x in e.elts]
            return _Unknown if any(v is _Unknown for v in vs) else tuple(vs)
        return _Unknown
    if isinstance(g, ast.UnaryOp) and isinstance(g.op, ast.Not):
        t = _eval_value_guard(g.operand, vname, rep)
        return t if t in (None, 'raise') else (not t)
    if isinstance(g, ast.BoolOp):
        # left-to-right with short-circuit, as Python evaluates it
        for v in g.values:
            t = _eval_value_guard(v, vname, rep)
            if t is None or t == 'raise':
                return t
            if isinstance(g.op, ast.And) and t is False:
                return False
            if isinstance(g.op, ast.Or) and t is True:
                return True
        return isinstance(g.op, ast.And)
    if isinstance(g, ast.Call) and isinstance(g.func, ast.Name) and g.func.id == 'isinstance' and len(g.args) == 2:
        v = val(g.args[0])
        if v is _Unknown:
            return None
        names = [unparse(c).split('.')[-1] for c in (g.args[1].elts if isinstance(g.args[1], ast.Tuple) else [g.args[1]])]
        kinds = {'str': isinstance(v, str), 'bool': isinstance(v, bool), 'dict': v is _DICT,
                 'int': isinstance(v, bool), 'Number': isinstance(v, bool), 'Mapping': v is _DICT}
        if any(n not in kinds for n in names):
            return None
        return any(kinds[n] for n in names)
    if isinstance(g, ast.Compare) and len(g.ops) == 1:
        a, b = val(g.left), val(g.comparators[0])
        if a is _Raises or b is _Raises:
            return 'raise'
        if a is _Unknown or b is _Unknown:
            return None
        if a is _DICT or b is _DICT:
            eq = a is b
        else:
            eq = a == b
        op = type(g.ops[0])
        if op is ast.Eq:
            return eq
        if op is ast.NotEq:
            return not eq
        if op is ast.Is:
            return a is b
        if op is ast.IsNot:
            return a is not b
        if op in (ast.In, ast.NotIn) and isinstance(b, tuple):
            r_ = any((a is x) if (a is _DICT or x is _DICT) else (a == x) for x in b)
            return r_ if op is ast.In else not r_
        return None
    if isinstance(g, ast.Name) and g.id == vname:
        return bool(rep) if rep is not _DICT else None
    return None


class _UnknownType(object):
    pass


_Unknown = _UnknownType()
_Raises = _UnknownType()


def _pair_verdict(okv, gv, env):
    okc = nf.const_value(okv, 'x')
    gc = nf.const_value(gv, 'x')
    if okc != 'x' and gc != 'x' and isinstance(okv, ast.Constant) and isinstance(gv, ast.Constant):
        if isinstance(gc, bool) or not isinstance(gc, (int, float)):
            return False
        if okc is False:
            return gc == 0
        if okc is True:
            return gc == 1
        if okc == 'partial':
            return 0 < gc < 1
        return False
    okx = nf.subst(okv, env)
    gx = nf.subst(gv, env)
    if isinstance(okx, ast.Call) and nf.callee_name(okx) == OK_FUNC and okx.args and nf.equal(okx.args[0], gx):
        return True
    if isinstance(okx, ast.Call) and nf.callee_name(okx) == OK_FUNC and okx.args and nf.equal(nf.subst(okx.args[0], env), gx):
        return True
    b1, k1 = _sub_base_key(okv)
    b2, k2 = _sub_base_key(gv)
    if b1 is not None and b1 == b2 and k1 == 'ok' and k2 == 'grade_decimal':
        return True
    if isinstance(okv, ast.Constant) != isinstance(gv, ast.Constant):
        # one side constant, other computed: only (False, 0)-style constants allowed with a computed partner known to agree
        return None
    return None


# ----------------------------------------------------------------------------- D4
def d4_ok_map(ctx, idx):
    r = ctx.rule('D4.NF', "grade_decimal_to_ok maps 0 -> False, 1 -> True, else 'partial'; ok can be pinned only with grade 1", floor=4)
    with r:
        f = idx.func(AG + '.' + OK_FUNC)
        table = _eval_ok_map(f)
        want = {0: False, 1: True, 0.5: 'partial'}
        if table is None:
            r.undecided(OK_FUNC, 'implementation shape not recognised', f.loc)
        else:
            for k, v in want.items():
                got = table.get(k, '<missing>')
                r.check(got is v or (got == v and type(got) is type(v)), '%s(%s)' % (OK_FUNC, k), repr(v),
                        'grade %s is mapped to %r instead of %r' % (k, got, v), f.loc, expected=repr(v), found=repr(got))
            seen_kinds = set()
            for kind, node in _OK_MAP_NOTES:
                if kind in seen_kinds:
                    continue
                seen_kinds.add(kind)
                if kind == 'compare':
                    r.violation('%s: returned value' % OK_FUNC, 'the value of the comparison `%s` is returned: for a numpy scalar grade (comparers and '
                                'averages produce numpy.float64) that is numpy.bool_, not the singleton True/False, and the consumers test identity '
                                '(`entry[\'ok\'] is True` in ListGrader.check zeroes a fully correct submission under partial_credit=False)'
                                % short(node), lib.loc(f, node), expected='the constants True / False (dict lookup, or bool(...))')
                elif kind == 'lossy-key':
                    r.violation('%s: lookup key' % OK_FUNC, 'the lookup key is `%s`, a rounded grade: a grade strictly between 0 and 1 that rounds to 0 or 1 '
                                '(e.g. a partial grade scaled by a small attempt credit) is mapped to False / True while grade_decimal keeps its '
                                'value, so ok and grade_decimal disagree' % short(node), lib.loc(f, node), expected='the grade itself')
        vs = idx.func('mitxgraders.baseclasses.ItemGrader.validate_single_answer')
        _d4_pin_table(r, vs)


def _pin_atom(e, b):
    """('computed', polarity) for `b['ok'] ==/!= 'computed'`, ('partial', polarity) for `b['grade_decimal'] !=/== 1`."""
    if isinstance(e, ast.Compare) and len(e.ops) == 1 and isinstance(e.ops[0], (ast.Eq, ast.NotEq)):
        left, right = e.left, e.comparators[0]
        if isinstance(left, ast.Constant) and not isinstance(right, ast.Constant):
            left, right = right, left
        bb, k = _sub_base_key(left)
        if bb == b and isinstance(right, ast.Constant):
            if k == 'ok' and right.value == 'computed':
                return 'computed', isinstance(e.ops[0], ast.Eq)
            if k == 'grade_decimal' and right.value == 1 and not isinstance(right.value, bool):
                return 'partial', isinstance(e.ops[0], ast.NotEq)
    return None


def _pin_eval3(e, val, b):
    if isinstance(e, ast.Constant) and isinstance(e.value, bool):
        return e.value
    if isinstance(e, ast.BoolOp):
        vs_ = [_pin_eval3(v, val, b) for v in e.values]
        if isinstance(e.op, ast.And):
            return False if any(v is False for v in vs_) else (True if all(v is True for v in vs_) else None)
        return True if any(v is True for v in vs_) else (False if all(v is False for v in vs_) else None)
    if isinstance(e, ast.UnaryOp) and isinstance(e.op, ast.Not):
        v = _pin_eval3(e.operand, val, b)
        return None if v is None else (not v)
    a = _pin_atom(e, b)
    if a is not None:
        return val[a[0]] if a[1] else (not val[a[0]])
    return None


def _pin_value(e, val, b):
    """What a value stored into b['ok'] is, under a valuation of the two atoms: kept / computed / computed-other / true / other / unknown."""
    if isinstance(e, ast.IfExp):
        t = _pin_eval3(e.test, val, b)
        if t is None:
            return 'unknown'
        return _pin_value(e.body if t else e.orelse, val, b)
    bb, k = _sub_base_key(e)
    if bb == b and k == 'ok':
        return 'kept'
    if isinstance(e, ast.Call) and nf.callee_name(e) == OK_FUNC and len(e.args) == 1:
        ab, ak = _sub_base_key(e.args[0])
        return 'computed' if (ab == b and ak == 'grade_decimal') else 'computed-other'
    if isinstance(e, ast.Constant) and e.value is True:
        return 'true'
    return 'other'


def _d4_pin_table(r, vs):
    """validate_single_answer: the ok an answer ends up with, decided over the truth table of (ok == 'computed',
    grade_decimal != 1): computed from the grade in three cases, the author's own value only for a full-marks answer with an
    explicit ok -- whatever the layout (one compound test, guard clauses, a first-match table turned into a conditional
    expression)."""
    import itertools
    stores = _stores(vs.node, 'ok')
    bases = sorted({b for _, b in stores if b})
    if len(bases) > 1:
        r.undecided('ItemGrader.validate_single_answer: pin condition', 'ok is stored on several objects: %s' % bases, vs.loc)
        return
    if not bases:
        # nothing here writes ok: with every helper of the function inlined that is a definite absence (finalize downgrades it
        # when an un-inlined helper is called from here)
        r.violation('ItemGrader.validate_single_answer', "ok is never computed from grade_decimal: 'computed' reaches results as ok", vs.loc)
        return
    b = bases[0]
    paths = [p for p in nf.decision_paths(vs.node.body, keep_locals=(b,)) if p.leaf.kind != 'raise']
    wrong, unknown = [], []
    for computed, partial in itertools.product((False, True), repeat=2):
        val = {'computed': computed, 'partial': partial}
        outcomes = set()
        for p in paths:
            gs = [_pin_eval3(g, val, b) for g in p.guards]
            if any(g is False for g in gs):
                continue
            final = 'kept'
            for e in p.effects:
                for n in ast.walk(e):
                    if isinstance(n, ast.Assign) and any(_sub_base_key(t) == (b, 'ok') for t in n.targets):
                        final = _pin_value(n.value, val, b) if n is e else 'unknown'
            if any(g is None for g in gs) and final != 'kept':
                final = 'unknown' if final not in ('computed',) else final
            outcomes.add(final if all(g is not None for g in gs) else ('maybe:' + final))
        case = "ok %s, grade_decimal %s 1" % ("== 'computed'" if computed else 'given by the author', '!=' if partial else '==')
        need_computed = computed or partial
        allowed = {'computed'}
        if not partial:
            allowed.add('true')         # grade_decimal == 1: the map gives True (checked above)
        if not need_computed:
            allowed.add('kept')
        definite = {o for o in outcomes if not o.startswith('maybe:')}
        maybe = {o[6:] for o in outcomes if o.startswith('maybe:')}
        bad = sorted(o for o in definite if o not in allowed and o != 'unknown')
        if bad and not maybe:
            if 'kept' in bad and computed:
                wrong.append("%s: 'computed' reaches results as ok" % case)
            elif 'kept' in bad:
                wrong.append('%s: the explicit ok is kept although the answer is not worth full marks (documented as ignored): ok and '
                             'grade_decimal of the result disagree' % case)
            elif 'true' in bad:
                wrong.append('%s: ok is set to True although the grade is not 1' % case)
            elif 'computed-other' in bad:
                wrong.append("%s: ok is computed from something else than the answer's grade_decimal" % case)
            else:
                wrong.append('%s: ok ends up as %s' % (case, bad))
        elif bad or 'unknown' in definite or (maybe - allowed):
            unknown.append(case)
    where = lib.loc(vs, stores[0][0])
    if wrong:
        r.violation('ItemGrader.validate_single_answer: pin condition', '; '.join(wrong[:2]), where,
                    expected="recompute iff ok == 'computed' or grade_decimal != 1")
    elif unknown:
        r.undecided('ItemGrader.validate_single_answer: pin condition', 'not decided for: %s' % '; '.join(unknown[:3]), where)
    else:
        r.ok('ItemGrader.validate_single_answer: pin condition', "ok computed from grade_decimal unless the author gave ok for a full-marks "
             'answer: 4/4 cases', where)


_OK_MAP_NOTES = []


def _eval_ok_map(f):
    """Abstractly evaluate grade_decimal_to_ok on {0, 1, 0.5} (dict.get form or if-chain form)."""
    del _OK_MAP_NOTES[:]
    pname = f.params[-1]
    out = {}
    paths = nf.decision_paths(f.node.body)
    for probe in (0, 1, 0.5):
        val = '<none>'
        for p in paths:
            if p.leaf.kind != 'ret':
                continue
            holds = True
            for g in p.guards:
                tv = _eval_guard(g, pname, probe)
                if tv is None:
                    return None
                if not tv:
                    holds = False
                    break
            if not holds:
                continue
            e = p.leaf.expr
            if isinstance(e, ast.Constant):
                val = e.value
            elif isinstance(e, ast.Compare) and pname in lib.names_in(e) and _eval_guard(e, pname, probe) is not None:
                # the RESULT of a comparison is returned: its type follows the operand (numpy.bool_ for a numpy scalar grade),
                # whereas consumers test `ok is True` / `ok is False`
                raw = getattr(p.leaf.stmt, 'value', None)
                if not (isinstance(raw, ast.Call) and isinstance(raw.func, ast.Name) and raw.func.id == 'bool'):
                    _OK_MAP_NOTES.append(('compare', e))
                val = _eval_guard(e, pname, probe)
            elif isinstance(e, ast.Call) and nf.callee_name(e) == 'get' and len(e.args) == 2 \
                    and isinstance(e.args[0], ast.Call) and nf.callee_name(e.args[0]) in ('round', 'int', 'floor', 'ceil', 'trunc', 'rint') \
                    and e.args[0].args and isinstance(e.args[0].args[0], ast.Name) and e.args[0].args[0].id == pname:
                _OK_MAP_NOTES.append(('lossy-key', e.args[0]))
                tbl = _ok_table(f, e.func.value)
                if tbl is None:
                    return None
                dflt = nf.const_value(e.args[1], '<?>')
                val = tbl.get(probe, dflt)
            elif isinstance(e, ast.Call) and nf.callee_name(e) == 'get' and len(e.args) == 2 \
                    and isinstance(e.args[0], ast.Name) and e.args[0].id == pname:
                tbl = _ok_table(f, e.func.value)
                if tbl is None:
                    return None
                dflt = nf.const_value(e.args[1], '<?>')
                val = tbl.get(probe, dflt)
            else:
                return None
            break
        out[probe] = val
    return out


def _ok_table(f, d):
    """The lookup table of grade_decimal_to_ok as {key: value}: a dict literal, or a module-/class-level constant bound to a
    closed constant computation (folded by sa.tables: literal, comprehension over literals, bool()/int() of literals)."""
    from .. import tables

    def fold(t):
        if t.kind == 'const':
            return True, t.value
        if t.kind == 'call' and t.name in ('bool', 'int', 'float') and len(t.args) == 1 and not t.kwargs:
            ok, v = fold(t.args[0])
            if ok and isinstance(v, (bool, int, float)):
                return True, {'bool': bool, 'int': int, 'float': float}[t.name](v)
        return False, None
    if isinstance(d, ast.Dict):
        tbl = {}
        for k, v in zip(d.keys, d.values):
            if not (isinstance(k, ast.Constant) and isinstance(v, ast.Constant)):
                return None
            tbl[k.value] = v.value
        return tbl
    idx = getattr(f, 'index', None) or _CTX_INDEX[0]
    try:
        if isinstance(d, ast.Name):
            t = tables.module_table(idx, f.module.name, d.id)
        elif isinstance(d, ast.Attribute) and isinstance(d.value, ast.Name) and f.cls is not None:
            t = tables.class_table(idx, f.cls.qualname, d.attr)
        else:
            return None
    except AnalysisError:
        return None
    tbl = {}
    for k, v in t.items:
        ok1, kv = fold(k)
        ok2, vv = fold(v)
        if not (ok1 and ok2):
            return None
        tbl[kv] = vv
    return tbl


_CTX_INDEX = [None]


def _eval_guard(g, pname, probe):
    if isinstance(g, ast.Compare) and len(g.ops) == 1 and not isinstance(g.ops[0], (ast.In, ast.NotIn)):
        l, rr = g.left, g.comparators[0]

        def val(x):
            if isinstance(x, ast.Name) and x.id == pname:
                return probe
            if isinstance(x, ast.Constant) and isinstance(x.value, (int, float)):
                return x.value
            return None
        a, b = val(l), val(rr)
        if a is None or b is None:
            return None
        op = type(g.ops[0])
        return {ast.Eq: a == b, ast.NotEq: a != b, ast.Lt: a < b, ast.LtE: a <= b, ast.Gt: a > b, ast.GtE: a >= b}.get(op)
    if isinstance(g, ast.Compare) and len(g.ops) == 1 and isinstance(g.ops[0], (ast.In, ast.NotIn)) \
            and isinstance(g.left, ast.Name) and g.left.id == pname and isinstance(g.comparators[0], (ast.Tuple, ast.List, ast.Set)) \
            and all(isinstance(x, ast.Constant) and isinstance(x.value, (int, float)) for x in g.comparators[0].elts):
        inside = any(probe == x.value for x in g.comparators[0].elts)
        return inside if isinstance(g.ops[0], ast.In) else not inside
    if isinstance(g, ast.UnaryOp) and isinstance(g.op, ast.Not):
        v = _eval_guard(g.operand, pname, probe)
        return None if v is None else (not v)
    if isinstance(g, ast.BoolOp):
        vals = [_eval_guard(v, pname, probe) for v in g.values]
        if any(v is None for v in vals):
            return None
        return all(vals) if isinstance(g.op, ast.And) else any(vals)
    return None


# ----------------------------------------------------------------------------- D5
def d5_debug_gate(ctx, idx):
    r = ctx.rule('D5.GATE', "the debug log reaches the output only under config['debug']", floor=3)
    with r:
        call = idx.func(AG + '.__call__')
        n_sites = 0
        for f in idx.package_funcs():
            for c in lib.calls_named(f.node, 'log_output'):
                n_sites += 1
                if f is not call:
                    r.violation('%s: log_output()' % f.qualname[len('mitxgraders.'):], 'the debug log is rendered outside AbstractGrader.__call__', lib.loc(f, c))
                    continue
                t = _enclosing_if(c)
                gated = False
                while t is not None:
                    tt = nf.canon(t.test)
                    if lib.is_config(tt, 'debug'):
                        gated = True
                        break
                    if isinstance(tt, ast.BoolOp) and isinstance(tt.op, ast.And) and any(lib.is_config(v, 'debug') for v in tt.values):
                        gated = True
                        break
                    if isinstance(tt, ast.BoolOp) and isinstance(tt.op, ast.Or) and any(lib.is_config(v, 'debug') for v in tt.values):
                        break
                    t = _enclosing_if(t)
                r.check(gated, 'AbstractGrader.__call__: log_output()', "under `if self.config['debug']`",
                        'the debug log (version, sampled values, stored answers) is appended to the message on a path not controlled by '
                        "config['debug'] alone", lib.loc(f, c), expected="if self.config['debug']:")
        if n_sites == 0:
            r.note('log_output is never called')
        # other readers of the raw log
        allowed = {'log', 'log_output', 'create_debuglog'}
        for f in idx.package_funcs():
            for n in walk_own(f.node):
                if isinstance(n, ast.Attribute) and n.attr == 'debuglog' and isinstance(n.ctx, ast.Load):
                    if f.name in allowed:
                        continue
                    st = lib.enclosing_stmt(n)
                    handoff = isinstance(st, ast.Assign) and any(isinstance(t, ast.Attribute) and t.attr == 'debuglog' for t in st.targets)
                    r.check(handoff, '%s: read of debuglog' % f.qualname[len('mitxgraders.'):], 'hand-off of the log object to a subgrader',
                            'the debug log is read outside the logging API: `%s`' % short(st), lib.loc(f, n))
        # StringGrader.construct_message: message shown for 'msg' or under debug (documented); nothing else
        lo = idx.func(AG + '.log_output')
        r.check(any(isinstance(n, ast.Attribute) and n.attr == 'debuglog' for n in walk_own(lo.node)), 'AbstractGrader.log_output', 'renders self.debuglog',
                'log_output no longer renders the debug log', lo.loc)


# ----------------------------------------------------------------------------- D6
def d6_ranges(ctx, idx):
    r = ctx.rule('D6.RANGE', 'structural range facts for grade_decimal', floor=2)
    with r:
        sa = idx.func('mitxgraders.baseclasses.ItemGrader.schema_answer')
        found = False
        for n in walk_own(sa.node):
            if isinstance(n, ast.Dict):
                for k, v in zip(n.keys, n.values):
                    if isinstance(k, ast.Call) and k.args and nf.const_value(k.args[0]) == 'grade_decimal':
                        found = True
                        rng = [c for c in ast.walk(v) if isinstance(c, ast.Call) and nf.callee_name(c) == 'Range']
                        ok = bool(rng) and [nf.const_value(a) for a in rng[0].args] == [0, 1] and not rng[0].keywords
                        num = any(isinstance(c, ast.Attribute) and c.attr == 'Number' or isinstance(c, ast.Name) and c.id == 'Number' for c in ast.walk(v))
                        r.check(ok and num, 'ItemGrader.schema_answer: grade_decimal', 'All(Number, Range(0, 1))',
                                "an answer's grade_decimal is validated by `%s`: credits outside [0, 1] are accepted" % short(v), lib.loc(sa, k),
                                expected='All(numbers.Number, Range(0, 1))', found=short(v))
                        d = lib.get_kw(k, 'default')
                        r.check(d is not None and nf.const_value(d, 'x') == 1, 'ItemGrader.schema_answer: grade_decimal default', '1',
                                'default credit is %s' % short(d), lib.loc(sa, k))
        if not found:
            raise AnalysisError('schema_answer: grade_decimal key not found')
        cg = idx.func('mitxgraders.listgrader.consolidate_grades')
        rets = lib.returns_of(cg.node)
        for ret in rets:
            res = nf.classify(['max(0, _A)', 'max(_A, 0)', 'max(0.0, _A)'], ret.value)
            r.verdict('consolidate_grades: clamp', res, lib.loc(cg, ret), expected='max(0, avg)')


# ------------------------------------------------------------------------ self-test
_FG = 'mitxgraders/formulagrader/formulagrader.py'
_SCALE_LOOP = "        for result in results:\n            result['grade_decimal'] *= answer['grade_decimal']\n            if result['ok'] == 'partial':\n                # Scaling may have taken partial credit down to zero\n                result['ok'] = self.grade_decimal_to_ok(result['grade_decimal'])\n"
_SCALE_HELPER = "    @staticmethod\n    def scale_by_answer_credit(results, answer_credit):\n        scaled_results = []\n        for result in results:\n            grade_decimal = result['grade_decimal'] * answer_credit\n            ok = result['ok']\n            if ok == 'partial':\n                ok = ItemGrader.grade_decimal_to_ok(%s)\n            scaled_results.append({'ok': ok, 'grade_decimal': grade_decimal, 'msg': result['msg']})\n        return scaled_results\n\n"
_SCALE_CALL = "        results = self.scale_by_answer_credit(results, answer['grade_decimal'])\n"
_RAW_CHECK_DEF = "    def raw_check(self, answer, student_input, **kwargs):\n"

# ---- key filter moved into a helper with an early return, guarded check moved into a helper with the try (seen through by the normaliser)
_FILTER_OLD = ("        keys = ['ok', 'grade_decimal', 'msg']\n        if 'input_list' in result:\n            # Multiple inputs\n"
               "            for idx, entry in enumerate(result['input_list']):\n"
               "                cleaned = {key: val for key, val in entry.items() if key in keys}\n"
               "                result['input_list'][idx] = cleaned\n        else:\n            # Single input\n"
               "            result = {key: val for key, val in result.items() if key in keys}\n")
_FILTER_CALL = "        result = self._strip_result(result)\n"
_APPLY_DEF = "    def apply_attempt_based_credit(self, result, attempt_number):\n"
_FILTER_HELPER = ("    @staticmethod\n    def _strip_result(result):\n        keys = ['ok', 'grade_decimal', 'msg']\n"
                  "        if 'input_list' not in result:\n            # Single input\n            return %s\n"
                  "        # Multiple inputs\n        for idx, entry in enumerate(result['input_list']):\n"
                  "            cleaned = {key: val for key, val in entry.items() if key in keys}\n"
                  "            result['input_list'][idx] = cleaned\n        return result\n\n")
_FILTERED = "{key: val for key, val in result.items() if key in keys}"

MUTANTS = [
    Mutant('key-filter-helper-single-form-unfiltered', BASE,
           [(_FILTER_OLD, _FILTER_CALL), (_APPLY_DEF, (_FILTER_HELPER % "{key: val for key, val in result.items()}") + _APPLY_DEF)], None, 'D1'),
    Mutant('key-filter-helper-keeps-extra-key', BASE,
           [(_FILTER_OLD, _FILTER_CALL), (_APPLY_DEF, (_FILTER_HELPER % _FILTERED).replace("keys = ['ok', 'grade_decimal', 'msg']", "keys = ['ok', 'grade_decimal', 'msg', 'all_awarded']") + _APPLY_DEF)], None, 'D1'),
    Mutant('scaling-helper-derives-ok-from-unscaled-grade (seed C01i)', _FG,
           [(_SCALE_LOOP, _SCALE_CALL), (_RAW_CHECK_DEF, (_SCALE_HELPER % "result['grade_decimal']") + _RAW_CHECK_DEF)], None, 'D3'),
    Mutant('ok-map-returns-comparison (seed C05g)', BASE, "        return {0: False, 1: True}.get(grade, 'partial')",
           "        if grade in (0, 1):\n            return grade == 1\n        return 'partial'", 'D4'),
    Mutant('ok-map-rounds-its-key (seed C17h)', BASE, "        return {0: False, 1: True}.get(grade, 'partial')",
           "        return {0: False, 1: True}.get(round(grade, 4), 'partial')", 'D4'),
    Mutant('cfn-true-test-negated', BASE, "        if value == True:\n            return {'ok': True, 'msg': '', 'grade_decimal': 1.0}", "        if value != True:\n            return {'ok': True, 'msg': '', 'grade_decimal': 1.0}", 'D3'),
    Mutant('cfn-false-test-flipped', BASE, "        elif value == False:\n            return {'ok': False, 'msg': '', 'grade_decimal': 0}", "        elif value != False:\n            return {'ok': False, 'msg': '', 'grade_decimal': 0}", 'D3'),
    Mutant('cfn-partial-case-sensitive-or', BASE, "        elif isinstance(value, str) and value.lower() == 'partial':", "        elif isinstance(value, str) or value.lower() == 'partial':", 'D3'),
    Mutant('key-filter-widened', BASE, "        keys = ['ok', 'grade_decimal', 'msg']\n", "        keys = ['ok', 'grade_decimal', 'msg', 'all_awarded']\n", 'D1'),
    Mutant('single-filter-removed', BASE, "            result = {key: val for key, val in result.items() if key in keys}\n", "            pass\n", 'D1'),
    Mutant('list-filter-first-only', BASE, "                result['input_list'][idx] = cleaned\n", "                result['input_list'][idx] = cleaned\n                break\n", 'D1'),
    Mutant('format-messages-skipped', BASE, "        self.format_messages(result)\n        return result", "        if result.get('msg') is not None:\n            self.format_messages(result)\n        return result", 'D1'),
    Mutant('format-messages-no-default', BASE, 'result["msg"] = result.get("msg", "").replace("\\n", "<br/>\\n")', 'result["msg"] = result["msg"].replace("\\n", "<br/>\\n")', 'D1'),
    Mutant('attempt-credit-ungated', BASE, "        if self.config['attempt_based_credit']:\n            self.apply_attempt_based_credit(result, kwargs.get('attempt'))",
           "        if self.config['attempt_based_credit'] or kwargs.get('attempt'):\n            self.apply_attempt_based_credit(result, kwargs.get('attempt'))", 'D1'),
    Mutant('result-literal-missing-msg', 'mitxgraders/stringgrader.py', "                return {'ok': False, 'grade_decimal': 0, 'msg': ''}\n", "                return {'ok': False, 'grade_decimal': 0}\n", 'D2'),
    Mutant('padded-check-missing-ok', LG, "            return {'ok': False, 'msg': '', 'grade_decimal': 0, 'all_awarded': False}", "            return {'msg': '', 'grade_decimal': 0, 'all_awarded': False}", 'D2'),
    Mutant('submission-length-one-sided (seed C01b)', LG, "            if len(self.config['grouping']) != len(student_list):", "            if len(self.config['grouping']) > len(student_list):", 'D2'),
    Mutant('validate-submission-late', LG, "        self.validate_submission(answers, student_list)\n\n        # Group the inputs in preparation for grading\n        grouped_inputs = self.groupify_list(self.grouping, student_list)",
           "        # Group the inputs in preparation for grading\n        grouped_inputs = self.groupify_list(self.grouping, student_list)\n        self.validate_submission(answers, student_list)", 'D2'),
    Mutant('raw-check-ok-stale (F1)', 'mitxgraders/formulagrader/formulagrader.py', "            if result['ok'] == 'partial':\n                # Scaling may have taken partial credit down to zero\n                result['ok'] = self.grade_decimal_to_ok(result['grade_decimal'])\n", "", 'D3'),
    Mutant('process-grade-list-ok-stale (seed C01a)', LG, "        result['ok'] = AbstractGrader.grade_decimal_to_ok(result['grade_decimal'])\n\n        # Tack on",
           "        if result['ok'] is True and grade_decimal < 1:\n            result['ok'] = 'partial'\n\n        # Tack on", 'D3'),
    Mutant('attempt-credit-ok-stale', BASE, "                result['grade_decimal'] = grade\n                result['ok'] = self.grade_decimal_to_ok(grade)\n", "                result['grade_decimal'] = grade\n", 'D3'),
    Mutant('attempt-credit-ok-from-old-grade', BASE, "                    results_dict['grade_decimal'] = grade\n                    results_dict['ok'] = self.grade_decimal_to_ok(grade)\n",
           "                    results_dict['ok'] = self.grade_decimal_to_ok(results_dict['grade_decimal'])\n                    results_dict['grade_decimal'] = grade\n", 'D3'),
    Mutant('zeroing-forgets-ok', LG, "                    entry['ok'] = False\n                    entry['grade_decimal'] = 0\n", "                    entry['grade_decimal'] = 0\n", 'D3'),
    Mutant('bracket-ok-stale', 'mitxgraders/formulagrader/intervalgrader.py', "        # Fix the ok entry\n        grade_entry['ok'] = AbstractGrader.grade_decimal_to_ok(grade_entry['grade_decimal'])\n", "", 'D3'),
    Mutant('literal-pair-inconsistent', 'mitxgraders/formulagrader/matrixgrader.py', "                return {'ok': False, 'grade_decimal': 0, 'msg': str(err)}", "                return {'ok': 'partial', 'grade_decimal': 0, 'msg': str(err)}", 'D3'),
    Mutant('cfn-return-partial-one', BASE, "            return {'ok': 'partial', 'msg': '', 'grade_decimal': 0.5}", "            return {'ok': 'partial', 'msg': '', 'grade_decimal': 1}", 'D3'),
    Mutant('comparer-result-unsanitised', 'mitxgraders/helpers/math_helpers.py', "                result = comparer(compare_params_eval, student_eval, utils)\n                results.append(ItemGrader.standardize_cfn_return(result))",
           "                result = comparer(compare_params_eval, student_eval, utils)\n                results.append(result)", 'D3'),
    Mutant('ok-map-swapped', BASE, "        return {0: False, 1: True}.get(grade, 'partial')", "        return {0: True, 1: False}.get(grade, 'partial')", 'D4'),
    Mutant('ok-map-default-false', BASE, "        return {0: False, 1: True}.get(grade, 'partial')", "        return {0: False, 1: True}.get(grade, False)", 'D4'),
    Mutant('pin-condition-and', BASE, "if validated_answer['ok'] == 'computed' or validated_answer['grade_decimal'] != 1:", "if validated_answer['ok'] == 'computed' and validated_answer['grade_decimal'] != 1:", 'D4'),
    Mutant('pin-any-grade', BASE, "if validated_answer['ok'] == 'computed' or validated_answer['grade_decimal'] != 1:", "if validated_answer['ok'] == 'computed':", 'D4'),
    Mutant('debug-gate-removed', BASE, "        # Append the debug log to the result if requested\n        if self.config['debug']:\n            if \"input_list\" in result:",
           "        # Append the debug log to the result if requested\n        if self.config['debug'] or result.get('msg') == '':\n            if \"input_list\" in result:", 'D5'),
    Mutant('debuglog-leaks-in-stringgrader', 'mitxgraders/stringgrader.py', "        elif msg_type == 'msg' or self.config['debug']:\n            invalid_response['msg'] = msg",
           "        elif msg_type == 'msg' or self.config['debug']:\n            invalid_response['msg'] = msg + '\\n'.join(self.debuglog[:1])", 'D5'),
    Mutant('answer-credit-range-widened', BASE, "Required('grade_decimal', default=1): All(numbers.Number, Range(0, 1)),", "Required('grade_decimal', default=1): All(numbers.Number, Range(0, 10)),", 'D6'),
    Mutant('clamp-removed', LG, "    return max(0, avg)", "    return avg", 'D6'),
]

BENIGN = [
    Benign('key-filter-moved-to-helper-with-early-return', BASE,
           [(_FILTER_OLD, _FILTER_CALL), (_APPLY_DEF, (_FILTER_HELPER % _FILTERED) + _APPLY_DEF)], None),
    Benign('scaling-helper-with-fresh-results', _FG,
           [(_SCALE_LOOP, _SCALE_CALL), (_RAW_CHECK_DEF, (_SCALE_HELPER % "grade_decimal") + _RAW_CHECK_DEF)], None),
    Benign('ok-map-if-chain-with-bool', BASE, "        return {0: False, 1: True}.get(grade, 'partial')",
           "        if grade in (0, 1):\n            return bool(grade == 1)\n        return 'partial'"),
    Benign('raw-check-repair-guard-variant', 'mitxgraders/formulagrader/formulagrader.py', "            if result['ok'] == 'partial':\n                # Scaling", "            if result['ok'] is not True:\n                # Scaling"),
    Benign('ok-map-as-if-chain', BASE, "        return {0: False, 1: True}.get(grade, 'partial')", "        if grade == 0:\n            return False\n        if grade == 1:\n            return True\n        return 'partial'"),
    Benign('keys-as-tuple', BASE, "        keys = ['ok', 'grade_decimal', 'msg']\n", "        keys = ('msg', 'ok', 'grade_decimal')\n"),
]
