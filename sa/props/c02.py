"""C02 -- grading failures surface only as library errors with student-safe messages."""
import ast

from ..index import AnalysisError, walk_own, unparse, short, ancestors
from ..cfg import cfg_of
from .. import nf, lib
from ..selftest import Mutant, Benign

ID = 'C02'
BASE = 'mitxgraders/baseclasses.py'
EXPR = 'mitxgraders/helpers/calc/expressions.py'
FILES = [BASE, EXPR, 'mitxgraders/exceptions.py', 'mitxgraders/helpers/calc/exceptions.py',
         'mitxgraders/listgrader.py', 'mitxgraders/formulagrader/matrixgrader.py', 'mitxgraders/stringgrader.py']

EXPLANATION = (
    "Static guard/ordering/hierarchy rules over the resolved program: (D1) the call of check() in "
    "AbstractGrader.__call__ sits in a try whose catch-all handler raises on every path -- bare re-raise only "
    "under config['debug'], library errors re-raised as error.__class__ with the newline-><br/> transform of "
    "str(error), everything else as StudentFacingError whose text is data-dependent on the submission; "
    "(D2) student_input is used outside that guard only by reviewed total functions; (D3) ensure_text_inputs "
    "dominates check, overrides fix the list/single flags, its only fall-through raises ConfigError; "
    "(D4) every exception class of the package descends from MITxError except two reviewed internal ones; "
    "(D5) class-preserving translations (eval, eval_function handler order, parse/raw_parse, MatrixGrader "
    "handler order); (D6) numpy error state is configured exactly once at import and mapped to Python "
    "exceptions.")
NOT_DECIDED = ("termination of a call (pyparsing backtracking, Munkres, summation length); which builtin exception "
               "a hostile input provokes inside numpy (irrelevant for the class that escapes, decided by D1).")
ASSUMPTIONS = ["edX calls graders only through __call__; subgraders are invoked through check()"]

AG = 'mitxgraders.baseclasses.AbstractGrader'


def check(ctx):
    idx = ctx.index
    d1_guard(ctx, idx)
    d2_taint(ctx, idx)
    d3_text_inputs(ctx, idx)
    d4_hierarchy(ctx, idx)
    d5_translations(ctx, idx)
    d6_numpy_state(ctx, idx)
    d7_templates(ctx, idx)
    d8_unbound(ctx, idx)


# ----------------------------------------------------------------------------- D1
def d1_guard(ctx, idx):
    r = ctx.rule('D1.GUARD', 'check() is guarded by a catch-all handler that raises only library errors', floor=4)
    with r:
        fi = idx.func(AG + '.__call__')
        calls = [c for c in lib.calls_named(fi.node, 'check') if isinstance(c.func, ast.Attribute)
                 and isinstance(c.func.value, ast.Name) and c.func.value.id == fi.params[0]]
        if not calls:
            raise AnalysisError('no self.check(...) call in AbstractGrader.__call__')
        for call in calls:
            tr = lib.enclosing_try(call)
            where = lib.loc(fi, call)
            if tr is None:
                r.violation('AbstractGrader.__call__: self.check(...)', 'the grading call is not inside any try block: '
                            'an unanticipated exception escapes to edX unchanged', where)
                continue
            catch = [h for h in tr.handlers if set(lib.handler_class_names(h)) & {'Exception', 'BaseException'}]
            if not catch:
                r.violation('AbstractGrader.__call__: try around self.check(...)',
                            'no handler for Exception: handlers are %s, so other exception types escape to edX'
                            % [lib.handler_class_names(h) for h in tr.handlers], where,
                            expected='except Exception', found=', '.join('/'.join(lib.handler_class_names(h)) for h in tr.handlers))
                continue
            h = catch[0]
            # any handler listed before the catch-all must also end in raising library errors: check all handlers
            r.ok('AbstractGrader.__call__: try around self.check(...)', 'catch-all handler present', where)
            for hh in tr.handlers:
                _check_handler(r, idx, fi, hh)
            if tr.orelse or tr.finalbody:
                for s in tr.finalbody:
                    if any(isinstance(n, ast.Return) for n in ast.walk(s)):
                        r.violation('AbstractGrader.__call__: finally', 'a return inside finally swallows the error', lib.loc(fi, s))


def _check_handler(r, idx, fi, h):
    err = h.name
    module = fi.module
    paths = nf.decision_paths(h.body)
    construct = 'AbstractGrader.__call__: except %s' % '/'.join(lib.handler_class_names(h))
    kinds = set()
    for p in paths:
        where = lib.loc(fi, p.leaf.stmt or h)
        guards = p.guards
        debug_pos = any(lib.is_config(g, 'debug') for g in guards)
        debug_neg = any(isinstance(g, ast.UnaryOp) and isinstance(g.op, ast.Not) and lib.is_config(g.operand, 'debug')
                        for g in guards)
        isinst_pos = any(_is_isinstance_mitx(g, err) for g in guards)
        isinst_neg = any(isinstance(g, ast.UnaryOp) and isinstance(g.op, ast.Not) and _is_isinstance_mitx(g.operand, err)
                         for g in guards)
        if p.leaf.kind != 'raise' and _delegates_to_raising_helper(idx, fi, p):
            r.undecided(construct, 'the handler delegates to a helper that always raises; its contract is not analysed inline', where)
            kinds.add('delegated')
            continue
        if p.leaf.kind != 'raise':
            r.violation(construct, 'a path through the handler %s instead of raising (guards: %s): the failure is '
                        'swallowed or a non-result is returned' % ('returns' if p.leaf.kind == 'ret' else 'falls through',
                                                                   ' and '.join(unparse(g) for g in guards) or 'none'), where)
            continue
        exc = p.leaf.expr
        if exc is None:
            kinds.add('bare')
            if debug_pos and not debug_neg:
                r.ok(construct + ' [bare re-raise]', 'only under config[debug]', where)
            else:
                r.violation(construct + ' [bare re-raise]', 'the original exception is re-raised unchanged on a path not '
                            'guarded by config[\'debug\'] (guards: %s)' % (' and '.join(unparse(g) for g in guards) or 'none'),
                            where, expected="if self.config['debug']: raise")
            continue
        if isinstance(exc, ast.Call) and isinstance(exc.func, ast.Attribute) and exc.func.attr == '__class__' \
                and isinstance(exc.func.value, ast.Name) and exc.func.value.id == err:
            kinds.add('same-class')
            if not isinst_pos:
                r.violation(construct + ' [same-class re-raise]', 'error.__class__(...) raised without an isinstance(error, MITxError) '
                            'guard: arbitrary exception classes are re-instantiated and escape', where)
                continue
            arg = exc.args[0] if exc.args else None
            res = nf.classify(["str(%s).replace('\\n', '<br/>')" % err, "str(%s).replace('\\n', '<br/>\\n')" % err,
                               "_E.args[0].replace('\\n', '<br/>')"], arg) if arg is not None else nf.UNRECOGNISED
            if res == nf.MATCH:
                r.ok(construct + ' [same-class re-raise]', 'message = str(error) with line breaks as <br/>', where)
            elif arg is not None and isinstance(arg, ast.Call) and nf.callee_name(arg) == 'str' and len(arg.args) == 1 \
                    and isinstance(arg.args[0], ast.Name) and arg.args[0].id == err:
                r.violation(construct + ' [same-class re-raise]', "the message is str(error) without the '\\n' -> '<br/>' "
                            "transform", where, expected="str(error).replace('\\n', '<br/>')", found=unparse(arg))
            elif isinstance(res, tuple):
                r.violation(construct + ' [same-class re-raise]', res[1], where,
                            expected="str(error).replace('\\n', '<br/>')", found=unparse(arg))
            else:
                r.undecided(construct + ' [same-class re-raise]', 'message expression not recognised: %s' % short(arg), where)
            continue
        cname = nf.exc_class_name(exc)
        if isinstance(exc, ast.Name) and exc.id == err:
            kinds.add('bare')
            if debug_pos or isinst_pos:
                if isinst_pos and not debug_pos:
                    r.violation(construct + ' [re-raise error]', 'library error re-raised unchanged: the message keeps raw '
                                "line breaks instead of <br/>", where, expected="raise error.__class__(str(error).replace('\\n','<br/>'))")
                else:
                    r.ok(construct + ' [re-raise error]', 'only under config[debug]', where)
            else:
                r.violation(construct + ' [re-raise error]', 'the caught exception is re-raised unchanged outside debug mode', where)
            continue
        if lib.exc_is_subclass(idx, module, cname, 'MITxError'):
            kinds.add('generic')
            if not lib.exc_is_subclass(idx, module, cname, 'StudentFacingError'):
                r.violation(construct + ' [generic]', 'unanticipated failures are replaced by %s, which is not a '
                            'student-facing error' % cname, where, expected='StudentFacingError', found=cname)
                continue
            if isinst_pos:
                r.violation(construct + ' [generic]', 'library errors are replaced by a generic %s: the specific class and '
                            'message are lost' % cname, where)
                continue
            msg = exc.args[0] if isinstance(exc, ast.Call) and exc.args else None
            names = lib.names_in(msg)
            if 'student_input' in names:
                # the submission may only appear as an *argument* of str.format / join, never inside a format
                # template or a %-format string: formatting student text as a template raises on braces / percent
                # signs, and that exception would escape from the handler itself
                tainted = _tainted_templates(msg)
                text = ' '.join(c.value for c in ast.walk(msg) if isinstance(c, ast.Constant) and isinstance(c.value, str))
                unresolved = []
                for nm in ast.walk(msg):
                    # module-level message pieces (a hoisted literal prefix) are part of the text
                    if isinstance(nm, ast.Name) and isinstance(nm.ctx, ast.Load) and nm.id not in ('student_input', err, 'str', 'map', 'repr', 'format'):
                        vals = module.assigns.get(nm.id, [])
                        lit = [_literal_text(v) for v in vals]
                        if len(vals) == 1 and lit[0] is not None:
                            text += ' ' + lit[0]
                        elif nm.id not in fi.all_params and nm.id != 'self':
                            unresolved.append(nm.id)
                if tainted:
                    r.violation(construct + ' [generic]', 'the submission is part of a format template (`%s`): a brace or percent sign in '
                                'the student\'s text makes the formatting itself raise IndexError/KeyError/ValueError inside the handler, '
                                'and that non-library exception escapes to edX' % short(tainted[0]), where,
                                expected="constant template .format(student_input)", found=short(msg))
                elif 'Could not check' in text:
                    r.ok(construct + ' [generic]', 'StudentFacingError naming the submission', where)
                elif unresolved:
                    r.undecided(construct + ' [generic]', 'the generic message is built from `%s`, whose text is not a literal here'
                                % ', '.join(sorted(set(unresolved))), where)
                else:
                    r.violation(construct + ' [generic]', "generic message no longer reads 'Invalid Input: Could not check input(s) ...'",
                                where, found=short(msg))
            else:
                r.violation(construct + ' [generic]', 'the generic error message does not mention what was submitted '
                            '(no data dependence on student_input)', where, found=short(msg))
        elif not _known_exc_class(idx, module, exc):
            # `raise make(error)` / `raise getattr(self, name)(error)` / `raise next(...)(error)`: what is raised is computed
            r.undecided(construct + ' [raise]', 'the raised object `%s` is computed, not an exception class applied here' % short(exc), where)
            kinds.add('computed')
        else:
            r.violation(construct + ' [raise %s]' % cname, 'a non-library exception class %s is raised from the handler' % cname,
                        where, expected='subclass of MITxError', found=cname)
    if 'Exception' in lib.handler_class_names(h) or 'BaseException' in lib.handler_class_names(h):
        for need, what in (('same-class', 'no path re-raises library errors with their own class (error.__class__)'),
                           ('generic', 'no path replaces unanticipated failures by StudentFacingError')):
            if need not in kinds:
                if 'computed' in kinds or 'delegated' in kinds:
                    r.undecided(construct, what + ' -- among the paths that could be read; another path raises a computed object', lib.loc(fi, h))
                else:
                    r.violation(construct, what, lib.loc(fi, h))


def _known_exc_class(idx, module, exc):
    """The operand of a raise names an exception class directly (builtin or resolvable in the package)."""
    import builtins
    f = exc.func if isinstance(exc, ast.Call) else exc
    if isinstance(f, ast.Attribute) and isinstance(f.value, ast.Name):
        name = f.attr
    elif isinstance(f, ast.Name):
        name = f.id
    else:
        return False
    b = getattr(builtins, name, None)
    if isinstance(b, type) and issubclass(b, BaseException):
        return True
    try:
        q = idx.resolve_name(module, name)
    except Exception:
        return False
    return isinstance(q, tuple) and bool(q) and q[0] == 'class'


def _delegates_to_raising_helper(idx, fi, path):
    """The last effect on the path is a call of a package function none of whose paths returns."""
    for e in reversed(path.effects):
        for c in ast.walk(e):
            if isinstance(c, ast.Call):
                targets, how = idx.resolve_call(fi, c)
                funcs = [t for t in targets if not isinstance(t, tuple)]
                if funcs and all(cfg_of(t.node).exit_return not in cfg_of(t.node).reachable_nodes() for t in funcs):
                    return True
        break
    return False


def _tainted_templates(msg):
    """format()/% templates (receivers) that are data-dependent on student_input."""
    out = []
    for n in ast.walk(msg):
        if isinstance(n, ast.Call) and isinstance(n.func, ast.Attribute) and n.func.attr in ('format', 'format_map'):
            if 'student_input' in lib.names_in(n.func.value):
                out.append(n)
        if isinstance(n, ast.BinOp) and isinstance(n.op, ast.Mod) and 'student_input' in lib.names_in(n.left) \
                and any(isinstance(c, ast.Constant) and isinstance(c.value, str) for c in ast.walk(n.left)):
            out.append(n)
    return out


def _is_isinstance_mitx(g, err):
    return (isinstance(g, ast.Call) and isinstance(g.func, ast.Name) and g.func.id == 'isinstance' and len(g.args) == 2
            and isinstance(g.args[0], ast.Name) and g.args[0].id == err and unparse(g.args[1]).split('.')[-1] == 'MITxError')


# ----------------------------------------------------------------------------- D2
SAFE_SINKS = {'ensure_text_inputs', 'create_debuglog'}


def d2_taint(ctx, idx):
    r = ctx.rule('D2.TAINT', 'student_input is used outside the guard only by reviewed total functions', floor=6)
    with r:
        impls = lib.class_family_methods(idx, AG, '__call__')
        # (overrides may legitimately turn into hooks called by the base implementation; the base one must exist, and what the
        # floor of this rule counts are the uses of the submission, wherever they are)
        if not any(fi.qualname == AG + '.__call__' for fi in impls):
            raise AnalysisError('AbstractGrader.__call__ not found among the %d __call__ implementations of the grader family' % len(impls))
        for fi in impls:
            if 'student_input' not in fi.params:
                r.undecided(fi.qualname, 'no student_input parameter')
                continue
            bad = []
            uses = 0
            for n in walk_own(fi.node):
                if not (isinstance(n, ast.Name) and n.id == 'student_input' and isinstance(n.ctx, ast.Load)):
                    continue
                uses += 1
                # inside the guarded try (body or its handlers)?
                guarded = False
                child = n
                for a in ancestors(n):
                    if isinstance(a, ast.Try) and any(set(lib.handler_class_names(h)) & {'Exception', 'BaseException'}
                                                      for h in a.handlers):
                        guarded = True
                        break
                    if a is fi.node:
                        break
                if guarded:
                    continue
                call = _enclosing_call(n)
                if call is not None:
                    cn = nf.callee_name(call)
                    direct = any(a is n for a in call.args) or any(k.value is n for k in call.keywords)
                    if direct and cn in SAFE_SINKS:
                        continue
                    if direct and cn == '__call__' and isinstance(call.func, ast.Attribute) and \
                            isinstance(call.func.value, ast.Call) and nf.callee_name(call.func.value) == 'super':
                        continue
                    if direct and _helper_guards_its_use(idx, fi, call, n):
                        continue
                bad.append(n)
            if bad:
                for n in bad:
                    r.violation(fi.qualname, 'student_input flows into `%s` outside the guarded grading call: an exception '
                                'there escapes to edX untranslated' % short(lib.enclosing_stmt(n)), lib.loc(fi, n))
            else:
                r.ok(fi.qualname, '%d uses of student_input, all guarded or through %s' % (uses, sorted(SAFE_SINKS)), fi.loc)
        # the reviewed sinks really are total on arbitrary (possibly non-text) input: create_debuglog touches its
        # student_input only through isinstance / str / map(str, .)
        cd = idx.func(AG + '.create_debuglog')
        pname = 'student_input'
        if pname not in cd.params:
            raise AnalysisError('create_debuglog: parameter student_input vanished')
        for n in walk_own(cd.node):
            if not (isinstance(n, ast.Name) and n.id == pname and isinstance(n.ctx, ast.Load)):
                continue
            call = _enclosing_call(n)
            ok = False
            if call is not None:
                cn = nf.callee_name(call)
                if cn in ('isinstance', 'str', 'repr', 'type') and any(a is n for a in call.args):
                    ok = True
                if cn == 'map' and len(call.args) == 2 and isinstance(call.args[0], ast.Name) and call.args[0].id in ('str', 'repr') \
                        and call.args[1] is n:
                    ok = True
                if cn == 'format' and any(a is n for a in call.args) :
                    ok = True
            r.check(ok, 'AbstractGrader.create_debuglog: use of student_input', 'only through isinstance/str/map(str, .)',
                    'create_debuglog uses the raw submission in `%s`; ItemGrader.__call__ calls it before ensure_text_inputs and outside '
                    'the guard, so non-text input raises TypeError there instead of being refused with ConfigError'
                    % short(lib.enclosing_stmt(n)), lib.loc(cd, n), expected='str(student_input) / map(str, student_input)')
        # ... and on arbitrary author-supplied option values: registered defaults may hold objects (credit schedules, samplers,
        # functions are legal option values), so serialising them needs a fallback (F11)
        from ..effects import FunctionEffects
        cfx = FunctionEffects(cd, idx)
        for c in walk_own(cd.node):
            if isinstance(c, ast.Call) and nf.callee_name(c) in ('dumps', 'dump') and c.args:
                org = cfx.origins(c.args[0])
                from_config = any(o[0] in ('self', 'selfobj', 'global') for o in org)
                has_default = lib.get_kw(c, 'default') is not None
                r.check(has_default or not from_config, 'AbstractGrader.create_debuglog: `%s`' % short(c),
                        'JSON serialisation of configuration values has a `default=` fallback',
                        'json.dumps is applied to option values (`%s`) without a `default=` fallback: an option value that is an object '
                        '(e.g. a registered default attempt_based_credit=ReciprocalCredit()) raises TypeError here, outside the guard of '
                        '__call__, so every call of the grader dies with a non-library exception' % short(c.args[0]),
                        lib.loc(cd, c), expected='json.dumps(..., default=repr)')
        # subclasses of the family must not add entry points that bypass: every override returns super().__call__
        for fi in impls:
            if fi.qualname == AG + '.__call__':
                continue
            rets = lib.returns_of(fi.node)
            cfg = cfg_of(fi.node)
            ok = bool(rets)
            for ret in rets:
                v = ret.value
                if not (isinstance(v, ast.Call) and nf.callee_name(v) == '__call__' and isinstance(v.func.value, ast.Call)
                        and nf.callee_name(v.func.value) == 'super'):
                    ok = False
                    r.violation(fi.qualname, 'an override of __call__ returns `%s` instead of delegating to '
                                'super().__call__: the guarded pipeline is bypassed' % short(v), lib.loc(fi, ret))
                    continue
                # the delegation hands on everything edX passed: the submission and the extra keyword arguments (the attempt number
                # reaches apply_attempt_based_credit only through the **kwargs every override forwards)
                kwname = fi.node.args.kwarg.arg if fi.node.args.kwarg is not None else None
                if kwname is not None:
                    fwd = any(k.arg is None and isinstance(k.value, ast.Name) and k.value.id == kwname for k in v.keywords)
                    if not fwd:
                        ok = False
                        r.violation(fi.qualname, 'the delegation `%s` does not forward **%s: keyword arguments passed by edX (the attempt '
                                    'number) are dropped on this path, so attempt-based credit raises "Attempt number not passed" although '
                                    'it was passed' % (short(v), kwname), lib.loc(fi, ret), expected='super().__call__(expect, student_input, **%s)' % kwname)
                if not any(isinstance(a, ast.Name) and a.id == 'student_input' for a in v.args) and \
                        not any(isinstance(k.value, ast.Name) and k.value.id == 'student_input' for k in v.keywords):
                    ok = False
                    r.violation(fi.qualname, 'the delegation `%s` does not pass the (validated) student_input on' % short(v), lib.loc(fi, ret))
            # falling off the end returns None
            falls = [p for p, lab in cfg.exit_return.preds if not (p.kind == 'stmt' and isinstance(p.ast, ast.Return))]
            if falls:
                ok = False
                r.violation(fi.qualname, 'a path falls off the end of the __call__ override (returns None)', fi.loc)
            if ok:
                r.ok(fi.qualname + ' [delegation]', 'every return delegates to super().__call__', fi.loc)


def _helper_guards_its_use(idx, fi, call, arg, depth=0):
    """The submission is handed to a helper of the package (an extracted part of __call__): fine when, inside that helper, every use of
    the corresponding parameter is itself guarded by the catch-all try, goes to a reviewed sink, or is handed on the same way."""
    if depth > 2:
        return False
    from ..effects import map_args
    try:
        targets, how = idx.resolve_call(fi, call)
    except Exception:
        return False
    funcs = [t for t in targets if not isinstance(t, tuple) and hasattr(t, 'qualname') and t.qualname.startswith('mitxgraders.')]
    if not funcs or len(funcs) != len(targets):
        return False
    for t in funcs:
        mapping = map_args(t, call)
        pname = next((p for p, a in mapping.items() if a is arg), None)
        if pname is None:
            return False
        for m in walk_own(t.node):
            if not (isinstance(m, ast.Name) and m.id == pname and isinstance(m.ctx, ast.Load)):
                continue
            guarded = False
            for a in ancestors(m):
                if isinstance(a, ast.Try) and any(set(lib.handler_class_names(h)) & {'Exception', 'BaseException'} for h in a.handlers):
                    guarded = True
                    break
                if a is t.node:
                    break
            if guarded:
                continue
            c2 = _enclosing_call(m)
            if c2 is not None:
                cn2 = nf.callee_name(c2)
                direct2 = any(x is m for x in c2.args) or any(k.value is m for k in c2.keywords)
                if direct2 and (cn2 in SAFE_SINKS or cn2 in ('isinstance', 'str', 'repr', 'type', 'len')):
                    continue
                if direct2 and _helper_guards_its_use(idx, t, c2, m, depth + 1):
                    continue
            return False
    return True


def _enclosing_call(n):
    from ..index import parent
    p = parent(n)
    while p is not None and not isinstance(p, (ast.Call, ast.stmt)):
        p = parent(p)
    return p if isinstance(p, ast.Call) else None


# ----------------------------------------------------------------------------- D3
def d3_text_inputs(ctx, idx):
    r = ctx.rule('D3.TEXT', 'non-text / wrongly nested input is refused with ConfigError before grading', floor=5)
    with r:
        fi = idx.func(AG + '.__call__')
        cfg = cfg_of(fi.node)
        ens = lib.calls_named(fi.node, 'ensure_text_inputs')
        chk = lib.calls_named(fi.node, 'check')
        if not chk:
            raise AnalysisError('no check call')
        if not ens:
            r.violation('AbstractGrader.__call__', 'ensure_text_inputs is not called before grading', fi.loc)
        else:
            st = lib.enclosing_stmt(ens[0])
            rebinding = isinstance(st, ast.Assign) and any(isinstance(t, ast.Name) and t.id == 'student_input' for t in st.targets)
            dom = lib.dominated(fi, ens, chk)
            arg_ok = bool(ens[0].args) and isinstance(ens[0].args[0], ast.Name) and ens[0].args[0].id == 'student_input'
            r.check(dom and arg_ok, 'AbstractGrader.__call__: ensure_text_inputs',
                    'dominates self.check on every path', 'a path reaches self.check(...) without ensure_text_inputs(student_input)',
                    lib.loc(fi, ens[0]))
            if not lib.enclosing_try(ens[0]) is None:
                r.violation('AbstractGrader.__call__: ensure_text_inputs', 'the input check sits inside the guard: its ConfigError '
                            'is fine, but the check no longer precedes the guarded region as reviewed', lib.loc(fi, ens[0]))
        # overrides
        expected = {'mitxgraders.baseclasses.ItemGrader': ('allow_lists', False),
                    'mitxgraders.listgrader.ListGrader': ('allow_single', False)}
        for q, (kw, val) in expected.items():
            ov = idx.cls(q).methods.get('ensure_text_inputs')
            if ov is None:
                r.violation(q + '.ensure_text_inputs', 'override removed: %s would accept %s' %
                            (q.split('.')[-1], 'lists' if kw == 'allow_lists' else 'single strings'), idx.cls(q).loc)
                continue
            calls = lib.calls_named(ov.node, 'ensure_text_inputs')
            good = False
            for c in calls:
                v = lib.get_kw(c, kw)
                other = 'allow_single' if kw == 'allow_lists' else 'allow_lists'
                o = lib.get_kw(c, other)
                if v is not None and nf.const_value(v, 'x') is val and (o is None or nf.const_value(o, 'x') is True):
                    good = True
            rets = lib.returns_of(ov.node)
            returns_call = any(isinstance(x.value, ast.Call) and nf.callee_name(x.value) == 'ensure_text_inputs' for x in rets)
            r.check(good and returns_call, q + '.ensure_text_inputs', '%s=%s' % (kw, val),
                    'the override no longer passes %s=%s to the base implementation (or does not return its result)' % (kw, val),
                    ov.loc, expected='%s=%s' % (kw, val), found=short(ov.node.body[-1]))
        # the base implementation: every path that does not return a validated input raises ConfigError
        base = idx.func(AG + '.ensure_text_inputs')
        bcfg = cfg_of(base.node)
        _d3_returns_by_truth_table(r, idx, base, bcfg)
        last_raises = lib.raises_of(base.node)
        classes = [nf.exc_class_name(x.exc) for x in last_raises]
        # after the try, no path may reach EXIT_RETURN
        trys = lib.stmts_in(base.node, ast.Try)
        if len(trys) != 1:
            raise AnalysisError('ensure_text_inputs: expected one try')
        after = [s for s in base.node.body if s.lineno > trys[0].end_lineno]
        if not after:
            r.violation('AbstractGrader.ensure_text_inputs', 'nothing follows the validation attempt: invalid input falls through and None is graded', base.loc)
        else:
            starts = bcfg.nodes_of(after[0]) if not isinstance(after[0], ast.If) else bcfg.nodes_of(after[0])
            falls = not bcfg.always_raises_from(starts)
            r.check(not falls, 'AbstractGrader.ensure_text_inputs: fall-through', 'every path after a failed validation raises',
                    'a path after the failed validation returns instead of raising', lib.loc(base, after[0]))
            tail_classes = {nf.exc_class_name(x.exc) for x in last_raises if x.lineno > trys[0].end_lineno}
            bad = tail_classes - {'ConfigError', 'ValueError'}
            r.check(not bad and 'ConfigError' in tail_classes, 'AbstractGrader.ensure_text_inputs: error class',
                    'ConfigError', 'invalid input is refused with %s instead of ConfigError' % sorted(bad or tail_classes),
                    base.loc, expected='ConfigError')
        # handler for MultipleInvalid must not return / swallow into a success
        for h in trys[0].handlers:
            if any(isinstance(n, ast.Return) for s in h.body for n in ast.walk(s)):
                r.violation('AbstractGrader.ensure_text_inputs: except', 'the validation-failure handler returns a value', lib.loc(base, h))
        # the ValueError branch is unreachable: every caller leaves one flag true
        callers = []
        for f in idx.package_funcs():
            for c in lib.calls_named(f.node, 'ensure_text_inputs'):
                callers.append((f, c))
        for f, c in callers:
            al = lib.get_kw(c, 'allow_lists', 1)
            asg = lib.get_kw(c, 'allow_single', 2)
            both_false = al is not None and asg is not None and nf.const_value(al, 1) is False and nf.const_value(asg, 1) is False
            r.check(not both_false, '%s: call of ensure_text_inputs' % f.qualname, 'at least one allow_* flag stays true',
                    'both allow_lists and allow_single are False: every input raises ValueError (not a library error)', lib.loc(f, c))


def _d3_returns_by_truth_table(r, idx, base, bcfg):
    """ensure_text_inputs decided over the complete domain of (input is a list, allow_lists, allow_single): on every path taken
    under a valuation a value may be returned only as Schema([str])(student_input) when lists are allowed and the input is a list,
    as Schema(str)(student_input) when single strings are allowed and it is not, and never otherwise.  Locals holding a chosen schema,
    a flag or None are tracked per path, so the layout (tests around the returns, or a schema selected up front) does not matter."""
    import itertools
    params = base.params
    if 'student_input' not in params:
        raise AnalysisError('ensure_text_inputs: parameter student_input vanished')

    def schema_kind(call):
        if isinstance(call, ast.Name):
            vals = base.module.assigns.get(call.id, [])
            if len(vals) == 1:
                call = vals[0]
        if isinstance(call, ast.Call) and nf.callee_name(call) == 'Schema' and call.args:
            sch = call.args[0]
            if isinstance(sch, ast.List) and len(sch.elts) == 1 and isinstance(sch.elts[0], ast.Name) and sch.elts[0].id == 'str':
                return ('schema', 'list')
            if isinstance(sch, ast.Name) and sch.id == 'str':
                return ('schema', 'str')
            return ('schema', '?')
        return None

    def ev(e, val, env):
        if isinstance(e, ast.Constant):
            return 'none' if e.value is None else (e.value if isinstance(e.value, bool) else None)
        if isinstance(e, ast.Name):
            if e.id == 'allow_lists':
                return val['AL']
            if e.id == 'allow_single':
                return val['AS']
            if e.id in env:
                return env[e.id]
            return schema_kind(e)
        if isinstance(e, ast.Call) and nf.callee_name(e) == 'isinstance' and len(e.args) == 2 and isinstance(e.args[0], ast.Name) \
                and e.args[0].id == 'student_input' and isinstance(e.args[1], ast.Name) and e.args[1].id == 'list':
            return val['L']
        if isinstance(e, ast.Call):
            return schema_kind(e)
        if isinstance(e, ast.UnaryOp) and isinstance(e.op, ast.Not):
            v = ev(e.operand, val, env)
            return (not v) if isinstance(v, bool) else None
        if isinstance(e, ast.BoolOp):
            vs = [ev(x, val, env) for x in e.values]
            bs = [v if isinstance(v, bool) else (False if v == 'none' else (True if isinstance(v, tuple) else None)) for v in vs]
            if isinstance(e.op, ast.And):
                return False if any(b is False for b in bs) else (True if all(b is True for b in bs) else None)
            return True if any(b is True for b in bs) else (False if all(b is False for b in bs) else None)
        if isinstance(e, ast.Compare) and len(e.ops) == 1 and isinstance(e.ops[0], (ast.Is, ast.IsNot)) \
                and isinstance(e.comparators[0], ast.Constant) and e.comparators[0].value is None:
            v = ev(e.left, val, env)
            if v is None:
                return None
            isnone = v == 'none'
            return isnone if isinstance(e.ops[0], ast.Is) else (not isnone)
        if isinstance(e, ast.IfExp):
            t = ev(e.test, val, env)
            if isinstance(t, bool):
                return ev(e.body if t else e.orelse, val, env)
        return None

    problems, unknowns, n_ok = [], [], 0
    for L, AL, AS in itertools.product((False, True), repeat=3):
        val = {'L': L, 'AL': AL, 'AS': AS}
        allowed = 'list' if (L and AL) else ('str' if (not L and AS) else None)
        stack = [(bcfg.entry, ())]
        seen = set()
        while stack:
            node, envt = stack.pop()
            if (node, envt) in seen:
                continue
            seen.add((node, envt))
            env = dict(envt)
            a = node.ast
            if node.kind == 'stmt' and isinstance(a, ast.Return):
                v = a.value
                kind = None
                if isinstance(v, ast.Call) and len(v.args) == 1 and isinstance(v.args[0], ast.Name) and v.args[0].id == 'student_input':
                    kind = ev(v.func, val, env)
                case = 'input %s a list, allow_lists=%s, allow_single=%s' % ('is' if L else 'is not', AL, AS)
                if isinstance(kind, tuple) and kind[1] in ('list', 'str'):
                    if allowed is None:
                        problems.append((a, '%s: `%s` hands the input back although this kind of input is not allowed' % (case, short(a))))
                    elif kind[1] != allowed:
                        problems.append((a, '%s: `%s` validates with Schema(%s) where Schema(%s) is required' % (
                            case, short(a), '[str]' if kind[1] == 'list' else 'str', '[str]' if allowed == 'list' else 'str')))
                    else:
                        n_ok += 1
                else:
                    unknowns.append((a, '%s: what `%s` validates with is not decided' % (case, short(a))))
                continue
            if node.kind == 'test':
                t = ev(a.test, val, env)
                if t == 'none':
                    t = False
                elif isinstance(t, tuple):
                    t = True
                for s2, lab in node.succs:
                    if lab == 'exc':
                        continue
                    if not isinstance(t, bool) or lab == ('true' if t else 'false'):
                        stack.append((s2, envt))
                continue
            if node.kind == 'stmt' and isinstance(a, ast.Assign) and len(a.targets) == 1 and isinstance(a.targets[0], ast.Name):
                nm = a.targets[0].id
                v = ev(a.value, val, env)
                env.pop(nm, None)
                if v is not None:
                    env[nm] = v
                envt = tuple(sorted(env.items(), key=lambda kv: kv[0]))
            for s2, lab in node.succs:
                if lab != 'exc' or node.kind == 'handler':
                    stack.append((s2, envt))
                elif lab == 'exc':
                    stack.append((s2, envt))     # the validation call may raise: the handler path continues
    seen_msgs = set()
    for a, msg in problems:
        if msg in seen_msgs:
            continue
        seen_msgs.add(msg)
        r.violation('AbstractGrader.ensure_text_inputs: return', 'a return hands back input that was not validated as text under the matching allow_* flag: ' + msg,
                    lib.loc(base, a))
    if not problems:
        if unknowns:
            a, msg = unknowns[0]
            r.undecided('AbstractGrader.ensure_text_inputs: return', msg, lib.loc(base, a))
        elif n_ok:
            r.ok('AbstractGrader.ensure_text_inputs: returns', 'Schema([str]) / Schema(str) under the matching kind and flag in all 8 cases (%d returns reached)' % n_ok, base.loc)
            r.ok('AbstractGrader.ensure_text_inputs: returns [list]', 'list inputs validated item by item', base.loc, nontrivial=False)
        else:
            r.undecided('AbstractGrader.ensure_text_inputs: return', 'no return of a validated input found', base.loc)


def _innermost_if_test(node):
    """Conjunction of tests of the if/elif branches that lead to node (only positive branches handled)."""
    child = node
    for a in ancestors(node):
        if isinstance(a, ast.If):
            if any(child is s for s in a.body):
                return a.test
            return None
        child = a
    return None


# ----------------------------------------------------------------------------- D4
INTERNAL_NON_MITX = {'mitxgraders.matrixsampling.Retry', 'mitxgraders.helpers.munkres.UnsolvableMatrix'}
DISJOINT = ('mitxgraders.exceptions.StudentFacingError', 'mitxgraders.exceptions.ConfigError')


def d4_hierarchy(ctx, idx):
    r = ctx.rule('D4.HIER', 'every exception class of the package descends from MITxError', floor=21)
    with r:
        n = 0
        for q, ci in sorted(idx.classes.items()):
            if not q.startswith('mitxgraders.'):
                continue
            is_exc = any(b.split('.')[-1] in ('Exception', 'BaseException') or b.split('.')[-1].endswith('Error')
                         for b in ci.mro[1:]) or any(x in ('Exception', 'BaseException') for x in ci.mro)
            if not is_exc:
                continue
            n += 1
            if lib.MITX_ERROR in ci.mro:
                both = [d for d in DISJOINT if d in ci.mro]
                if len(both) == 2:
                    r.violation(q, 'class is both a StudentFacingError and a ConfigError', ci.loc)
                else:
                    r.ok(q, 'descends from MITxError via %s' % ' > '.join(x.split('.')[-1] for x in ci.mro[1:4]), ci.loc)
            elif q in INTERNAL_NON_MITX:
                r.ok(q, 'reviewed internal control-flow exception', ci.loc, nontrivial=False)
            else:
                r.violation(q, 'exception class does not descend from MITxError (bases: %s): when raised while grading '
                            'it is not recognised as a library error' % ', '.join(ci.bases), ci.loc,
                            expected='subclass of MITxError', found=', '.join(ci.bases))
        # AbstractGrader.__call__ re-raises library errors as error.__class__(<one message string>): every class of the
        # hierarchy must accept exactly that call, otherwise the re-raise itself fails with TypeError inside the handler
        for q, ci in sorted(idx.classes.items()):
            if not q.startswith('mitxgraders.') or lib.MITX_ERROR not in ci.mro:
                continue
            init = None
            for k in ci.mro:
                kc = idx.classes.get(k)
                if kc is not None and '__init__' in kc.methods:
                    init = kc.methods['__init__']
                    break
                if kc is not None and '__new__' in kc.methods:
                    init = kc.methods['__new__']
                    break
            if init is None:
                continue
            a = init.node.args
            pos = a.posonlyargs + a.args
            required = len(pos) - len(a.defaults) - 1          # minus self
            kwreq = [x.arg for x, d in zip(a.kwonlyargs, a.kw_defaults) if d is None]
            accepts_one = (required <= 1 and (len(pos) - 1 >= 1 or a.vararg is not None)) and not kwreq
            r.check(accepts_one, '%s: constructor' % q, 'accepts a single message argument',
                    '%s defines %s with %d required arguments%s: the re-raise `error.__class__(message)` in AbstractGrader.__call__ '
                    'raises TypeError for this class, and that non-library exception escapes to edX' % (
                        q.split('.')[-1], init.qualname.split('.')[-1], required, (' and required keywords %s' % kwreq) if kwreq else ''),
                    init.loc, expected='__init__(self, message)')
        sf = idx.cls(DISJOINT[0])
        ce = idx.cls(DISJOINT[1])
        r.check(DISJOINT[1] not in sf.mro and DISJOINT[0] not in ce.mro, 'StudentFacingError / ConfigError',
                'disjoint branches', 'StudentFacingError and ConfigError are no longer disjoint branches', sf.loc)
        # the calc errors are student-facing
        calc = idx.cls('mitxgraders.helpers.calc.exceptions.CalcError')
        r.check(DISJOINT[0] in calc.mro, 'CalcError', 'student-facing', 'CalcError is no longer a StudentFacingError', calc.loc)
        # Retry is caught where it is raised; UnsolvableMatrix only raised inside munkres
        for q in sorted(INTERNAL_NON_MITX):
            name = q.split('.')[-1]
            sites = []
            for f in idx.package_funcs():
                for rs in lib.raises_of(f.node):
                    if nf.exc_class_name(rs.exc) == name:
                        sites.append((f, rs))
            if name == 'Retry':
                gs = idx.func('mitxgraders.matrixsampling.ArraySamplingSet.generate_sample')
                caught = any('Retry' in lib.handler_class_names(h) for t in lib.stmts_in(gs.node, ast.Try) for h in t.handlers)
                r.check(caught, 'Retry', 'caught in ArraySamplingSet.generate_sample',
                        'Retry is no longer caught in generate_sample: it escapes as a non-library exception', gs.loc)
            for f, rs in sites:
                if not f.module.name.endswith(('matrixsampling', 'munkres')):
                    r.violation(name, 'internal exception %s raised outside its module, in %s' % (name, f.qualname), lib.loc(f, rs))


# ----------------------------------------------------------------------------- D5
def d5_translations(ctx, idx):
    r = ctx.rule('D5.TRANSLATE', 'anticipated failures keep/obtain their specific library class', floor=9)
    ME = 'mitxgraders.helpers.calc.expressions.MathExpression'
    with r:
        # eval: OverflowError -> CalcOverflowError, ZeroDivisionError -> CalcZeroDivisionError around eval_node
        fi = idx.func(ME + '.eval')
        call = lib.one_call(fi, 'eval_node')
        tr = lib.enclosing_try(call)
        _expect_translation(r, idx, fi, tr, call, {'OverflowError': 'CalcOverflowError', 'ZeroDivisionError': 'CalcZeroDivisionError'},
                            'MathExpression.eval')
        # eval_function
        fi = idx.func(ME + '.eval_function')
        fcalls = [c for c in walk_own(fi.node) if isinstance(c, ast.Call) and c.args and isinstance(c.args[0], ast.Starred)
                  and isinstance(c.func, ast.Name)]
        if len(fcalls) != 1:
            raise AnalysisError('eval_function: cannot find the func(*args) call')
        tr = lib.enclosing_try(fcalls[0])
        _expect_translation(r, idx, fi, tr, fcalls[0], {'OverflowError': 'CalcOverflowError', 'ZeroDivisionError': 'CalcZeroDivisionError',
                                                        'Exception': 'FunctionEvalError'}, 'MathExpression.eval_function')
        if tr is not None:
            order = [lib.handler_class_names(h) for h in tr.handlers]
            flat = [x[0] for x in order]
            # a StudentFacingError raised by the function must escape unchanged: the first handler that catches it
            # (its own clause, or a merged catch-all that dispatches with isinstance) re-raises it as it is
            sfh = None
            for cand in tr.handlers:
                names = lib.handler_class_names(cand)
                if any(n == 'StudentFacingError' or n in ('Exception', 'BaseException', 'MITxError') for n in names):
                    sfh = cand
                    break
            construct = 'MathExpression.eval_function: except StudentFacingError'
            if sfh is None:
                r.violation(construct, 'no handler catches StudentFacingError before... (no catch-all either): errors of functions are not recast at all',
                            lib.loc(fi, tr))
            else:
                verdicts = []
                for p in nf.decision_paths(sfh.body):
                    feasible, unknown = True, False
                    for g in p.guards:
                        tv = _isinstance_truth_lib(g, sfh.name, 'StudentFacingError')
                        if tv is False:
                            feasible = False
                            break
                        if tv is None:
                            unknown = True
                    if not feasible:
                        continue
                    same = p.leaf.kind == 'raise' and (p.leaf.expr is None or (isinstance(p.leaf.expr, ast.Name) and p.leaf.expr.id == sfh.name))
                    verdicts.append((same, unknown, p))
                if not verdicts:
                    r.undecided(construct, 'no path recognised for StudentFacingError', lib.loc(fi, sfh))
                elif all(v[0] for v in verdicts):
                    r.ok(construct, 're-raised unchanged before any recasting', lib.loc(fi, sfh))
                elif any(not v[0] and not v[1] for v in verdicts):
                    bad = [v for v in verdicts if not v[0] and not v[1]][0][2]
                    r.violation(construct, 'a StudentFacingError raised by a function (e.g. a domain error) is recast as %s instead of being '
                                're-raised unchanged' % (nf.exc_class_name(bad.leaf.expr) if bad.leaf.kind == 'raise' else 'a return value'),
                                lib.loc(fi, bad.leaf.stmt or sfh))
                else:
                    r.undecided(construct, 'dispatch inside the handler not recognised', lib.loc(fi, sfh))
            for i, names in enumerate(order):
                for j in range(i):
                    for a in order[j]:
                        for b in names:
                            if a != b and lib.exc_is_subclass(idx, fi.module, b, a):
                                r.violation('MathExpression.eval_function: handler order', 'handler for %s is unreachable: the earlier '
                                            'handler for %s subsumes it' % (b, a), lib.loc(fi, tr.handlers[i]))
        # validation of arity precedes the call for unvalidated callables
        vcall = lib.calls_named(fi.node, 'validate_function_call')
        if vcall:
            r.check(lib.dominated(fi, vcall, fcalls) or _guarded_by_validated(vcall[0]),
                    'MathExpression.eval_function: arity validation', 'precedes the call',
                    'arity validation no longer precedes the function call', lib.loc(fi, vcall[0]))
        else:
            r.violation('MathExpression.eval_function: arity validation', 'validate_function_call is no longer called', fi.loc)
        # parse: ParseException -> UnableToParse ; raw_parse: BracketValidator.validate before parseString
        MP = 'mitxgraders.helpers.calc.expressions.MathParser'
        fi = idx.func(MP + '.parse')
        call = lib.one_call(fi, 'raw_parse')
        tr = lib.enclosing_try(call)
        _expect_translation(r, idx, fi, tr, call, {'ParseException': 'UnableToParse'}, 'MathParser.parse')
        # pyparsing raises ParseSyntaxException (a ParseFatalException -- NOT a ParseException) when an element after an error
        # stop (`a - b`) fails; a grammar that contains such a stop needs a handler for it, or the unparseable formula leaves
        # parse() untranslated and is replaced by the generic error
        try:
            from .. import grammar as _grammar
            g = _grammar.extract(idx)
            stops = [t for t in g.error_stops if g.reachable(t)]
        except AnalysisError as e:
            stops = None
            r.undecided('MathParser.parse: error stops', 'grammar not analysable: %s' % e, fi.loc)
        if stops is not None:
            caught = set()
            for h in (tr.handlers if tr is not None else []):
                caught.update(lib.handler_class_names(h))
            wide = caught & {'ParseBaseException', 'ParseFatalException', 'ParseSyntaxException', 'Exception', 'BaseException'}
            if stops and not wide:
                t0 = stops[0]
                r.violation('MathParser.parse: error stops', 'the grammar contains %d error stop(s) (`a - b`, e.g. `%s`): when the part after '
                            'the stop fails pyparsing raises ParseSyntaxException, which is not a ParseException, so `except %s` does not '
                            'translate it: the student gets the generic "Could not check input" error instead of UnableToParse'
                            % (len(stops), short(getattr(t0, 'node', None)) if getattr(t0, 'node', None) is not None else '-', '/'.join(sorted(caught)) or '?'),
                            lib.loc(fi, tr) if tr is not None else fi.loc, expected='no error stop, or except ParseBaseException')
            else:
                r.ok('MathParser.parse: error stops', 'none in the grammar' if not stops else 'handled by %s' % sorted(wide), fi.loc, nontrivial=bool(stops))
        fi = idx.func(MP + '.raw_parse')
        v = lib.calls_named(fi.node, 'validate')
        p = lib.calls_named(fi.node, 'parseString')
        if not p:
            raise AnalysisError('raw_parse: no parseString call')
        if not v:
            r.violation('MathParser.raw_parse', 'BracketValidator.validate is no longer called: unbalanced brackets lose their '
                        'specific UnbalancedBrackets error', fi.loc)
        else:
            r.check(lib.dominated(fi, v, p), 'MathParser.raw_parse: bracket validation', 'dominates parseString',
                    'parseString can run before/without bracket validation', lib.loc(fi, v[0]))
        # MatrixGrader.check_response: subclass handler before superclass handler
        fi = idx.func('mitxgraders.formulagrader.matrixgrader.MatrixGrader.check_response')
        trs = lib.stmts_in(fi.node, ast.Try)
        if len(trs) != 1:
            raise AnalysisError('MatrixGrader.check_response: expected one try')
        order = [lib.handler_class_names(h) for h in trs[0].handlers]
        bad = False
        for i, names in enumerate(order):
            for j in range(i):
                for a in order[j]:
                    for b in names:
                        ra, rb = _alias(idx, fi.module, a), _alias(idx, fi.module, b)
                        if ra != rb and lib.exc_is_subclass(idx, fi.module, rb, ra.split('.')[-1]):
                            bad = True
                            r.violation('MatrixGrader.check_response: handler order', 'the handler for %s can never run: the earlier '
                                        'handler for %s subsumes it, so shape errors follow the wrong policy' % (b, a),
                                        lib.loc(fi, trs[0].handlers[i]))
        if not bad:
            r.ok('MatrixGrader.check_response: handler order', 'no handler is subsumed by an earlier one: %s' % order, lib.loc(fi, trs[0]))
        for h in trs[0].handlers:
            for p_ in nf.decision_paths(h.body):
                if p_.leaf.kind == 'raise' and p_.leaf.expr is not None:
                    cn = nf.exc_class_name(p_.leaf.expr)
                    if not lib.exc_is_subclass(idx, fi.module, _alias(idx, fi.module, cn).split('.')[-1], 'MITxError'):
                        r.violation('MatrixGrader.check_response: except %s' % lib.handler_class_names(h), 'raises non-library %s' % cn,
                                    lib.loc(fi, p_.leaf.stmt))
                elif p_.leaf.kind == 'fall':
                    pass


def _alias(idx, module, name):
    """Follow `ShapeError = MathArrayShapeError`-style aliases to a class name."""
    kind, obj = idx.resolve_name(module, name)
    if kind == 'class':
        return obj.qualname
    if kind == 'value':
        mod, nm = obj
        vals = mod.assigns.get(nm, [])
        if len(vals) == 1 and isinstance(vals[0], (ast.Name, ast.Attribute)):
            return _alias(idx, mod, unparse(vals[0]).split('.')[-1])
    return name


def _guarded_by_validated(call):
    for a in ancestors(call):
        if isinstance(a, ast.If):
            return 'validated' in unparse(a.test)
    return False


def _expect_translation(r, idx, fi, tr, call, mapping, label):
    where = lib.loc(fi, call)
    if tr is None:
        r.violation(label, 'the call `%s` is no longer inside a try: %s escape untranslated' % (short(call), sorted(mapping)), where)
        return
    handlers = {}
    for h in tr.handlers:
        for n in lib.handler_class_names(h):
            handlers.setdefault(n, h)
    for src, dst in mapping.items():
        construct = '%s: except %s' % (label, src)
        # the first handler (in order) that catches src
        h = None
        for cand in tr.handlers:
            names = lib.handler_class_names(cand)
            if any(n == src or _builtin_subclass(src, n) for n in names):
                h = cand
                break
        if h is None:
            r.violation(construct, 'handler missing: %s raised by `%s` is no longer turned into %s' % (src, short(call, 50), dst),
                        lib.loc(fi, tr), expected='except %s: raise %s' % (src, dst))
            continue
        err = h.name
        paths = nf.decision_paths(h.body)
        ok = True
        decided = False
        for p in paths:
            # keep only the paths an exception of class src can take (isinstance dispatch inside a merged handler)
            feasible = True
            unknown = False
            for g in p.guards:
                tv = _isinstance_truth(g, err, src)
                if tv is False:
                    feasible = False
                    break
                if tv is None:
                    unknown = True
            if not feasible:
                continue
            decided = True
            if p.leaf.kind != 'raise':
                if _delegates_to_raising_helper(idx, fi, p):
                    r.undecided(construct, 'delegates to a helper that always raises', lib.loc(fi, h))
                    ok = None
                    continue
                ok = False
                r.violation(construct, 'handler %s instead of raising %s' % ('returns a value' if p.leaf.kind == 'ret' else 'falls through', dst),
                            lib.loc(fi, h))
            elif nf.exc_class_name(p.leaf.expr) != dst:
                raised = p.leaf.expr
                is_class = False
                cn = nf.exc_class_name(raised)
                if cn:
                    kind, obj = idx.resolve_name(fi.module, cn) if cn.isidentifier() else (None, None)
                    is_class = kind == 'class' or cn in ('ValueError', 'TypeError', 'Exception', 'KeyError', 'IndexError', 'ZeroDivisionError',
                                                         'OverflowError', 'RuntimeError', 'AttributeError', 'ArithmeticError')
                if raised is not None and not is_class:
                    # the raised object is computed (a helper that builds or selects the error, a table lookup): not decided here
                    r.undecided(construct, 'the raised object `%s` is computed, not an exception class applied here' % short(raised), lib.loc(fi, p.leaf.stmt))
                    ok = None
                    continue
                if unknown:
                    r.undecided(construct, 'a path with an unrecognised guard raises %s' % (nf.exc_class_name(p.leaf.expr) or 'the caught error'), lib.loc(fi, h))
                    ok = None
                    continue
                ok = False
                found = nf.exc_class_name(p.leaf.expr) or 'bare re-raise'
                r.violation(construct, '%s is translated to %s instead of %s' % (src, found, dst), lib.loc(fi, p.leaf.stmt),
                            expected=dst, found=found)
        if not decided:
            r.undecided(construct, 'no path of the handler recognised for %s' % src, lib.loc(fi, h))
        elif ok:
            r.ok(construct, 'raises %s' % dst, lib.loc(fi, h))


def _builtin_subclass(name, base):
    cur = name
    seen = set()
    while cur and cur not in seen:
        if cur == base:
            return True
        seen.add(cur)
        cur = lib.BUILTIN_EXC_PARENTS.get(cur)
    return base in ('BaseException',) and name != base


def _isinstance_truth_lib(g, err, src):
    """Same for a library class src (only equality / catch-all classes are decided)."""
    neg = False
    if isinstance(g, ast.UnaryOp) and isinstance(g.op, ast.Not):
        neg = True
        g = g.operand
    if isinstance(g, ast.Call) and isinstance(g.func, ast.Name) and g.func.id == 'isinstance' and len(g.args) == 2 \
            and isinstance(g.args[0], ast.Name) and (err is None or g.args[0].id == err):
        classes = g.args[1].elts if isinstance(g.args[1], ast.Tuple) else [g.args[1]]
        names = [unparse(c).split('.')[-1] for c in classes]
        if any(n in (src, 'MITxError', 'Exception', 'BaseException') for n in names):
            tv = True
        elif all(n in lib.BUILTIN_EXC_PARENTS or n in ('ArithmeticError',) for n in names):
            tv = False
        else:
            return None
        return (not tv) if neg else tv
    return None


def _isinstance_truth(g, err, src):
    """Truth of a handler guard for an exception of builtin class src: True / False / None (unknown)."""
    neg = False
    if isinstance(g, ast.UnaryOp) and isinstance(g.op, ast.Not):
        neg = True
        g = g.operand
    if isinstance(g, ast.Call) and isinstance(g.func, ast.Name) and g.func.id == 'isinstance' and len(g.args) == 2 \
            and isinstance(g.args[0], ast.Name) and (err is None or g.args[0].id == err):
        classes = g.args[1].elts if isinstance(g.args[1], ast.Tuple) else [g.args[1]]
        names = [unparse(c).split('.')[-1] for c in classes]
        tv = any(_builtin_subclass(src, n) for n in names)
        # library classes are never superclasses of builtin errors
        return (not tv) if neg else tv
    return None


# ----------------------------------------------------------------------------- D6
def d6_numpy_state(ctx, idx):
    r = ctx.rule('D6.NPSTATE', 'numpy floating-point errors are turned into exceptions exactly once, at import', floor=5)
    with r:
        sites = []
        for m in idx.package_modules():
            for n in ast.walk(m.tree):
                if isinstance(n, ast.Call) and nf.callee_name(n) in ('seterr', 'seterrcall', 'errstate', 'seterrobj'):
                    sites.append((m, n))
        mexpr = idx.module('mitxgraders.helpers.calc.expressions')
        top = {id(s.value): s for s in mexpr.tree.body if isinstance(s, ast.Expr) and isinstance(s.value, ast.Call)}
        seen = {}
        for m, n in sites:
            name = nf.callee_name(n)
            where = lib.mloc(m, n)
            if m is mexpr and id(n) in top:
                seen.setdefault(name, []).append(n)
                continue
            r.violation('%s: np.%s' % (m.name, name), 'numpy error state is changed outside the import-time configuration '
                        '(`%s`): process-wide floating-point handling no longer matches what the evaluator relies on' % short(n), where)
        for name in ('seterr', 'seterrcall'):
            if len(seen.get(name, [])) != 1:
                r.violation('expressions.py: np.%s' % name, 'expected exactly one unconditional module-level call, found %d'
                            % len(seen.get(name, [])), mexpr.relpath)
        if len(seen.get('seterr', [])) == 1:
            c = seen['seterr'][0]
            kws = {k.arg: nf.const_value(k.value) for k in c.keywords}
            if 'all' in kws:
                # np.seterr(all=X) sets divide, over, under and invalid at once (explicit keywords override it)
                for k in ('divide', 'over', 'under', 'invalid'):
                    kws.setdefault(k, kws['all'])
            for k in ('divide', 'over', 'invalid'):
                r.check(kws.get(k) == 'call', "np.seterr(%s=...)" % k, "'call'",
                        "np.seterr no longer sets %s='call' (found %r): such floating-point errors yield inf/nan silently" % (k, kws.get(k)),
                        lib.mloc(mexpr, c), expected="'call'", found=repr(kws.get(k)))
            if kws.get('under') not in (None, 'ignore'):
                r.violation("np.seterr(under=...)", 'underflow handling changed to %r: handle_np_floating_errors has no branch for '
                            'underflow, so a tiny but valid result (exp(-1000)) is turned into an error instead of a value near 0' % kws.get('under'),
                            lib.mloc(mexpr, c), expected="under left at 'ignore'")
        if len(seen.get('seterrcall', [])) == 1:
            c = seen['seterrcall'][0]
            ok = len(c.args) == 1 and isinstance(c.args[0], ast.Name) and c.args[0].id == 'handle_np_floating_errors'
            r.check(ok, 'np.seterrcall', 'handle_np_floating_errors', 'np.seterrcall is given `%s`' % short(c), lib.mloc(mexpr, c))
        h = idx.func('mitxgraders.helpers.calc.expressions.handle_np_floating_errors')
        want = {'divide by zero': 'ZeroDivisionError', 'overflow': 'OverflowError', 'value': 'ValueError'}
        got = {}
        table_loop = _np_error_table(idx, h)
        if table_loop is not None:
            got.update(table_loop)
        elif lib.loops_of(h.node):
            raise AnalysisError('handle_np_floating_errors: loop form not recognised')
        for p in nf.decision_paths(h.node.body):
            if p.leaf.kind != 'raise':
                r.violation('handle_np_floating_errors', 'a path returns instead of raising: the floating-point error is ignored', h.loc)
                continue
            pos = [g for g in p.guards if isinstance(g, ast.Compare) and isinstance(g.ops[0], ast.In)
                   and isinstance(g.left, ast.Constant)]
            if pos:
                got[pos[-1].left.value] = nf.exc_class_name(p.leaf.expr)
        got_next = _np_error_next(idx, h)
        if got_next:
            for k_, v_ in got_next.items():
                got.setdefault(k_, v_)
        # a raise whose operand is a local (chosen by a table lookup, next(...), a dict) is not read by the paths above
        computed = [x for x in lib.raises_of(h.node) if isinstance(x.exc, ast.Name) and not _known_exc_class(idx, h.module, x.exc)]
        for k, v in want.items():
            if k not in got and computed:
                r.undecided("handle_np_floating_errors: '%s'" % k, 'the class raised is computed (`%s`): which class a %r message '
                            'leads to is not decided' % (short(lib.enclosing_stmt(computed[0])), k), h.loc)
                continue
            r.check(got.get(k) == v, "handle_np_floating_errors: '%s'" % k, v,
                    "'%s' errors raise %s instead of %s" % (k, got.get(k), v), h.loc, expected=v, found=str(got.get(k)))


def _np_error_next(idx, h):
    """`cls = next((c for frag, c in TABLE if frag in err), None); ...; raise cls` with TABLE a literal of pairs: the first-match
    chain the normaliser's reduce_table_next makes of it -> {frag: class name}; None when the function has no such shape."""
    import types
    from .. import normalize
    from ..index import clone
    fn = clone(h.node)
    shim = types.SimpleNamespace(node=fn, module=h.module, cls=None, qualname=h.qualname)
    try:
        if not normalize.reduce_table_next(idx, shim):
            return None
    except Exception:
        return None
    errp = h.params[0]
    raised = {x.exc.id for x in ast.walk(fn) if isinstance(x, ast.Raise) and isinstance(x.exc, ast.Name)}
    out = {}
    for n in ast.walk(fn):
        if isinstance(n, ast.Assign) and len(n.targets) == 1 and isinstance(n.targets[0], ast.Name) and n.targets[0].id in raised:
            e = n.value
            while isinstance(e, ast.IfExp):
                t = e.test
                if not (isinstance(t, ast.Compare) and len(t.ops) == 1 and isinstance(t.ops[0], ast.In) and isinstance(t.left, ast.Constant)
                        and isinstance(t.comparators[0], ast.Name) and t.comparators[0].id == errp):
                    return None
                if t.left.value not in out:
                    out[t.left.value] = nf.exc_class_name(e.body)
                e = e.orelse
    return out or None


def _np_error_table(idx, h):
    """`for frag, cls in TABLE: if frag in err: raise cls` with TABLE a module-level literal of pairs -> {frag: class name}."""
    loops = lib.loops_of(h.node)
    if len(loops) != 1 or not isinstance(loops[0], ast.For):
        return None
    lp = loops[0]
    if not (isinstance(lp.target, ast.Tuple) and len(lp.target.elts) == 2 and all(isinstance(e, ast.Name) for e in lp.target.elts)):
        return None
    frag, cls = lp.target.elts[0].id, lp.target.elts[1].id
    if len(lp.body) != 1 or not isinstance(lp.body[0], ast.If) or lp.body[0].orelse:
        return None
    test = nf.canon(lp.body[0].test)
    errp = h.params[0]
    if nf.match('%s in %s' % (frag, errp), test) is None:
        return None
    body = lp.body[0].body
    if len(body) != 1 or not isinstance(body[0], ast.Raise) or nf.exc_class_name(body[0].exc) != cls:
        return None
    table = lp.iter
    if isinstance(table, ast.Name):
        vals = lib.assigned_value(h.node, table.id) or h.module.assigns.get(table.id, [])
        if len(vals) != 1:
            return None
        table = vals[0]
    if not isinstance(table, (ast.Tuple, ast.List)):
        return None
    out = {}
    for e in table.elts:
        if not (isinstance(e, (ast.Tuple, ast.List)) and len(e.elts) == 2 and isinstance(e.elts[0], ast.Constant)):
            return None
        out[e.elts[0].value] = nf.exc_class_name(e.elts[1])
    return out


# ----------------------------------------------------------------------------- D7
def _literal_text(e):
    """The text of a template expression built from string literals only (concatenation), else None."""
    if isinstance(e, ast.Constant) and isinstance(e.value, str):
        return e.value
    if isinstance(e, ast.BinOp) and isinstance(e.op, ast.Add):
        a, b = _literal_text(e.left), _literal_text(e.right)
        return None if a is None or b is None else a + b
    return None


def _add_parts(e):
    if isinstance(e, ast.BinOp) and isinstance(e.op, ast.Add):
        return _add_parts(e.left) + _add_parts(e.right)
    return [e]


def _has_field(text):
    return '{' in text.replace('{{', '')


def _template_contributions(fi, cfg, call, name):
    """(definition statement, value expr, is_augmented) for every definition of local `name` that reaches `call`."""
    defs = []
    for n in walk_own(fi.node):
        if isinstance(n, ast.Assign) and any(isinstance(t, ast.Name) and t.id == name for t in n.targets):
            defs.append((n, n.value, False))
        elif isinstance(n, ast.AugAssign) and isinstance(n.target, ast.Name) and n.target.id == name:
            defs.append((n, n.value, True))
        elif isinstance(n, (ast.For, ast.With, ast.ExceptHandler, ast.NamedExpr, ast.AnnAssign)):
            tgt = getattr(n, 'target', None)
            if tgt is not None and any(isinstance(x, ast.Name) and x.id == name for x in ast.walk(tgt)):
                defs.append((n, getattr(n, 'value', None) or getattr(n, 'iter', None), False))
    use = cfg.nodes_containing(call)
    if not use:
        return None
    killers = [x for d, _, aug in defs if not aug for x in cfg.nodes_of(d)]
    out = []
    for d, v, aug in defs:
        dn = cfg.nodes_of(d)
        if not dn:
            return None
        blocked = [k for k in killers if k not in dn]
        if cfg.reaches(dn, use, blocked=blocked):
            out.append((d, v, aug))
    return out


def _loop_literal_texts(idx, fi, name):
    """If `name` is bound only as (an element of) the target of for-loops / comprehensions over a literal table (a display, or a class- or
    module-level constant bound once to a display) whose rows hold a string literal at that position: the list of those texts, else None."""
    texts = []
    bound_elsewhere = False
    found = False
    for n in walk_own(fi.node):
        if isinstance(n, (ast.Assign, ast.AugAssign, ast.AnnAssign)):
            ts = n.targets if isinstance(n, ast.Assign) else [n.target]
            if any(isinstance(x, ast.Name) and x.id == name for t in ts for x in ast.walk(t)):
                bound_elsewhere = True
        tgt, it = None, None
        if isinstance(n, ast.For):
            tgt, it = n.target, n.iter
        elif isinstance(n, ast.comprehension):
            tgt, it = n.target, n.iter
        if tgt is None:
            continue
        pos = None
        if isinstance(tgt, ast.Name) and tgt.id == name:
            pos = ()
        elif isinstance(tgt, (ast.Tuple, ast.List)):
            for i, e in enumerate(tgt.elts):
                if isinstance(e, ast.Name) and e.id == name:
                    pos = (i,)
        if pos is None:
            continue
        table = it
        if isinstance(table, ast.Attribute):
            v = None
            if fi.cls is not None:
                v = idx.lookup_attr(fi.cls, table.attr)
            if v is None and isinstance(table.value, ast.Name):
                kind, obj = idx.resolve_name(fi.module, table.value.id)
                if kind == 'class':
                    v = idx.lookup_attr(obj, table.attr)
            if isinstance(v, tuple):
                v = v[-1]       # lookup_attr returns (defining class, value node)
            table = v
        elif isinstance(table, ast.Name):
            vals = fi.module.assigns.get(table.id, [])
            table = vals[0] if len(vals) == 1 else None
        if not isinstance(table, (ast.Tuple, ast.List)):
            return None
        for row in table.elts:
            cell = row
            if pos:
                if not isinstance(row, (ast.Tuple, ast.List)) or len(row.elts) <= pos[0]:
                    return None
                cell = row.elts[pos[0]]
            t = _literal_text(cell)
            if t is None:
                return None
            texts.append(t)
        found = True
    if not found or bound_elsewhere or name in fi.all_params:
        return None
    return texts


def d7_templates(ctx, idx):
    r = ctx.rule('D7.TEMPLATE', 'a message template handed to str.format consists of literal text only: data (names, student text, '
                 'configured strings) enters through the arguments, never through the template', floor=90)
    with r:
        for fi in idx.package_funcs():
            if '.voluptuous.' in fi.qualname or fi.qualname.startswith('voluptuous'):
                continue
            calls = [n for n in walk_own(fi.node) if isinstance(n, ast.Call) and isinstance(n.func, ast.Attribute)
                     and n.func.attr == 'format' and not (isinstance(n.func.value, ast.Name) and n.func.value.id in ('string', 'np', 'numpy'))]
            # f-strings and %-formatting with a literal left operand are literal templates by construction; counting them keeps
            # the instance count stable when .format calls are modernised
            for n in walk_own(fi.node):
                if isinstance(n, ast.JoinedStr) and any(isinstance(v, ast.FormattedValue) for v in n.values):
                    r.ok('%s: `%s`' % (fi.qualname[len('mitxgraders.'):], short(n)), 'f-string: literal template by construction', lib.loc(fi, n))
                elif isinstance(n, ast.BinOp) and isinstance(n.op, ast.Mod) and _literal_text(n.left) is not None:
                    r.ok('%s: `%s`' % (fi.qualname[len('mitxgraders.'):], short(n)), '%-formatting of a literal template', lib.loc(fi, n))
            if not calls:
                continue
            cfgs = {}

            def the_cfg():
                if 'c' not in cfgs:
                    cfgs['c'] = cfg_of(fi.node)
                return cfgs['c']

            for c in calls:
                recv = c.func.value
                what = '%s: `%s`' % (fi.qualname[len('mitxgraders.'):], short(c))
                if _literal_text(recv) is not None:
                    r.ok(what, 'literal template', lib.loc(fi, c))
                    continue
                if isinstance(recv, ast.Attribute):
                    # class-level template attributes (debug appendix templates): literal in the class body
                    v = None
                    if fi.cls is not None and isinstance(recv.value, ast.Name):
                        v = idx.lookup_attr(fi.cls, recv.attr)
                        if isinstance(v, tuple):
                            v = v[-1]
                    if v is not None and _literal_text(v) is not None:
                        r.ok(what, 'class-level literal template', lib.loc(fi, c))
                    continue

                def pieces(x, depth=0, busy=()):
                    """[(kind, node-or-text, defining stmt)]: kind 'lit' (text), 'data' (a non-literal value concatenated in),
                    'opaque' (a template obtained as a whole from elsewhere: parameter, attribute, call)."""
                    t = _literal_text(x)
                    if t is not None:
                        return [('lit', t, None)]
                    if isinstance(x, ast.BinOp) and isinstance(x.op, ast.Add):
                        out = []
                        for side in (x.left, x.right):
                            ps = pieces(side, depth, busy)
                            out += [('data', p[1], p[2]) if p[0] == 'opaque' else p for p in ps]
                        return out
                    if isinstance(x, ast.Name) and depth < 4 and x.id not in busy:
                        lt = _loop_literal_texts(idx, fi, x.id)
                        if lt is not None:
                            return [('lit', ' '.join(lt), None)]
                        cs = _template_contributions(fi, the_cfg(), c, x.id)
                        if cs:
                            out = []
                            for d, v, aug in cs:
                                if v is None:
                                    out.append(('opaque', x, d))
                                    continue
                                ps = pieces(v, depth + 1, busy + (x.id,))
                                if aug:
                                    ps = [('data', p[1], d) if p[0] == 'opaque' else p for p in ps]
                                out += [(k, n, dd or d) for k, n, dd in ps]
                            return out
                    return [('opaque', x, None)]

                ps = pieces(recv)
                kinds = {k for k, _, _ in ps}
                if kinds == {'lit'}:
                    r.ok(what, 'template built from literal text only (%d piece(s), through locals)' % len(ps), lib.loc(fi, c))
                    continue
                has_field = any(k == 'lit' and _has_field(n) for k, n, _ in ps)
                data = [(n, d) for k, n, d in ps if k == 'data']
                if has_field and data:
                    n, d = data[0]
                    r.violation(what, 'data is concatenated into the template before it is formatted (`%s`%s): a brace in that text (names '
                                'with tensor indices such as X_{1} are legal) is read as a replacement field, so the message is garbled or '
                                'str.format raises IndexError/KeyError/ValueError and the anticipated error is replaced by the generic '
                                '"Could not check input" message' % (short(n), ', `%s` line %d' % (short(d), d.lineno) if d is not None else ''),
                                lib.loc(fi, c), expected='format the literal template first, then append the data')
                # a template obtained as a whole from elsewhere (author-supplied) is not decided here


# ----------------------------------------------------------------------------- D8
def d8_unbound(ctx, idx):
    from .. import defuse
    r = ctx.rule('D8.UNBOUND', 'no local variable is read on a parameter-determined path on which it was never bound '
                 '(UnboundLocalError is not a library error)', floor=200)
    with r:
        for fi in idx.package_funcs():
            if '.voluptuous.' in fi.qualname or fi.qualname.startswith('voluptuous'):
                continue
            try:
                found, st = defuse.unbound_uses(fi.node)
            except RecursionError:
                continue
            if not st['locals']:
                continue
            name = fi.qualname[len('mitxgraders.'):]
            if not found:
                r.ok(name, '%d local(s), %d guard atom(s), %d valuation(s): every decided path binds before use'
                     % (st['locals'], st['atoms'], st['valuations']), fi.loc, nontrivial=st['atoms'] > 0)
            for f in found:
                r.violation('%s: `%s`' % (name, f.name), 'the local `%s` is read at line %d but no assignment to it lies on the path taken %s '
                            '(%s): the call dies with UnboundLocalError, which is not a library error%s'
                            % (f.name, f.node.lineno, f.describe(), ' -> '.join('L%d' % n.lineno for n in f.path if n.ast is not None)[:160],
                               '; this function runs outside the guard of __call__, so the raw exception reaches edX'
                               if fi.qualname.endswith('ensure_text_inputs') else ''),
                            lib.loc(fi, f.node))


# ------------------------------------------------------------------------ self-test
# ---- refactorings seen through by the normaliser (return inside try, literal-table loop, dispatching catch-all), with slips
_TRY_OLD = ("        try:\n            result = self.check(None, student_input)\n        except Exception as error:\n"
            "            if self.config['debug']:\n                raise\n            elif isinstance(error, MITxError):\n"
            "                # we want to re-raise the error with a modified message but the\n"
            "                # same class type, hence calling __class__\n"
            "                raise error.__class__(str(error).replace('\\n', '<br/>'))\n            else:\n"
            "                # Otherwise, give a generic error message\n                if isinstance(student_input, list):\n"
            "                    msg = \"Invalid Input: Could not check inputs '{}'\"\n"
            "                    formatted = msg.format(\"', '\".join(student_input))\n                else:\n"
            "                    msg = \"Invalid Input: Could not check input '{}'\"\n"
            "                    formatted = msg.format(student_input)\n                raise StudentFacingError(formatted)\n")
_TRY_CALL = "        result = self._guarded_check(student_input)\n"
_APPLY_DEF = "    def apply_attempt_based_credit(self, result, attempt_number):\n"
_GUARD_HELPER = ("    def _guarded_check(self, student_input):\n        try:\n            return self.check(None, student_input)\n"
                 "        except %s as error:\n            if self.config['debug']:\n                raise\n"
                 "            if isinstance(error, MITxError):\n"
                 "                raise error.__class__(str(error).replace('\\n', '<br/>'))\n"
                 "            raise self._student_safe_error(student_input)\n\n"
                 "    @staticmethod\n    def _student_safe_error(student_input):\n"
                 "        if isinstance(student_input, list):\n            template = \"Invalid Input: Could not check inputs '{}'\"\n"
                 "            submitted = \"', '\".join(student_input)\n        else:\n"
                 "            template = \"Invalid Input: Could not check input '{}'\"\n            submitted = %s\n"
                 "        return StudentFacingError(template.format(submitted))\n\n")
_EVALFN_OLD = ("        except ZeroDivisionError:\n"
               "            # It would be really nice to tell student the symbolic argument as part of this message,\n"
               "            # but making symbolic argument available would require some nontrivial restructing\n"
               "            msg = (\"There was an error evaluating {name}(...). \"\n"
               "                   \"Its input does not seem to be in its domain.\").format(name=name)\n"
               "            raise CalcZeroDivisionError(msg)\n        except OverflowError:\n"
               "            msg = (\"There was an error evaluating {name}(...). \"\n"
               "                   \"(Numerical overflow).\").format(name=name)\n            raise CalcOverflowError(msg)\n"
               "        except Exception: # pylint: disable=W0703\n"
               "            # Don't know what this is, or how you want to deal with it\n            # Call it a domain issue.\n"
               "            msg = (\"There was an error evaluating {name}(...). \"\n"
               "                   \"Its input does not seem to be in its domain.\").format(name=name)\n"
               "            raise FunctionEvalError(msg)\n")
_EVALFN_NEW = ("        except Exception as error: # pylint: disable=W0703\n"
               "            raise MathExpression._recast(error, name)\n\n"
               "    _RECASTS = (\n%s    )\n\n"
               "    @staticmethod\n    def _recast(error, name):\n"
               "        for caught, replacement, explanation in MathExpression._RECASTS:\n"
               "            if isinstance(error, caught):\n"
               "                msg = (\"There was an error evaluating {name}(...). \" + explanation).format(name=name)\n"
               "                return replacement(msg)\n")
_ROW_ZERO = "        (ZeroDivisionError, CalcZeroDivisionError, \"Its input does not seem to be in its domain.\"),\n"
_ROW_OVER = "        (OverflowError, CalcOverflowError, \"(Numerical overflow).\"),\n"
_ROW_ANY = "        (Exception, FunctionEvalError, \"Its input does not seem to be in its domain.\"),\n"

MUTANTS = [
    Mutant('guarded-check-helper-catches-library-errors-only', BASE,
           [(_TRY_OLD, _TRY_CALL), (_APPLY_DEF, (_GUARD_HELPER % ('MITxError', 'student_input')) + _APPLY_DEF)], None, 'D1'),
    Mutant('guarded-check-helper-generic-message-without-input', BASE,
           [(_TRY_OLD, _TRY_CALL), (_APPLY_DEF, (_GUARD_HELPER % ('Exception', "'...'")).replace("\"', '\".join(student_input)", "'...'") + _APPLY_DEF)], None, 'D1'),
    Mutant('evalfunction-table-catch-all-row-first', EXPR, [(_EVALFN_OLD, _EVALFN_NEW % (_ROW_ANY + _ROW_ZERO + _ROW_OVER))], None, 'D5'),
    Mutant('evalfunction-table-overflow-row-lost', EXPR, [(_EVALFN_OLD, _EVALFN_NEW % (_ROW_ZERO + _ROW_ANY))], None, 'D5'),
    Mutant('grammar-error-stop-escapes-translation (seed C02h)', EXPR, '        parentheses = Group(Suppress("(") +\n', '        parentheses = Group(Suppress("(") -\n', 'D5'),
    Mutant('debuglog-json-without-fallback (F11)', BASE, "json.dumps(self.modified_defaults, default=repr)", "json.dumps(self.modified_defaults)", 'D2'),
    Mutant('override-drops-kwargs (seed C17g)', 'mitxgraders/stringgrader.py',
           "        return super(StringGrader, self).__call__(expect, student_input, **kwargs)",
           "        if expect == '':\n            return super(StringGrader, self).__call__(expect, student_input)\n        return super(StringGrader, self).__call__(expect, student_input, **kwargs)", 'D2'),
    Mutant('suggestion-appended-before-format (F9)', EXPR, '            varnames = "\', \'".join(sorted(bad_vars))\n            message = "Invalid Input: \'{}\' not permitted in answer as a variable".format(varnames)\n\n            # Check to see if there is a different case version of the variable\n            caselist = set()\n            for var2 in bad_vars:\n                for var1 in variables:\n                    if var1.lower() == var2.lower():\n                        caselist.add(var1)\n            if len(caselist) > 0:\n                betternames = "\', \'".join(sorted(caselist))\n                message += " (did you mean \'" + betternames + "\'?)"\n\n            raise UndefinedVariable(message)\n', '            varnames = "\', \'".join(sorted(bad_vars))\n            message = "Invalid Input: \'{}\' not permitted in answer as a variable"\n\n            # Check to see if there is a different case version of the variable\n            caselist = set()\n            for var2 in bad_vars:\n                for var1 in variables:\n                    if var1.lower() == var2.lower():\n                        caselist.add(var1)\n            if len(caselist) > 0:\n                betternames = "\', \'".join(sorted(caselist))\n                message += " (did you mean \'" + betternames + "\'?)"\n\n            raise UndefinedVariable(message.format(varnames))\n', 'D7'),
    Mutant('parse-message-concatenates-input', EXPR, "            msg = \"Invalid Input: Could not parse '{}' as a formula\"\n            raise UnableToParse(msg.format(expression))",
           "            msg = \"Invalid Input: Could not parse '{}' as a formula: \" + expression\n            raise UnableToParse(msg.format(expression))", 'D7'),
    Mutant('unbound-pos-in-text-check (seed C02f)', BASE, "        elif allow_lists:\n            msg = (\"Expected a list of text strings for student_input, but \"",
           "        elif isinstance(student_input, list):\n            msg = (\"Expected a list of text strings for student_input, but \"", 'D8'),
    Mutant('unbound-after-flag-branch', BASE, "        if attempt_number < 1:  # Just in case edX has issues\n            attempt_number = 1\n",
           "        if attempt_number is None:\n            shown = 1\n        self.log(\"Attempt {}\".format(shown))\n", 'D8'),
    Mutant('seterr-all-call (seed C15d)', EXPR, "np.seterr(divide='call', over='call', invalid='call')", "np.seterr(all='call')", 'D6'),
    Mutant('exception-needs-two-arguments (seed C02c)', 'mitxgraders/helpers/calc/exceptions.py', 'class UnbalancedBrackets(CalcError):\n    \"\"\"\n    Indicate when a student\'s input has unbalanced brackets.\n    \"\"\"\n',
           'class UnbalancedBrackets(CalcError):\n    \"\"\"\n    Indicate when a student\'s input has unbalanced brackets.\n    \"\"\"\n    def __init__(self, message, highlight=None, *, formula):\n        super(UnbalancedBrackets, self).__init__(message)\n', 'D4'),
    Mutant('generic-template-tainted', BASE, "                    formatted = msg.format(student_input)", "                    formatted = (msg.format('') + student_input + \"'\").format()", 'D1'),
    Mutant('debuglog-raw-concat', BASE, '"Student Response:\\n" + str(student_input)', '"Student Response:\\n" + student_input', 'D2'),
    Mutant('debuglog-raw-join', BASE, '"\\n".join(map(str, student_input))', '"\\n".join(student_input)', 'D2'),
    Mutant('guard-narrowed', BASE, "        except Exception as error:\n            if self.config['debug']:",
           "        except ValueError as error:\n            if self.config['debug']:", 'D1'),
    Mutant('mitx-reraised-as-generic', BASE, "raise error.__class__(str(error).replace('\\n', '<br/>'))",
           "raise StudentFacingError(str(error).replace('\\n', '<br/>'))", 'D1'),
    Mutant('br-transform-dropped', BASE, "raise error.__class__(str(error).replace('\\n', '<br/>'))",
           "raise error.__class__(str(error))", 'D1'),
    Mutant('generic-raises-runtimeerror', BASE, "                raise StudentFacingError(formatted)", "                raise RuntimeError(formatted)", 'D1'),
    Mutant('generic-hides-input', BASE, "                    formatted = msg.format(student_input)", "                    formatted = msg.format('...')", 'D1'),
    Mutant('debug-gate-weakened', BASE, "            if self.config['debug']:\n                raise\n", "            if self.config['debug'] or True:\n                raise\n", 'D1'),
    Mutant('check-outside-try', BASE, "        try:\n            result = self.check(None, student_input)\n        except Exception as error:",
           "        result = self.check(None, student_input)\n        try:\n            pass\n        except Exception as error:", 'D1'),
    Mutant('handler-returns', BASE, "                raise StudentFacingError(formatted)", "                return {'ok': False, 'grade_decimal': 0, 'msg': formatted}", 'D1'),
    Mutant('ensure-text-skipped', BASE, "        student_input = self.ensure_text_inputs(student_input)\n", "", 'D3'),
    Mutant('itemgrader-allows-lists', BASE, "ensure_text_inputs(student_input, allow_lists=False)", "ensure_text_inputs(student_input, allow_lists=True)", 'D3'),
    Mutant('listgrader-allows-single', 'mitxgraders/listgrader.py', "ensure_text_inputs(student_input, allow_single=False)",
           "ensure_text_inputs(student_input, allow_single=True)", 'D3'),
    Mutant('text-error-class', BASE, "        raise ConfigError(msg)\n\nclass ItemGrader", "        raise TypeError(msg)\n\nclass ItemGrader", 'D3'),
    Mutant('calcerror-rebased', 'mitxgraders/helpers/calc/exceptions.py', "class CalcError(StudentFacingError):", "class CalcError(Exception):", 'D4'),
    Mutant('summationerror-rebased', 'mitxgraders/formulagrader/integralgrader.py', "class SummationError(StudentFacingError):", "class SummationError(ValueError):", 'D4'),
    Mutant('eval-overflow-handler-dropped', EXPR, "        except OverflowError:\n            raise CalcOverflowError(\"Numerical overflow occurred. \"\n                                    \"Does your input generate very large numbers?\")\n", "", 'D5'),
    Mutant('evalfunction-handler-order', EXPR, "        except StudentFacingError:\n            raise\n        except ZeroDivisionError:",
           "        except Exception:\n            raise FunctionEvalError('x')\n        except StudentFacingError:\n            raise\n        except ZeroDivisionError:", 'D5'),
    Mutant('evalfunction-sf-handler-dropped', EXPR, "        except StudentFacingError:\n            raise\n        except ZeroDivisionError:", "        except ZeroDivisionError:", 'D5'),
    Mutant('parse-translation-dropped', EXPR, "        except ParseException:\n            msg = \"Invalid Input: Could not parse '{}' as a formula\"\n            raise UnableToParse(msg.format(expression))",
           "        except ParseException:\n            raise", 'D5'),
    Mutant('bracket-validation-dropped', EXPR, "            BracketValidator.validate(expression)\n            tree =", "            tree =", 'D5'),
    Mutant('matrix-handler-order', 'mitxgraders/formulagrader/matrixgrader.py', "        except ShapeError as err:\n            if self.config['suppress_matrix_messages']:\n                return {'ok': False, 'msg': '', 'grade_decimal': 0}\n            elif self.config['shape_errors']:",
           "        except (ArgumentShapeError, MathArrayError) as err:\n            if self.config['suppress_matrix_messages']:\n                return {'ok': False, 'msg': '', 'grade_decimal': 0}\n            raise\n        except ShapeError as err:\n            if self.config['suppress_matrix_messages']:\n                return {'ok': False, 'msg': '', 'grade_decimal': 0}\n            elif self.config['shape_errors']:", 'D5'),
    Mutant('seterr-dropped', EXPR, "np.seterr(divide='call', over='call', invalid='call')\n", "", 'D6'),
    Mutant('seterr-invalid-ignored', EXPR, "np.seterr(divide='call', over='call', invalid='call')", "np.seterr(divide='call', over='call', invalid='ignore')", 'D6'),
    Mutant('second-seterr', 'mitxgraders/helpers/calc/mathfuncs.py', "def is_nearly_zero(", "np.seterr(all='ignore')\n\ndef is_nearly_zero(", 'D6'),
    Mutant('np-handler-mapping', EXPR, "    elif 'overflow' in err:\n        raise OverflowError", "    elif 'overflow' in err:\n        raise ValueError", 'D6'),
    Mutant('call-override-bypass', 'mitxgraders/stringgrader.py', "        return super(StringGrader, self).__call__(expect, student_input, **kwargs)",
           "        if student_input == '':\n            return self.check(None, student_input)\n        return super(StringGrader, self).__call__(expect, student_input, **kwargs)", 'D2'),
]

BENIGN = [
    Benign('guarded-check-moved-to-helper-with-error-factory', BASE,
           [(_TRY_OLD, _TRY_CALL), (_APPLY_DEF, (_GUARD_HELPER % ('Exception', 'student_input')) + _APPLY_DEF)], None),
    Benign('evalfunction-handlers-as-table-dispatch', EXPR, [(_EVALFN_OLD, _EVALFN_NEW % (_ROW_ZERO + _ROW_OVER + _ROW_ANY))], None),
    Benign('text-schemas-hoisted-to-module-constants', BASE,
           [("                return Schema([str])(student_input)", "                return _TEXT_LIST_SCHEMA(student_input)"),
            ("                return Schema(str)(student_input)", "                return _TEXT_SCHEMA(student_input)"),
            ("class ObjectWithSchema(metaclass=DefaultValuesMeta):", "_TEXT_SCHEMA = Schema(str)\n_TEXT_LIST_SCHEMA = Schema([str])\n\n\nclass ObjectWithSchema(metaclass=DefaultValuesMeta):")], None),
    Benign('template-from-literal-prefix-local', BASE,
           "            msg = (\"There is a problem with the author's problem configuration: \"\n                   \"Expected answers to be a tuple of answers, instead received {}\")\n",
           "            prefix = \"There is a problem with the author's problem configuration: \"\n            msg = prefix + \"Expected answers to be a tuple of answers, instead received {}\"\n"),
    Benign('template-literal-concatenated-at-call', BASE,
           "            msg = (\"There is a problem with the author's problem configuration: \"\n                   \"Expected answers to be a tuple of answers, instead received {}\")\n            raise ConfigError(msg.format(type(answers)))",
           "            tail = \"Expected answers to be a tuple of answers, instead received {}\"\n            raise ConfigError((\"There is a problem with the author's problem configuration: \" + tail).format(type(answers)))"),
    Benign('suffix-message-format-then-append', EXPR, "            raise UndefinedFunction(message)\n\n    def eval(",
           "            message = message + ''\n            raise UndefinedFunction(message)\n\n    def eval("),
    Benign('text-check-elif-equivalent', BASE, "        elif allow_lists:\n            msg = (\"Expected a list of text strings for student_input, but \"",
           "        elif allow_lists and isinstance(student_input, list):\n            msg = (\"Expected a list of text strings for student_input, but \""),
    Benign('log-in-handler', BASE, "        except Exception as error:\n            if self.config['debug']:",
           "        except Exception as error:\n            self.log('grading failed')\n            if self.config['debug']:"),
    Benign('guard-broadened', BASE, "        except Exception as error:\n            if self.config['debug']:",
           "        except BaseException as error:\n            if self.config['debug']:"),
]
