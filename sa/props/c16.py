"""C16 -- each built-in comparer accepts exactly its documented equivalence class."""
import ast

from ..index import AnalysisError, walk_own, walk_all, unparse, short, ancestors, parent
from ..cfg import cfg_of
from .. import nf, lib
from ..selftest import Mutant, Benign
from ._c14_hunks import hunks

ID = 'C16'
CMP = 'mitxgraders/comparers/comparers.py'
LIN = 'mitxgraders/comparers/linear_comparer.py'
BASEC = 'mitxgraders/comparers/baseclasses.py'
MG = 'mitxgraders/formulagrader/matrixgrader.py'
MF = 'mitxgraders/helpers/calc/mathfuncs.py'
FILES = [CMP, LIN, BASEC, MG, MF]

EXPLANATION = (
    "(D1) the decision expression of every built-in comparer, after forward substitution of locals, equals its reference "
    "term modulo the rewrite theory of the engine and its operands carry the right roles (expected vs student, matrix vs "
    "eigenvalue, start vs stop): congruence (both sides reduced by the same modulus), between (non-real refused, closed "
    "bounds), eigenvector (zero vector refused, M.v against lambda.v), vector_span (parameter check, zero refused, "
    "least-squares residual relative to the student's vector), vector_phase (in span AND equal norm), EqualityComparer and MatrixEntryComparer (the configured transform on both sides; "
    "np.all over samples, fraction = matches/size, the four credit branches), LinearComparer (< 3 samples -> ConfigError, "
    "zero_compatible_modes, error_calculators table, zero detection, credit iff fit error nearly zero, max by (credit, "
    "message), estimators called as (student, expected) and regressing y on x), is_nearly_zero (norm(x) <= tolerance, percentage relative to norm(reference)); (D2) in every comparer that "
    "validates shapes the validation dominates each statement that combines the student's value with the expected ones; "
    "(D3) MatrixGrader.check_response: no handler is shadowed by an earlier one and each handler realises its policy truth "
    "table over suppress_matrix_messages / shape_errors / answer_shape_mismatch.is_raised; validate_student_input_shape "
    "returns iff the shapes are equal and raises InputTypeError otherwise; EqualityComparer.validate and the Utils wiring "
    "pass (student, shape) in that order; (D4) numeric type-state: no ordering comparison is applied to a value derived "
    "from the student's evaluation that may still be complex-typed.")
NOT_DECIDED = ("that the numeric tests realise the mathematical classes (least squares, tolerances, floating point); the fit-"
               "error estimators' formulas beyond the orientation of their regressions; the rcond cut-off handed to lstsq (negative or >= 1 = machine precision; "
               "a value in (0, 1) would truncate, no sound threshold); SumGrader's limit "
               "checks (C19); behaviour of author-supplied transforms.")
ASSUMPTIONS = ["comparers are called as comparer(comparer_params_eval, student_eval, utils) by FormulaGrader",
               "np.isreal tests the value, not the type; np.real, abs, np.linalg.norm, len return real-typed values"]

C = 'mitxgraders.comparers.comparers.'
LC = 'mitxgraders.comparers.linear_comparer.LinearComparer'
LMOD = 'mitxgraders.comparers.linear_comparer'
MGQ = 'mitxgraders.formulagrader.matrixgrader.MatrixGrader'
NZ = 'mitxgraders.helpers.calc.mathfuncs.is_nearly_zero'


def check(ctx):
    idx = ctx.index
    d1_congruence(ctx, idx)
    d1_between(ctx, idx)
    d1_eigenvector(ctx, idx)
    d1_span(ctx, idx)
    d1_phase(ctx, idx)
    d1_equality(ctx, idx)
    d1_entry(ctx, idx)
    d1_linear(ctx, idx)
    d1_nearly_zero(ctx, idx)
    d2_order(ctx, idx)
    d3_policy(ctx, idx)
    d3_shape_validation(ctx, idx)
    d4_typestate(ctx, idx)


# ----------------------------------------------------------------------------- helpers
def absent(r, idx, construct, detail, loc='', **kw):
    """Report a construct that was NOT FOUND: a removal (VIOLATION) only when no unreviewed helper could hide it."""
    left = list(getattr(idx, 'unreviewed', None) or [])
    if left:
        r.undecided(construct, detail + ' [not called a removal: helper(s) %s could not be inlined for review]' % ', '.join(left), loc)
    else:
        r.violation(construct, detail, loc, **kw)


def self_contained(idx, fi, construct):
    """The engine turns violations in a file with un-inlined new helpers into analysis-errors (the construct might have moved
    into the helper).  When the judged function calls none of those helpers, its expression was understood completely and the
    finding does not depend on them: say so in the construct (this is what report.py accepts as definite)."""
    left = [q for q in (getattr(idx, 'unreviewed', None) or [])]
    if not left:
        return construct
    called = {nf.callee_name(c) for c in walk_all(fi.node) if isinstance(c, ast.Call)}
    if any(q.rsplit('.', 1)[-1] in called for q in left):
        return construct
    return '%s [self-contained: calls none of %s]' % (construct, ', '.join(left))


def roles(fi, offset=0):
    """(params, student, utils) parameter names of a comparer."""
    p = fi.params[offset:]
    if len(p) < 3:
        raise AnalysisError('%s: comparer signature changed' % fi.qualname)
    return p[0], p[1], p[2]


def unpack_of(fi, source):
    """Names bound by `a, b = <source param>` in the function (in order)."""
    for n in walk_own(fi.node):
        if isinstance(n, ast.Assign) and len(n.targets) == 1 and isinstance(n.targets[0], (ast.Tuple, ast.List)) \
                and isinstance(n.value, ast.Name) and n.value.id == source \
                and all(isinstance(e, ast.Name) for e in n.targets[0].elts):
            return [e.id for e in n.targets[0].elts]
    raise AnalysisError('%s: the parameters are no longer unpacked from %s' % (fi.qualname, source))


def is_name(node, name):
    return isinstance(node, ast.Name) and node.id == name


def mentions(node, names):
    names = {names} if isinstance(names, str) else set(names)
    return bool(lib.names_in(node) & names)


def see_through_unpacking(fi, expr):
    """Replace names bound by `a, b, ... = call(...)` (single binding) with `call(...)[i]`, locals of the call inlined."""
    binds = {}
    counts = {}
    for n in walk_own(fi.node):
        if isinstance(n, ast.Assign):
            for t in n.targets:
                for x in ast.walk(t):
                    if isinstance(x, ast.Name):
                        counts[x.id] = counts.get(x.id, 0) + 1
            if len(n.targets) == 1 and isinstance(n.targets[0], (ast.Tuple, ast.List)) and isinstance(n.value, ast.Call):
                for i, t in enumerate(n.targets[0].elts):
                    if isinstance(t, ast.Name):
                        binds[t.id] = (n.value, i)
    env = {}
    for name, (call, i) in binds.items():
        if counts.get(name) == 1:
            env[name] = ast.Subscript(value=lib.inline_locals(call, fi.node), slice=ast.Constant(value=i), ctx=ast.Load())
    return nf.subst(expr, env) if env else expr


class _FloorMod(ast.NodeTransformer):
    def __init__(self, idx, fi):
        self.idx, self.fi = idx, fi

    def visit_Call(self, node):
        self.generic_visit(node)
        if nf.callee_name(node) in ('mod', 'remainder') and len(node.args) == 2 and not node.keywords:
            d = self.idx.dotted_of(self.fi.module, node.func) if isinstance(node.func, (ast.Attribute, ast.Name)) else None
            if d in ('numpy.mod', 'numpy.remainder', 'operator.mod'):
                return ast.BinOp(left=node.args[0], op=ast.Mod(), right=node.args[1])
        return node


def floor_mod_normal_form(idx, fi, expr):
    from ..index import clone
    return _FloorMod(idx, fi).visit(clone(expr))


def fold_sequence(idx, ci, node, depth=0):
    """Element nodes of a literal / named (class attribute or module constant) tuple or list, concatenations included."""
    if depth > 4:
        raise AnalysisError('table expression nests too deeply')
    if isinstance(node, (ast.Tuple, ast.List)):
        return list(node.elts)
    if isinstance(node, ast.Call) and nf.callee_name(node) in ('tuple', 'list') and len(node.args) == 1 and not node.keywords:
        return fold_sequence(idx, ci, node.args[0], depth + 1)
    if isinstance(node, ast.BinOp) and isinstance(node.op, ast.Add):
        return fold_sequence(idx, ci, node.left, depth + 1) + fold_sequence(idx, ci, node.right, depth + 1)
    if isinstance(node, ast.Name) or (isinstance(node, ast.Attribute) and isinstance(node.value, ast.Name)
                                     and node.value.id in ('self', 'cls', ci.name)):
        name = node.id if isinstance(node, ast.Name) else node.attr
        k, v = idx.lookup_attr(ci, name)
        if v is not None:
            return fold_sequence(idx, ci, v, depth + 1)
        vals = ci.module.assigns.get(name, [])
        if len(vals) == 1:
            return fold_sequence(idx, ci, vals[0], depth + 1)
    raise AnalysisError('sequence `%s` of class %s cannot be folded to a literal' % (short(node), ci.name))


def fold_table(idx, ci, node):
    """(key node, value node) pairs of a dict given as a literal or by generating code: dict(zip(K, V)), dict([(k, v), ...]),
    {k: v for k, v in zip(K, V)}, dict(k=v, ...)."""
    if isinstance(node, ast.Dict):
        if any(k is None for k in node.keys):
            raise AnalysisError('dict literal with ** expansion')
        return list(zip(node.keys, node.values))
    if isinstance(node, ast.Call) and nf.callee_name(node) == 'dict' and isinstance(node.func, ast.Name):
        pairs = []
        if len(node.args) == 1:
            a = node.args[0]
            if isinstance(a, ast.Call) and nf.callee_name(a) == 'zip' and len(a.args) == 2:
                ks, vs = fold_sequence(idx, ci, a.args[0]), fold_sequence(idx, ci, a.args[1])
                if len(ks) != len(vs):
                    raise AnalysisError('dict(zip(...)) of sequences of different length')
                pairs = list(zip(ks, vs))
            else:
                for e in fold_sequence(idx, ci, a):
                    if not (isinstance(e, (ast.Tuple, ast.List)) and len(e.elts) == 2):
                        raise AnalysisError('dict([...]) entry `%s` is not a pair' % short(e))
                    pairs.append((e.elts[0], e.elts[1]))
        elif node.args:
            raise AnalysisError('dict(...) form not recognised')
        pairs += [(ast.Constant(value=k.arg), k.value) for k in node.keywords if k.arg is not None]
        return pairs
    if isinstance(node, ast.DictComp) and len(node.generators) == 1 and not node.generators[0].ifs:
        g = node.generators[0]
        if isinstance(g.iter, ast.Call) and nf.callee_name(g.iter) == 'zip' and len(g.iter.args) == 2 \
                and isinstance(g.target, ast.Tuple) and len(g.target.elts) == 2 and all(isinstance(t, ast.Name) for t in g.target.elts) \
                and is_name(node.key, g.target.elts[0].id) and is_name(node.value, g.target.elts[1].id):
            ks, vs = fold_sequence(idx, ci, g.iter.args[0]), fold_sequence(idx, ci, g.iter.args[1])
            if len(ks) == len(vs):
                return list(zip(ks, vs))
    raise AnalysisError('table `%s` of class %s is neither a dict literal nor a recognised generating form' % (short(node, 80), ci.name))


def eval_set_expr(idx, ci, fi, e, env, depth=0):
    """Value of a small set/sequence/boolean expression over literal tables (class attributes, locals) -- Python sets,
    tuples, strings and booleans only."""
    if depth > 8:
        raise AnalysisError('set expression nests too deeply')
    ev = lambda x: eval_set_expr(idx, ci, fi, x, env, depth + 1)
    if isinstance(e, ast.Constant):
        return e.value
    if isinstance(e, ast.Name):
        if e.id in env:
            return env[e.id]
        vals = lib.assigned_value(fi.node, e.id)
        if len(vals) == 1:
            return ev(vals[0])
        raise AnalysisError('name %s is not a single-assignment local' % e.id)
    if isinstance(e, ast.Attribute) and isinstance(e.value, ast.Name) and e.value.id in ('self', 'cls', ci.name):
        k, v = idx.lookup_attr(ci, e.attr)
        if v is None:
            raise AnalysisError('attribute %s is not a class-level table' % e.attr)
        return tuple(ev(x) for x in fold_sequence(idx, ci, v))
    if isinstance(e, (ast.Tuple, ast.List)):
        return tuple(ev(x) for x in e.elts)
    if isinstance(e, ast.Set):
        return frozenset(ev(x) for x in e.elts)
    if isinstance(e, ast.Call) and isinstance(e.func, ast.Name) and e.func.id in ('set', 'frozenset', 'tuple', 'list', 'sorted') and len(e.args) <= 1:
        v = ev(e.args[0]) if e.args else ()
        return frozenset(v) if e.func.id in ('set', 'frozenset') else tuple(v)
    if isinstance(e, ast.Call) and isinstance(e.func, ast.Attribute) and e.func.attr in ('difference', 'union', 'intersection', 'symmetric_difference') \
            and len(e.args) == 1:
        a_, b_ = frozenset(ev(e.func.value)), frozenset(ev(e.args[0]))
        return {'difference': a_ - b_, 'union': a_ | b_, 'intersection': a_ & b_, 'symmetric_difference': a_ ^ b_}[e.func.attr]
    if isinstance(e, ast.BinOp) and isinstance(e.op, (ast.Sub, ast.BitOr, ast.BitAnd, ast.BitXor, ast.Add)):
        a_, b_ = ev(e.left), ev(e.right)
        if isinstance(e.op, ast.Add):
            return tuple(a_) + tuple(b_)
        a_, b_ = frozenset(a_), frozenset(b_)
        return a_ - b_ if isinstance(e.op, ast.Sub) else a_ | b_ if isinstance(e.op, ast.BitOr) else a_ & b_ if isinstance(e.op, ast.BitAnd) else a_ ^ b_
    if isinstance(e, ast.Compare) and len(e.ops) == 1:
        a_, b_ = ev(e.left), ev(e.comparators[0])
        op = e.ops[0]
        if isinstance(op, ast.In):
            return a_ in b_
        if isinstance(op, ast.NotIn):
            return a_ not in b_
        if isinstance(op, ast.Eq):
            return a_ == b_
        if isinstance(op, ast.NotEq):
            return a_ != b_
    if isinstance(e, ast.UnaryOp) and isinstance(e.op, ast.Not):
        return not ev(e.operand)
    if isinstance(e, ast.BoolOp):
        vals = [ev(v) for v in e.values]
        return all(vals) if isinstance(e.op, ast.And) else any(vals)
    raise AnalysisError('expression `%s` is outside the table evaluator' % short(e))


def kept_modes(idx, ci, fi, expr, all_modes):
    """The subset of all_modes that `tuple(m for m in self.modes if F(m))` (or a list form) keeps; None if not such a filter."""
    e = expr
    if isinstance(e, ast.Call) and isinstance(e.func, ast.Name) and e.func.id in ('tuple', 'list') and len(e.args) == 1:
        e = e.args[0]
    if not isinstance(e, (ast.GeneratorExp, ast.ListComp)) or len(e.generators) != 1:
        return None
    g = e.generators[0]
    if not (isinstance(g.target, ast.Name) and is_name(e.elt, g.target.id) and nf.match('self.modes', g.iter) is not None):
        return None
    kept = set()
    for m in all_modes:
        try:
            if all(eval_set_expr(idx, ci, fi, c, {g.target.id: m}) for c in g.ifs):
                kept.add(m)
        except AnalysisError:
            return None
    return kept


def _const_truth(g):
    """Truth of a guard that is decided by its shape alone (`{...} is not None`, `None is None`, ...), else None."""
    if isinstance(g, ast.UnaryOp) and isinstance(g.op, ast.Not):
        v = _const_truth(g.operand)
        return None if v is None else not v
    if isinstance(g, ast.Constant) and isinstance(g.value, bool):
        return g.value
    if isinstance(g, ast.Compare) and len(g.ops) == 1 and isinstance(g.ops[0], (ast.Is, ast.IsNot)):
        a, b = g.left, g.comparators[0]
        is_none = lambda x: isinstance(x, ast.Constant) and x.value is None
        fresh = lambda x: isinstance(x, (ast.Dict, ast.List, ast.Tuple, ast.Set)) or (isinstance(x, ast.Constant) and x.value is not None)
        if is_none(a) and is_none(b):
            return isinstance(g.ops[0], ast.Is)
        if (is_none(a) and fresh(b)) or (is_none(b) and fresh(a)):
            return isinstance(g.ops[0], ast.IsNot)
    return None


class _ExpandUnpackedComprehension(ast.NodeTransformer):
    """`a, b = [f(v) for v in (x, y)]`  ->  `a, b = (f(x), f(y))`  (also tuple(...)/list(...) wrappers and map(f, (x, y)));
    the sequence may be a local bound once to a literal list/tuple."""
    def __init__(self, local=None):
        self.local = local or {}

    def _seq(self, e):
        if isinstance(e, ast.Name) and isinstance(self.local.get(e.id), (ast.Tuple, ast.List)):
            return self.local[e.id]
        return e

    def visit_Assign(self, node):
        if len(node.targets) == 1 and isinstance(node.targets[0], (ast.Tuple, ast.List)):
            n = len(node.targets[0].elts)
            v = node.value
            if isinstance(v, ast.Call) and isinstance(v.func, ast.Name) and v.func.id in ('tuple', 'list') and len(v.args) == 1:
                v = v.args[0]
            elts = None
            if isinstance(v, (ast.ListComp, ast.GeneratorExp)) and len(v.generators) == 1 and not v.generators[0].ifs \
                    and isinstance(v.generators[0].target, ast.Name) and isinstance(self._seq(v.generators[0].iter), (ast.Tuple, ast.List)) \
                    and len(self._seq(v.generators[0].iter).elts) == n:
                var = v.generators[0].target.id
                elts = [nf.subst(v.elt, {var: e}) for e in self._seq(v.generators[0].iter).elts]
            elif isinstance(v, ast.Call) and isinstance(v.func, ast.Name) and v.func.id == 'map' and len(v.args) == 2 \
                    and isinstance(v.args[1], (ast.Tuple, ast.List)) and len(v.args[1].elts) == n:
                from ..index import clone
                elts = [ast.Call(func=clone(v.args[0]), args=[clone(e)], keywords=[]) for e in v.args[1].elts]
            if elts is not None:
                new = ast.Assign(targets=node.targets, value=ast.Tuple(elts=elts, ctx=ast.Load()))
                return ast.copy_location(new, node)
        return node


def ret_paths(fi):
    """Decision paths without the infeasible ones that appear when a helper returning `result or None` was inlined."""
    from ..index import clone
    local = lib.local_env(fi.node)
    body = [_ExpandUnpackedComprehension(local).visit(clone(st)) for st in fi.node.body]
    for st in body:
        ast.fix_missing_locations(st)
    out = []
    for p in nf.decision_paths(body):
        truths = [_const_truth(g) for g in p.guards]
        if any(t is False for t in truths):
            continue
        p.guards = [g for g, t in zip(p.guards, truths) if t is None]
        out.append(p)
    return out


def is_zero_result(expr):
    """A literal result dict with grade_decimal 0 and ok False."""
    if not isinstance(expr, ast.Dict):
        return False
    d = {}
    for k, v in zip(expr.keys, expr.values):
        if isinstance(k, ast.Constant):
            d[k.value] = v
    g = d.get('grade_decimal')
    ok = d.get('ok')
    return isinstance(g, ast.Constant) and g.value == 0 and (ok is None or (isinstance(ok, ast.Constant) and ok.value is False))


def dict_items(expr):
    return {k.value: v for k, v in zip(expr.keys, expr.values) if isinstance(k, ast.Constant)} if isinstance(expr, ast.Dict) else None


def positive_guards(path):
    return [g for g in path.guards if not (isinstance(g, ast.UnaryOp) and isinstance(g.op, ast.Not))]


def student_facing(idx, module, cname):
    return lib.exc_is_subclass(idx, module, cname, 'StudentFacingError')


def resolve_function(idx, fi, func_expr):
    """The unique package function denoted by a callee / function-valued expression (self.m, Class.m, f), or None."""
    fake = ast.Call(func=func_expr, args=[], keywords=[])
    try:
        targets, how = idx.resolve_call(fi, fake)
    except Exception:
        return None
    fs = [t for t in targets if hasattr(t, 'node') and hasattr(t, 'qualname')]
    if len(fs) == 1 and how in ('exact', 'cha', 'unique-name'):
        return fs[0]
    return None


def bind_call(callee, call):
    """param -> argument expression for a call of `callee` (self/cls skipped for bound calls); None when not bindable."""
    a = callee.node.args
    if a.vararg or a.kwarg or a.kwonlyargs or a.posonlyargs:
        return None
    names = [x.arg for x in a.args]
    if callee.cls is not None and not callee.is_static and isinstance(call.func, ast.Attribute):
        names = names[1:]
    if len(call.args) > len(names) or any(isinstance(x, ast.Starred) for x in call.args):
        return None
    env = dict(zip(names, call.args))
    for k in call.keywords:
        if k.arg is None or k.arg not in names or k.arg in env:
            return None
        env[k.arg] = k.value
    defaults = dict(zip([x.arg for x in a.args][len(a.args) - len(a.defaults):], a.defaults))
    for n in names:
        if n not in env:
            if n not in defaults:
                return None
            env[n] = defaults[n]
    return env


def expr_cases(idx, fi, expr, depth=0):
    """[(guards, value)] : the value of `expr` by cases, looking through conditional expressions and through calls of
    side-effect-free package helpers (each of whose paths returns).  None when a helper cannot be looked through."""
    if isinstance(expr, ast.IfExp):
        out = []
        t = nf.canon(expr.test)
        for g, sub in ((t, expr.body), (nf.negate(t), expr.orelse)):
            cs = expr_cases(idx, fi, sub, depth)
            if cs is None:
                return None
            out += [([g] + gs, v) for gs, v in cs]
        return out
    if isinstance(expr, ast.Call) and depth < 3 and isinstance(expr.func, (ast.Attribute, ast.Name)):
        callee = resolve_function(idx, fi, expr.func)
        if callee is not None and callee.module.name.startswith('mitxgraders') and callee.qualname not in (NZ,):
            env = bind_call(callee, expr)
            if env is None:
                return None
            params = set(env)
            paths = nf.decision_paths(callee.node.body, env={k: v for k, v in env.items()})
            out = []
            for p in paths:
                if p.leaf.kind != 'ret' or p.effects:
                    return None
                cs = expr_cases(idx, callee, p.leaf.expr, depth + 1)
                if cs is None:
                    return None
                out += [(list(p.guards) + gs, v) for gs, v in cs]
            return out
    return [([], expr)]


ZERO_TESTS = ["_U.within_tolerance(0, np.linalg.norm(_S))", "_U.within_tolerance(0.0, np.linalg.norm(_S))",
              "is_nearly_zero(_S, _U.tolerance, reference=__)", "np.linalg.norm(_S) == 0"]


def zero_refusal(r, idx, fi, paths, student, construct, what):
    """Some path guarded by `student is (nearly) zero` returns a zero result; the accepting path is guarded by its negation."""
    found = None
    for p in paths:
        for g in p.guards:
            for pat in ZERO_TESTS:
                b = nf.match(pat, g)
                if b is not None and is_name(b.get('_S'), student):
                    found = (p, g)
        if found:
            break
    if not found:
        inverted = None
        for p in paths:
            for g in p.guards:
                if isinstance(g, ast.UnaryOp) and isinstance(g.op, ast.Not):
                    for pat in ZERO_TESTS:
                        b = nf.match(pat, g.operand)
                        if b is not None and is_name(b.get('_S'), student) and p.leaf.kind == 'ret' and is_zero_result(resolve_result(idx, fi, p.leaf.expr) or p.leaf.expr):
                            inverted = p
        if inverted is not None:
            r.violation(construct, 'the zero-vector test is inverted: nonzero input is refused and the zero vector goes on to the comparison',
                        lib.loc(fi, inverted.leaf.stmt))
            return
        if any(mentions(g, student) and 'norm' in unparse(g) for p in paths for g in p.guards):
            r.undecided(construct, 'a norm test on the submission exists but is not recognised', fi.loc)
            return
        absent(r, idx, construct, 'no path refuses a (nearly) zero submission: the zero vector %s and is accepted' % what, fi.loc,
                    expected='if utils.within_tolerance(0, np.linalg.norm(student_eval)): return a zero result')
        return
    p, g = found
    if p.leaf.kind == 'ret' and is_zero_result(resolve_result(idx, fi, p.leaf.expr) or p.leaf.expr):
        r.ok(construct, 'zero submission -> grade 0', lib.loc(fi, p.leaf.stmt))
    elif p.leaf.kind == 'raise':
        r.ok(construct, 'zero submission -> error', lib.loc(fi, p.leaf.stmt))
    else:
        r.violation(construct, 'a (nearly) zero submission leads to `%s` instead of a zero result' % short(p.leaf.expr), lib.loc(fi, p.leaf.stmt))


# ----------------------------------------------------------------------------- D1 congruence
def d1_congruence(ctx, idx):
    r = ctx.rule('D1.CONGRUENCE', 'congruence_comparer reduces both sides by the same modulus and compares expected with student', floor=2)
    with r:
        fi = idx.func(C + 'congruence_comparer')
        P, S, U = roles(fi)
        names = unpack_of(fi, P)
        if len(names) != 2:
            raise AnalysisError('congruence_comparer: expected (target, modulus)')
        paths = [p for p in ret_paths(fi) if p.leaf.kind == 'ret']
        if len(paths) != 1:
            raise AnalysisError('congruence_comparer: expected a single returning path')
        leaf = paths[0].leaf
        where = lib.loc(fi, leaf.stmt)
        construct = 'congruence_comparer: decision'
        # floor-mod spellings (%, np.mod, np.remainder) are one operation; fmod is the truncated remainder
        expr = floor_mod_normal_form(idx, fi, leaf.expr)
        trunc = [c for c in ast.walk(expr) if isinstance(c, ast.Call) and nf.callee_name(c) == 'fmod' and len(c.args) == 2]
        if trunc:
            r.violation(construct, 'the values are reduced with `%s`: fmod is the TRUNCATED remainder, which keeps the sign of the dividend, '
                        'so a submission and a target of opposite sign are reduced into different intervals (target 1 modulo 2*pi '
                        'rejects 1 - 2*pi); congruence needs the floor remainder' % short(trunc[0]), where,
                        expected='x % modulus (or np.mod / np.remainder)', found=short(trunc[0]))
            return
        binds = {}
        res = nf.classify('_U.within_tolerance(_E % _M, _S % _M)', expr, binds)
        if res == nf.MATCH:
            r.ok(construct, 'within_tolerance(expected % modulus, student % modulus)', where)
            e, m, s, u = binds['_E'], binds['_M'], binds['_S'], binds['_U']
            good = is_name(e, names[0]) and is_name(m, names[1]) and is_name(s, S) and is_name(u, U)
            if good:
                r.ok('congruence_comparer: roles', 'target, modulus, student in their places', where)
            elif is_name(e, S) and is_name(s, names[0]):
                r.violation('congruence_comparer: roles', 'the reduced student value is passed as the reference of within_tolerance: a '
                            'percentage tolerance is taken relative to the submission instead of the expected value', where,
                            expected='within_tolerance(expected % modulus, student % modulus)', found=short(leaf.expr))
            elif is_name(m, names[0]) and (is_name(e, names[1]) or is_name(s, names[1])):
                r.violation('congruence_comparer: roles', 'target and modulus are exchanged: values are reduced modulo the target', where,
                            expected='% %s' % names[1], found=short(leaf.expr))
            else:
                r.violation('congruence_comparer: roles', 'operands `%s`, `%s` modulo `%s` are not (target, student) modulo the modulus'
                            % (short(e), short(s), short(m)), where, expected='within_tolerance(%s %% %s, %s %% %s)' % (names[0], names[1], S, names[1]),
                            found=short(leaf.expr))
        elif isinstance(res, tuple):
            r.violation(construct, '%s: the two sides are no longer compared modulo the same modulus' % res[1], where,
                        expected='within_tolerance(expected % modulus, student % modulus)', found=short(leaf.expr))
        else:
            # two different moduli?
            b = nf.match('_U.within_tolerance(_E % _M, _S % _N)', leaf.expr)
            if b is not None:
                r.violation(construct, 'the two sides are reduced by different moduli (`%s` and `%s`)' % (short(b['_M']), short(b['_N'])),
                            where, found=short(leaf.expr))
            else:
                r.undecided(construct, 'decision `%s` not recognised' % short(leaf.expr), where)


# ----------------------------------------------------------------------------- D1 between
def d1_between(ctx, idx):
    r = ctx.rule('D1.BETWEEN', 'between_comparer refuses non-real input and accepts exactly start <= x <= stop', floor=3)
    with r:
        fi = idx.func(C + 'between_comparer')
        P, S, U = roles(fi)
        names = unpack_of(fi, P)
        if len(names) != 2:
            raise AnalysisError('between_comparer: expected (start, stop)')
        paths = ret_paths(fi)
        raising = [p for p in paths if p.leaf.kind == 'raise']
        rets = [p for p in paths if p.leaf.kind == 'ret']
        if not rets:
            raise AnalysisError('between_comparer: no returning path')
        REAL = ['not np.isreal(_S)', 'np.imag(_S) != 0', '_S.imag != 0', 'not np.isrealobj(_S)', 'np.iscomplex(_S)']
        construct = 'between_comparer: non-real input'
        if not raising:
            absent(r, idx, construct, 'no path raises: a submission with a nonzero imaginary part is no longer refused (only its real '
                        'part would be compared with the bounds)', fi.loc, expected='if not np.isreal(student_eval): raise InputTypeError')
        for p in raising:
            where = lib.loc(fi, p.leaf.stmt)
            g = p.guards[-1] if p.guards else None
            res = nf.classify(REAL, g) if g is not None else nf.UNRECOGNISED
            b = None
            if res == nf.MATCH:
                for pat in REAL:
                    b = b or nf.match(pat, g)
            cname = nf.exc_class_name(p.leaf.expr)
            if res == nf.MATCH and b is not None and is_name(b['_S'], S):
                if student_facing(idx, fi.module, cname):
                    r.ok(construct, 'refused with %s' % cname, where)
                else:
                    r.violation(construct, 'non-real input is refused with %s, which is not a student-facing error' % cname, where,
                                expected='InputTypeError', found=cname)
            elif isinstance(res, tuple):
                r.violation(construct, '%s: real input is refused / non-real input passes' % res[1], where, expected=REAL[0], found=short(g))
            else:
                r.undecided(construct, 'guard `%s` of the refusal not recognised' % (short(g) if g is not None else 'none'), where)
        for p in rets:
            where = lib.loc(fi, p.leaf.stmt)
            pats = ['_A <= np.real(_S) and np.real(_S) <= _B', '_A <= _S.real and _S.real <= _B', '_A <= _S and _S <= _B',
                    '_A <= float(np.real(_S)) and float(np.real(_S)) <= _B']
            binds = {}
            res = nf.classify(pats, p.leaf.expr, binds)
            construct = 'between_comparer: bounds test'
            if res == nf.MATCH:
                r.ok(construct, 'closed interval', where)
                a, b_, s = binds['_A'], binds['_B'], binds['_S']
                if is_name(a, names[0]) and is_name(b_, names[1]) and is_name(s, S):
                    r.ok('between_comparer: roles', 'start <= student <= stop', where)
                elif is_name(a, names[1]) and is_name(b_, names[0]):
                    r.violation('between_comparer: roles', 'start and stop are exchanged: the test is stop <= x <= start', where,
                                expected='(first parameter) <= x <= (second parameter)', found=short(p.leaf.expr))
                else:
                    r.violation('between_comparer: roles', 'the value tested is `%s` between `%s` and `%s`, not the submission between '
                                'start and stop' % (short(s), short(a), short(b_)), where)
            elif isinstance(res, tuple):
                r.violation(construct, '%s: the accepted set is no longer the closed interval [start, stop]' % res[1], where,
                            expected='start <= x <= stop', found=short(p.leaf.expr))
            else:
                r.undecided(construct, 'decision `%s` not recognised' % short(p.leaf.expr), where)


# ----------------------------------------------------------------------------- D1 eigenvector
def d1_eigenvector(ctx, idx):
    r = ctx.rule('D1.EIGEN', 'eigenvector_comparer refuses the zero vector and compares M.v with lambda.v', floor=4)
    with r:
        fi = idx.func(C + 'eigenvector_comparer')
        P, S, U = roles(fi)
        names = unpack_of(fi, P)
        if len(names) != 2:
            raise AnalysisError('eigenvector_comparer: expected (matrix, eigenvalue)')
        M, L = names
        paths = ret_paths(fi)
        zero_refusal(r, idx, fi, paths, S, 'eigenvector_comparer: zero vector', 'satisfies M.0 = lambda.0')
        finals = [p for p in paths if p.leaf.kind == 'ret' and resolve_result(idx, fi, p.leaf.expr) is None]
        if not finals:
            raise AnalysisError('eigenvector_comparer: no deciding return')
        for p in finals:
            where = lib.loc(fi, p.leaf.stmt)
            construct = 'eigenvector_comparer: decision'
            flipped = [n for n in ast.walk(p.leaf.expr) if isinstance(n, ast.BinOp) and isinstance(n.op, ast.Mult)
                       and is_name(n.left, S) and is_name(n.right, M)]
            if flipped:
                r.violation('eigenvector_comparer: operand order', 'the product is written `%s`: vector*matrix is v.M, the left-eigenvector '
                            'condition, which differs from M.v for non-symmetric matrices' % short(flipped[0]), where, expected='%s * %s' % (M, S),
                            found=short(flipped[0]))
                continue
            rb = nf.match('is_nearly_zero(_A - _B, _U.tolerance, reference=_R)', p.leaf.expr) or \
                nf.match('is_nearly_zero(_A - _B, _U.tolerance)', p.leaf.expr)
            if rb is not None:
                # residual form: |M v - lambda v| <= tol, a percentage being relative to the reference
                sides = []
                for side in (rb['_A'], rb['_B']):
                    sb = nf.match('_X * _S', side)
                    sides.append(sb)
                ok_sides = all(sb is not None for sb in sides) and \
                    {getattr(sides[0]['_X'], 'id', getattr(sides[0]['_S'], 'id', None)), getattr(sides[1]['_X'], 'id', getattr(sides[1]['_S'], 'id', None))} <= {M, L, S}
                names_a, names_b = lib.names_in(rb['_A']), lib.names_in(rb['_B'])
                ok_sides = ok_sides and {frozenset(names_a), frozenset(names_b)} == {frozenset({M, S}), frozenset({L, S})}
                if not ok_sides or not is_name(rb['_U'], U):
                    r.undecided(construct, 'residual `%s` is not matrix*v - eigenvalue*v' % short(p.leaf.expr, 90), where)
                    continue
                r.ok(construct, 'is_nearly_zero(M*v - lambda*v, tolerance, ...)', where)
                prods = [n for n in ast.walk(p.leaf.expr) if isinstance(n, ast.BinOp) and isinstance(n.op, ast.Mult)
                         and mentions(n, M) and mentions(n, S)]
                r.check(bool(prods) and all(is_name(n.left, M) for n in prods), 'eigenvector_comparer: operand order', 'matrix on the left',
                        'the product is written with the vector on the left: v.M is the left-eigenvector condition', where,
                        expected='%s * %s' % (M, S))
                ref = rb.get('_R')
                rconstruct = 'eigenvector_comparer: reference of the percentage tolerance'
                if ref is None:
                    r.violation(rconstruct, 'no reference is given: with a percentage tolerance is_nearly_zero raises ValueError instead of '
                                'grading', where, expected='reference=%s * %s' % (M, S))
                elif is_name(ref, S) or (nf.match('np.linalg.norm(_V)', ref) is not None and is_name(nf.match('np.linalg.norm(_V)', ref)['_V'], S)):
                    r.violation(rconstruct, 'the residual M.v - lambda.v is measured relative to the submission `%s` itself instead of M.v '
                                '(what within_tolerance(M.v, lambda.v) used): with a percentage tolerance the bound is tol*|v| instead of '
                                'tol*|M.v|, so the verdict depends on the scale of the matrix (for a matrix with small entries every '
                                'vector is accepted, for a large one true eigenvectors are rejected)' % short(ref), where,
                                expected='reference=%s * %s' % (M, S), found='reference=%s' % short(ref))
                elif frozenset(lib.names_in(ref)) in (frozenset({M, S}), frozenset({L, S})) and \
                        (nf.match('_X * _S', ref) is not None or nf.match('np.linalg.norm(_X * _S)', ref) is not None):
                    r.ok(rconstruct, 'relative to %s' % short(ref), where)
                else:
                    r.undecided(rconstruct, 'reference `%s` not recognised' % short(ref), where)
                continue
            binds = {}
            res = nf.classify(['_U.within_tolerance(_X * _S, _Y * _S)'], p.leaf.expr, binds)
            if res == nf.MATCH:
                x, y, s = binds['_X'], binds['_Y'], binds['_S']
                if {getattr(x, 'id', None), getattr(y, 'id', None)} == {M, L} and is_name(s, S):
                    r.ok(construct, 'within_tolerance(M*v, lambda*v)', where)
                else:
                    r.violation(construct, 'the two sides are `%s` and `%s` times `%s`, not matrix*v and eigenvalue*v' %
                                (short(x), short(y), short(s)), where, expected='%s*%s vs %s*%s' % (M, S, L, S), found=short(p.leaf.expr))
                    continue
                # matrix product is not commutative: the matrix must be the left factor
                prods = [n for n in ast.walk(p.leaf.expr) if isinstance(n, ast.BinOp) and isinstance(n.op, ast.Mult)
                         and mentions(n, M) and mentions(n, S)]
                bad = [n for n in prods if not is_name(n.left, M)]
                r.check(not bad and prods, 'eigenvector_comparer: operand order', 'matrix on the left', 'the product is written `%s`: '
                        'vector*matrix is v.M, the left-eigenvector condition, which differs for non-symmetric matrices'
                        % (short(bad[0]) if bad else '?'), where, expected='%s * %s' % (M, S))
            elif isinstance(res, tuple):
                r.violation(construct, res[1], where, expected='within_tolerance(M*v, lambda*v)', found=short(p.leaf.expr))
            else:
                r.undecided(construct, 'decision `%s` not recognised' % short(p.leaf.expr), where)
        # shape validated against (n,)
        calls = [c for c in lib.calls_named(fi.node, 'validate_shape') if isinstance(c.func, ast.Attribute) and is_name(c.func.value, U)]
        if not calls:
            absent(r, idx, 'eigenvector_comparer: shape', 'utils.validate_shape is no longer called: a submission of the wrong shape is '
                        'graded (or raises a shape error of another policy) instead of being reported as a shape mismatch', fi.loc)
        for c in calls:
            ok = len(c.args) == 2 and is_name(c.args[0], S)
            shape = lib.inline_locals(c.args[1], fi.node) if len(c.args) == 2 else None
            b = nf.match('(_M.shape[0],)', shape) or nf.match('(_M.shape[1],)', shape) if shape is not None else None
            r.check(ok and b is not None and is_name(b['_M'], M), 'eigenvector_comparer: shape', 'student validated against (n,)',
                    'validate_shape is called as `%s`, not with the submission and the shape (n,) of the matrix' % short(c), lib.loc(fi, c),
                    expected='utils.validate_shape(%s, (%s.shape[0],))' % (S, M))


# ----------------------------------------------------------------------------- D1 vector span / phase
RESIDUALS = ['_T - np.dot(_C, np.linalg.lstsq(_C, _S, rcond=__)[0])', '_T - _C.dot(np.linalg.lstsq(_C, _S, rcond=__)[0])',
             '_T - _C @ np.linalg.lstsq(_C, _S, rcond=__)[0]', '_T - np.matmul(_C, np.linalg.lstsq(_C, _S, rcond=__)[0])']
SIZE_OK = [('np.linalg.norm(_R)', 'np.linalg.norm'), ('np.sqrt(np.vdot(_R, _R))', 'np.vdot conjugates its first argument'),
           ('np.sqrt(np.sum(np.abs(_R) ** 2))', 'sum of |r|^2'), ('np.sqrt(sum(np.abs(_R) ** 2))', 'sum of |r|^2'),
           ('np.sqrt(np.sum(abs(_R) ** 2))', 'sum of |r|^2'), ('np.sqrt(np.real(np.vdot(_R, _R)))', 'np.vdot'),
           ('np.sqrt(np.sum(np.square(np.abs(_R))))', 'sum of |r|^2'), ('np.sqrt(np.dot(np.conj(_R), _R))', 'conjugated dot'),
           ('np.sqrt(np.dot(_R.conj(), _R))', 'conjugated dot')]
SIZE_BAD = [('np.sqrt(np.dot(_R, _R))', 'np.dot'), ('np.sqrt(_R @ _R)', 'the @ product'), ('np.sqrt(np.sum(_R ** 2))', 'the plain square'),
            ('np.sqrt(sum(_R ** 2))', 'the plain square'), ('np.sqrt(np.sum(_R * _R))', 'the plain product'),
            ('np.sqrt(np.sum(np.square(_R)))', 'np.square'), ('np.sqrt(sum(np.square(_R)))', 'np.square'), ('np.sqrt(_R.dot(_R))', '.dot')]


def explicit_residual_size(expr, P, S):
    """('ok'|'bad'|'und', residual, text) when expr is the size of an explicitly computed residual r = student - C.coeffs; else None."""
    for pats, kind in ((SIZE_OK, 'ok'), (SIZE_BAD, 'bad')):
        for pat, text in pats:
            b = nf.match(pat, expr)
            if b is None:
                continue
            rexpr = b['_R']
            rb = None
            for rp in RESIDUALS:
                rb = rb or nf.match(rp, rexpr)
            if rb is None:
                if kind == 'bad' and mentions(rexpr, S):
                    # whatever vector this is, it derives from the (possibly complex) submission
                    return ('bad', rexpr, text)
                return ('und', rexpr, 'vector `%s` whose size is taken is not recognised as the least-squares residual' % short(rexpr, 80))
            t = rb['_T']
            t_ok = is_name(t, S) or (nf.match('np.array(_X)', t) is not None and is_name(nf.match('np.array(_X)', t)['_X'], S)) \
                or (nf.match('np.asarray(_X)', t) is not None and is_name(nf.match('np.asarray(_X)', t)['_X'], S))
            c_ok = mentions(rb['_C'], P) and not mentions(rb['_C'], S)
            if not (t_ok and is_name(rb['_S'], S) and c_ok):
                return ('und', rexpr, 'residual `%s` is not student - columns.coeffs' % short(rexpr, 80))
            return (kind, rexpr, text)
    return None


def d1_span(ctx, idx):
    r = ctx.rule('D1.SPAN', 'vector_span_comparer checks the parameters, refuses zero and tests the least-squares residual '
                 'relative to the student vector', floor=5)
    with r:
        fi = idx.func(C + 'vector_span_comparer')
        P, S, U = roles(fi)
        paths = ret_paths(fi)
        # parameter check
        pc = [p for p in paths if p.leaf.kind == 'raise' and p.guards and nf.match('not are_same_length_vectors(_P)', p.guards[-1]) is not None]
        if pc:
            cname = nf.exc_class_name(pc[0].leaf.expr)
            b = nf.match('not are_same_length_vectors(_P)', pc[0].guards[-1])
            r.check(is_name(b['_P'], P) and student_facing(idx, fi.module, cname), 'vector_span_comparer: parameter check',
                    'unequal-length / non-vector parameters raise %s' % cname, 'the parameter check tests `%s` and raises %s'
                    % (short(b['_P']), cname), lib.loc(fi, pc[0].leaf.stmt))
        elif any(p.leaf.kind == 'raise' and any(nf.match('are_same_length_vectors(_P)', g) is not None for g in p.guards) for p in paths):
            r.violation('vector_span_comparer: parameter check', 'the parameter check is inverted: well-formed parameters raise',
                        fi.loc, expected='if not are_same_length_vectors(comparer_params_eval): raise')
        else:
            absent(r, idx, 'vector_span_comparer: parameter check', 'the comparer parameters are no longer checked to be equal-length vectors',
                        fi.loc, expected='if not are_same_length_vectors(comparer_params_eval): raise')
        zero_refusal(r, idx, fi, paths, S, 'vector_span_comparer: zero vector', 'lies in every span (residual 0)')
        finals = [p for p in paths if p.leaf.kind == 'ret' and resolve_result(idx, fi, p.leaf.expr) is None]
        if not finals:
            raise AnalysisError('vector_span_comparer: no deciding return')
        for p in finals:
            e = p.leaf.expr
            where = lib.loc(fi, p.leaf.stmt)
            construct = 'vector_span_comparer: decision'
            if not (isinstance(e, ast.Call) and nf.callee_name(e) == 'is_nearly_zero' and e.args):
                r.undecided(construct, 'decision `%s` is not an is_nearly_zero test' % short(e), where)
                continue
            targets, how = idx.resolve_call(fi, e)
            if not any(getattr(t, 'qualname', None) == NZ for t in targets):
                raise AnalysisError('vector_span_comparer: is_nearly_zero does not resolve to mathfuncs.is_nearly_zero')
            tol = lib.get_kw(e, 'tolerance', 1)
            ref = lib.get_kw(e, 'reference', 2)
            binds = {}
            resid = see_through_unpacking(fi, e.args[0])
            res = nf.classify(['np.sqrt(np.linalg.lstsq(np.array(_P).transpose(), _S, rcond=__)[1])',
                               'np.sqrt(np.linalg.lstsq(np.array(_P).T, _S, rcond=__)[1])',
                               'np.sqrt(np.linalg.lstsq(np.transpose(np.array(_P)), _S, rcond=__)[1])'], resid, binds)
            explicit = explicit_residual_size(resid, P, S)
            if explicit is not None:
                kind, rexpr, text = explicit
                if kind == 'ok':
                    r.ok(construct, 'Euclidean size of the residual student - columns.coeffs (%s)' % text, where)
                elif kind == 'bad':
                    r.violation(construct, 'the size of the residual is computed as `%s`: %s does not conjugate, so for a complex residual it '
                                'sums r_k^2 instead of |r_k|^2 and can vanish for a nonzero residual ([0, 1, i] would be accepted as lying in '
                                'span{[1, 0, 0]})' % (short(resid, 70), text), where,
                                expected='lstsq(...)[1], np.linalg.norm(r), np.vdot(r, r) or sum(abs(r)**2)', found=short(resid, 90))
                else:
                    r.undecided(construct, text, where)
            elif res == nf.MATCH:
                if is_name(binds['_P'], P) and is_name(binds['_S'], S):
                    r.ok(construct, 'sqrt of the least-squares residual of the student vector against the column vectors', where)
                else:
                    r.violation(construct, 'the least-squares problem is posed for `%s` against `%s` instead of the student vector against '
                                'the given vectors' % (short(binds['_S']), short(binds['_P'])), where)
            elif isinstance(res, tuple):
                r.violation(construct, '%s: the quantity tested is no longer the least-squares residual' % res[1], where,
                            expected='np.sqrt(np.linalg.lstsq(vectors.T, student)[1])', found=short(resid))
            else:
                r.undecided(construct, 'residual expression `%s` not recognised' % short(resid), where)
            r.check(tol is not None and nf.match('_U.tolerance', tol) is not None and is_name(nf.match('_U.tolerance', tol)['_U'], U),
                    'vector_span_comparer: tolerance', 'utils.tolerance', 'the residual is tested against `%s` instead of the grader\'s '
                    'tolerance' % (short(tol) if tol is not None else 'nothing'), where, expected='%s.tolerance' % U)
            if ref is None:
                r.violation('vector_span_comparer: reference', 'no reference is given: a percentage tolerance cannot be applied (is_nearly_zero '
                            'raises ValueError)', where, expected='reference=%s' % S)
            elif is_name(ref, S) or nf.match('np.linalg.norm(_S)', ref) is not None and is_name(nf.match('np.linalg.norm(_S)', ref)['_S'], S):
                r.ok('vector_span_comparer: reference', 'relative to the student vector', where)
            elif mentions(ref, P) and not mentions(ref, S):
                r.violation('vector_span_comparer: reference', 'the residual is measured relative to `%s` (the given vectors) instead of the '
                            'student\'s vector: rescaling the submission changes the verdict' % short(ref), where, expected='reference=%s' % S,
                            found=short(ref))
            else:
                r.undecided('vector_span_comparer: reference', 'reference `%s` not recognised' % short(ref), where)


class _Atomise(ast.NodeTransformer):
    """Replace the calls matching the given patterns by marker names, remembering the bindings."""
    def __init__(self, atoms):
        self.atoms = atoms          # name -> [patterns]
        self.found = {}

    def visit_Call(self, node):
        for name, pats in self.atoms.items():
            for pat in pats:
                b = nf.match(pat, node)
                if b is not None:
                    self.found.setdefault(name, []).append((node, b))
                    return ast.Name(id=name, ctx=ast.Load())
        self.generic_visit(node)
        return node


def select_eval(e, env):
    """Which atom's VALUE a boolean selection expression returns (Python and/or return an operand): ('atom', name) or
    ('const', value); env maps atom name -> truthiness."""
    if isinstance(e, ast.Name) and e.id in env:
        return ('atom', e.id)
    if isinstance(e, ast.Constant):
        return ('const', e.value)
    if isinstance(e, ast.UnaryOp) and isinstance(e.op, ast.Not):
        return ('const', not select_truth(select_eval(e.operand, env), env))
    if isinstance(e, ast.BoolOp):
        last = None
        for v in e.values:
            last = select_eval(v, env)
            t = select_truth(last, env)
            if isinstance(e.op, ast.And) and not t:
                return last
            if isinstance(e.op, ast.Or) and t:
                return last
        return last
    if isinstance(e, ast.IfExp):
        return select_eval(e.body if select_truth(select_eval(e.test, env), env) else e.orelse, env)
    if isinstance(e, ast.Call) and isinstance(e.func, ast.Name) and e.func.id == 'bool' and len(e.args) == 1:
        return ('const', select_truth(select_eval(e.args[0], env), env))
    raise AnalysisError('selection expression `%s`' % short(e))


def select_truth(v, env):
    return env[v[1]] if v[0] == 'atom' else bool(v[1])


def d1_phase(ctx, idx):
    r = ctx.rule('D1.PHASE', 'vector_phase_comparer = in the span of the target AND of equal norm', floor=3)
    with r:
        fi = idx.func(C + 'vector_phase_comparer')
        P, S, U = roles(fi)
        paths = ret_paths(fi)
        finals = [p for p in paths if p.leaf.kind == 'ret']
        if not finals:
            raise AnalysisError('vector_phase_comparer: no returning path')
        atoms = {'__SPAN__': ['vector_span_comparer(_P, _S, _U)'],
                 '__MAG__': ['_U.within_tolerance(np.linalg.norm(_A), np.linalg.norm(_B))']}
        at = _Atomise(atoms)
        from ..index import clone
        cases = []
        for p in finals:
            guards = [at.visit(clone(g)) for g in p.guards]
            leaf = at.visit(clone(p.leaf.expr))
            cases.append((guards, leaf, p))
        construct = 'vector_phase_comparer: decision'
        where = lib.loc(fi, finals[-1].leaf.stmt)
        # guards that do not speak about the two atoms (the parameter check) are left undetermined: both values tried
        table = {}
        undecided = None
        for span in (True, False):
            for mag in (True, False):
                env = {'__SPAN__': span, '__MAG__': mag}
                outs = set()
                for guards, leaf, p in cases:
                    feasible = True
                    for g in guards:
                        if not (lib.names_in(g) & set(env)):
                            continue        # unrelated guard (parameter check): the path is taken for some inputs
                        try:
                            if not select_truth(select_eval(g, env), env):
                                feasible = False
                                break
                        except AnalysisError:
                            undecided = 'guard `%s` not understood' % short(g)
                            feasible = False
                            break
                    if not feasible:
                        continue
                    try:
                        outs.add(select_eval(leaf, env))
                    except AnalysisError:
                        undecided = 'returned expression `%s` not understood' % short(p.leaf.expr, 80)
                table[(span, mag)] = outs
        if undecided or any(len(v) != 1 for v in table.values()):
            r.undecided(construct, undecided or 'the returned value is not a function of (in span, same magnitude)', where)
        else:
            want = lambda span, mag: ('atom', '__MAG__') if span else ('atom', '__SPAN__')
            bad = None
            for key, outs in sorted(table.items(), reverse=True):
                got = next(iter(outs))
                w = want(*key)
                # a constant with the same truth value as the selected atom is the same verdict
                same = got == w or (got[0] == 'const' and bool(got[1]) == {'__MAG__': key[1], '__SPAN__': key[0]}[w[1]])
                if not same and bad is None:
                    bad = (key, got, w)
            if bad is None:
                r.ok(construct, 'returns the span verdict when not in span, else the norm comparison (all 4 cases)', where)
            else:
                (span, mag), got, w = bad
                name = {'__SPAN__': 'the span verdict', '__MAG__': 'the norm comparison'}
                r.violation(construct, 'with the submission %s the span of the target and its norm %s the target\'s, the comparer returns %s '
                            'instead of %s: the accepted set is no longer {unit-modulus multiples of the target}'
                            % ('in' if span else 'outside', 'equal to' if mag else 'different from',
                               name.get(got[1], repr(got[1])) if got[0] == 'atom' else repr(got[1]), name[w[1]]), where,
                            expected='in_span and same_magnitude', found=short(finals[-1].leaf.expr, 80))
        # roles of the two atoms
        for node, b_ in at.found.get('__SPAN__', [])[:1]:
            good = is_name(b_['_P'], P) and is_name(b_['_S'], S) and is_name(b_['_U'], U)
            r.check(good, 'vector_phase_comparer: span test', 'vector_span_comparer(params, student, utils)',
                    'the span test is called as `%s`' % short(node, 80), where)
        mags = at.found.get('__MAG__', [])
        if not at.found.get('__SPAN__') or not mags:
            absent(r, idx, 'vector_phase_comparer: roles', 'the %s is not part of the decision' %
                   ('span test' if not at.found.get('__SPAN__') else 'comparison of the norms'), where)
        for node, b_ in mags[:1]:
            a_, bb = b_['_A'], b_['_B']
            if nf.match('_P[0]', a_) is not None and is_name(nf.match('_P[0]', a_)['_P'], P) and is_name(bb, S) and is_name(b_['_U'], U):
                r.ok('vector_phase_comparer: roles', 'norm(target) is the reference', where)
            elif is_name(a_, S) and mentions(bb, P):
                r.violation('vector_phase_comparer: roles', 'the norms are compared with the student\'s norm as reference: a percentage '
                            'tolerance is taken relative to the submission', where)
            else:
                r.undecided('vector_phase_comparer: roles', 'operands `%s`, `%s` of the norm comparison not recognised' % (short(a_), short(bb)), where)
        for p in paths:
            if p.leaf.kind == 'raise' and p.guards:
                g = p.guards[-1]
                if nf.match('len(_P) != 1 and is_vector(_P[0])', g) is not None:
                    r.note('by-catch: the parameter check of vector_phase_comparer reads `not len(...) == 1 and is_vector(...)` '
                           '(precedence slip: a single non-vector parameter is not refused); not a property violation')


def transform_applications(expr):
    return [c for c in ast.walk(expr) if isinstance(c, ast.Call) and nf.config_key(c.func) == 'transform']


def transform_symmetry(r, idx, construct, expected_side, student_side, where):
    """The configured transform is applied to the expected and to the student's value alike before they are compared."""
    ne, ns = len(transform_applications(expected_side)), len(transform_applications(student_side))
    if ne == ns and ne >= 1:
        r.ok(construct, 'config[transform] applied to expected and student values', where)
    elif ne != ns:
        side, other = ('student\'s', 'expected') if ns < ne else ('expected', 'student\'s')
        r.violation(construct, 'the configured transform is applied to the %s values but not to the %s ones: with any transform other '
                    'than the identity a transformed value is compared with a raw one, so correct answers are graded wrong' % (other, side),
                    where, expected='transform(expected) compared with transform(student)',
                    found='%d application(s) on the expected side, %d on the student side' % (ne, ns))
    else:
        absent(r, idx, construct, 'the configured transform is applied to neither side: the transform option is ignored', where)


def d1_equality(ctx, idx):
    r = ctx.rule('D1.EQUALITY', 'EqualityComparer compares transform(expected) with transform(student) within tolerance', floor=2)
    with r:
        fi = idx.func(C + 'EqualityComparer.__call__')
        P, S, U = roles(fi, 1)
        finals = [p for p in ret_paths(fi) if p.leaf.kind == 'ret']
        if not finals:
            raise AnalysisError('EqualityComparer.__call__: no returning path')
        for p in finals:
            where = lib.loc(fi, p.leaf.stmt)
            form = 'list of parameters' if any(nf.match('isinstance(_P, list)', g) is not None for g in p.guards) else 'bare parameter'
            b = nf.match('_U.within_tolerance(_A, _B)', p.leaf.expr)
            construct = 'EqualityComparer.__call__ [%s]: decision' % form
            if b is None or not is_name(b['_U'], U):
                r.undecided(construct, 'decision `%s` not recognised' % short(p.leaf.expr, 80), where)
                continue
            a_e, a_s = mentions(b['_A'], P) and not mentions(b['_A'], S), mentions(b['_B'], S) and not mentions(b['_B'], P)
            if a_e and a_s:
                r.ok(construct, 'within_tolerance(expected, student)', where)
                transform_symmetry(r, idx, 'EqualityComparer.__call__ [%s]: transform on both sides' % form, b['_A'], b['_B'], where)
            elif mentions(b['_A'], S) and not mentions(b['_A'], P) and mentions(b['_B'], P) and not mentions(b['_B'], S):
                r.violation(construct, 'the student\'s value is passed as the reference argument of within_tolerance: a percentage tolerance '
                            'is taken relative to the submission', where, expected='within_tolerance(expected, student)', found=short(p.leaf.expr, 80))
            elif not mentions(b['_A'], S) and not mentions(b['_B'], S) and mentions(b['_A'], P) and mentions(b['_B'], P):
                r.violation(construct, 'both operands of the comparison derive from the expected value (`%s`): the submission does not '
                            'take part in the verdict, every answer is accepted' % short(p.leaf.expr, 90), where,
                            expected='within_tolerance(transform(expected), transform(student))', found=short(p.leaf.expr, 90))
            else:
                r.undecided(construct, 'operands of `%s` are not recognisably (expected, student)' % short(p.leaf.expr, 80), where)


# ----------------------------------------------------------------------------- D1 MatrixEntryComparer
def split_conditional_leaves(paths, limit=64):
    """A returned expression that contains a conditional expression stands for two paths."""
    out = []
    work = list(paths)
    while work:
        if len(out) + len(work) > limit:
            raise AnalysisError('too many cases after splitting conditional expressions')
        p = work.pop(0)
        ife = None
        if p.leaf.kind == 'ret' and p.leaf.expr is not None:
            for n in ast.walk(p.leaf.expr):
                if isinstance(n, ast.IfExp):
                    ife = n
                    break
        if ife is None:
            out.append(p)
            continue
        from ..index import clone
        for branch, guard in ((ife.body, nf.canon(ife.test)), (ife.orelse, nf.negate(nf.canon(ife.test)))):
            class _R(ast.NodeTransformer):
                def visit_IfExp(self, node):
                    if node is target:
                        return clone(branch)
                    self.generic_visit(node)
                    return node
            # work on a private copy in which the chosen IfExp is identified by position
            copy_ = clone(p.leaf.expr)
            idxs = [i for i, n in enumerate(ast.walk(p.leaf.expr)) if n is ife]
            target = list(ast.walk(copy_))[idxs[0]]
            new_expr = _R().visit(copy_) if target is not copy_ else clone(branch)
            leaf = nf.Leaf('ret', nf.canon(new_expr), p.leaf.stmt, p.leaf.env)
            work.append(nf.Path(list(p.guards) + [guard], leaf, p.effects))
    return out


def d1_entry(ctx, idx):
    r = ctx.rule('D1.ENTRY', 'MatrixEntryComparer: np.all over samples, fraction = matches/size, full / zero / proportional / flat credit', floor=8)
    with r:
        fi = idx.func(C + 'MatrixEntryComparer.__call__')
        P, S, U = roles(fi, 1)
        paths = split_conditional_leaves(ret_paths(fi))
        FRAC = 'np.sum(_Q).item() / _Q.size'
        SUMM = 'np.all(np.vectorize(_U.within_tolerance)(_E, _T), axis=0)'
        checked_frac = [False]

        def check_fraction(x, where):
            """x must be matches/size of the all-samples summary; reports once."""
            for cpat in ('1 - _X', '1.0 - _X'):
                cb = nf.match(cpat, x)
                if cb is not None and nf.classify([FRAC, 'np.sum(_Q) / _Q.size', 'np.mean(_Q)'], cb['_X']) == nf.MATCH:
                    if not checked_frac[0]:
                        checked_frac[0] = True
                        r.violation('MatrixEntryComparer: fraction', 'the quantity tested is 1 - (matching entries)/(entries), the fraction of '
                                    'WRONG entries: full credit is given when nothing matches and proportional credit is inverted', where,
                                    expected='np.sum(summary).item()/summary.size', found=short(x, 90))
                    return False
            binds = {}
            res = nf.classify([FRAC, 'np.sum(_Q) / _Q.size', 'np.mean(_Q)'], x, binds)
            if res != nf.MATCH:
                res = nf.classify([FRAC], x)      # report differences against the primary form only
                if not checked_frac[0]:
                    checked_frac[0] = True
                    if isinstance(res, tuple):
                        r.violation('MatrixEntryComparer: fraction', '%s: the quantity tested is no longer (matching entries)/(entries)' % res[1],
                                    where, expected='np.sum(summary).item()/summary.size', found=short(x, 90))
                    else:
                        r.undecided('MatrixEntryComparer: fraction', 'fraction `%s` not recognised' % short(x, 90), where)
                return False
            if checked_frac[0]:
                return True
            checked_frac[0] = True
            r.ok('MatrixEntryComparer: fraction', 'matches / size', where)
            b2 = {}
            res2 = nf.classify([SUMM], binds['_Q'], b2)
            if res2 == nf.MATCH:
                r.ok('MatrixEntryComparer: summary', 'np.all(..., axis=0) over the samples', where)
                e_ok = mentions(b2['_E'], P) and not mentions(b2['_E'], S)
                t_ok = mentions(b2['_T'], S) and not mentions(b2['_T'], P)
                if e_ok and t_ok and is_name(b2['_U'], U):
                    r.ok('MatrixEntryComparer: roles', 'within_tolerance(expected, student)', where)
                    transform_symmetry(r, idx, 'MatrixEntryComparer: transform on both sides', b2['_E'], b2['_T'], where)
                elif mentions(b2['_E'], S) and mentions(b2['_T'], P):
                    r.violation('MatrixEntryComparer: roles', 'the student\'s evaluations are passed as the reference argument of '
                                'within_tolerance: percentage tolerances are taken relative to the submission', where)
                else:
                    r.undecided('MatrixEntryComparer: roles', 'operands of the entry comparison not recognised', where)
            elif isinstance(res2, tuple):
                r.violation('MatrixEntryComparer: summary', '%s: an entry no longer counts as matching iff it matches in every sample' % res2[1],
                            where, expected='np.all(comparisons, axis=0)', found=short(binds['_Q'], 90))
            else:
                r.undecided('MatrixEntryComparer: summary', 'summary `%s` not recognised' % short(binds['_Q'], 90), where)
            return True

        seen = set()
        for p in paths:
            where = lib.loc(fi, p.leaf.stmt)
            pos = positive_guards(p)
            if p.leaf.kind != 'ret':
                r.violation('MatrixEntryComparer: branches', 'a path does not return a result', where)
                continue
            last = p.guards[-1] if p.guards else None
            kind = None
            frac = None
            if last is not None:
                b = nf.match('_F == 1', last)
                b0 = nf.match('_F == 0', last)
                bp = nf.match("_C == 'proportional'", last)
                bn = nf.match("_C != 'proportional'", last)
                if b is not None:
                    kind, frac = 'all', b['_F']
                elif b0 is not None:
                    kind, frac = 'none', b0['_F']
                elif bp is not None and nf.config_key(bp['_C']) == 'entry_partial_credit':
                    kind = 'proportional'
                elif bn is not None and nf.config_key(bn['_C']) == 'entry_partial_credit':
                    kind = 'flat'
            if kind is None:
                r.undecided('MatrixEntryComparer: branches', 'guard `%s` not recognised' % short(last, 80) if last is not None else 'none', where)
                continue
            if frac is not None and not check_fraction(frac, where):
                continue
            seen.add(kind)
            e = resolve_result(idx, fi, p.leaf.expr) or p.leaf.expr
            d = dict_items(e)
            construct = 'MatrixEntryComparer: %s entries match' % {'all': 'all', 'none': 'no', 'proportional': 'some (proportional)',
                                                                    'flat': 'some (flat rate)'}[kind]
            if kind == 'all':
                full = (isinstance(e, ast.Constant) and e.value is True) or \
                       (d is not None and isinstance(d.get('grade_decimal'), ast.Constant) and d['grade_decimal'].value == 1)
                r.check(full, construct, 'full credit', 'when every entry matches the comparer returns `%s` instead of full credit' % short(e, 60),
                        where, expected='True')
            elif kind == 'none':
                r.check(is_zero_result(e), construct, 'zero credit', 'when no entry matches the comparer returns `%s` instead of a zero result'
                        % short(e, 60), where, expected="{'ok': False, 'grade_decimal': 0}")
            elif kind == 'proportional':
                g = d.get('grade_decimal') if d else None
                okv = d.get('ok') if d else None
                if g is not None and nf.classify([FRAC, 'np.sum(_Q) / _Q.size'], g) == nf.MATCH \
                        and isinstance(okv, ast.Constant) and okv.value == 'partial':
                    r.ok(construct, 'credit = fraction of matching entries', where)
                elif g is not None and isinstance(nf.classify([FRAC], g), tuple):
                    r.violation(construct, '%s: proportional credit is no longer the fraction of matching entries'
                                % nf.classify([FRAC], g)[1], where, expected='fraction', found=short(g, 80))
                elif g is not None and nf.config_key(g) == 'entry_partial_credit':
                    r.violation(construct, "with entry_partial_credit='proportional' the credit returned is the option itself (the string "
                                "'proportional') instead of the fraction of matching entries", where)
                else:
                    r.violation(construct, 'proportional credit is `%s` (ok=%s) instead of the fraction of matching entries with ok=partial'
                                % (short(g, 60) if g is not None else 'missing', short(okv) if okv is not None else 'missing'), where)
            else:
                g = d.get('grade_decimal') if d else None
                okv = d.get('ok') if d else None
                good = g is not None and nf.config_key(g) == 'entry_partial_credit' and isinstance(okv, ast.Constant) and okv.value == 'partial'
                r.check(good, construct, 'credit = entry_partial_credit', 'the flat partial credit is `%s` instead of config[entry_partial_credit]'
                        % (short(g, 60) if g is not None else 'missing'), where, expected="self.config['entry_partial_credit']")
        missing = {'all', 'none', 'proportional', 'flat'} - seen
        if missing and not any(o.status != 'discharged' for o in r.obligations):
            absent(r, idx, 'MatrixEntryComparer: branches', 'no branch for %s' % sorted(missing), fi.loc)


# ----------------------------------------------------------------------------- D1 LinearComparer
class _ZeroEval(object):
    """Evaluates a predicate over the expected evaluations on an abstract collection: the set of zero patterns of its samples
    ('A0' all entries zero, 'S0' some zero, 'N0' none zero)."""
    def __init__(self, coll, pname, env=None):
        self.coll = coll
        self.pname = pname
        self.env = env or {}

    # values: ('coll', frozenset patterns) | ('samp', pattern) | ('bcoll', frozenset of AT/ST/AF) | ('bsamp', AT/ST/AF) | bool
    def ev(self, e):
        if isinstance(e, ast.Name):
            if e.id in self.env:
                return self.env[e.id]
            if e.id == self.pname:
                return ('coll', self.coll)
            raise AnalysisError('name')
        if isinstance(e, ast.Constant) and isinstance(e.value, bool):
            return e.value
        if isinstance(e, ast.UnaryOp) and isinstance(e.op, ast.Not):
            v = self.ev(e.operand)
            return not self.truth(v)
        if isinstance(e, ast.BoolOp):
            vals = [self.truth(self.ev(v)) for v in e.values]
            return all(vals) if isinstance(e.op, ast.And) else any(vals)
        if isinstance(e, ast.Subscript) and nf.const_value(e.slice) == 0:
            v = self.ev(e.value)
            if v[0] == 'samp':
                return v            # params[0]: the expected evaluation of that sample
            raise AnalysisError('subscript')
        if isinstance(e, (ast.List, ast.Tuple)) and len(e.elts) == 1:
            return self.ev(e.elts[0])
        if isinstance(e, (ast.ListComp, ast.GeneratorExp)) and len(e.generators) == 1 and not e.generators[0].ifs:
            g = e.generators[0]
            it = self.ev(g.iter)
            if it[0] != 'coll':
                raise AnalysisError('iter')
            out = set()
            for pat in it[1]:
                v = self.bind(g.target, ('samp', pat)).ev(e.elt)
                if isinstance(v, tuple) and v[0] == 'samp':
                    out.add(v[1])
                else:
                    raise AnalysisError('comprehension element')
            return ('coll', frozenset(out))
        if isinstance(e, ast.Compare) and len(e.ops) == 1 and isinstance(e.ops[0], (ast.Eq, ast.NotEq)):
            l, r_ = e.left, e.comparators[0]
            zero = lambda x: isinstance(x, ast.Constant) and not isinstance(x.value, bool) and x.value == 0
            other = l if zero(r_) else r_ if zero(l) else None
            if other is None:
                raise AnalysisError('compare')
            v = self.ev(other)
            if v is True or v is False:
                raise AnalysisError('compare bool')
            m = {'A0': 'AT', 'S0': 'ST', 'N0': 'AF'} if isinstance(e.ops[0], ast.Eq) else {'A0': 'AF', 'S0': 'ST', 'N0': 'AT'}
            if v[0] == 'samp':
                return ('bsamp', m[v[1]])
            if v[0] == 'coll':
                return ('bcoll', frozenset(m[p] for p in v[1]))
            if v[0] == 'count':
                return (v[1] == 0) == isinstance(e.ops[0], ast.Eq)
            raise AnalysisError('compare')
        if isinstance(e, ast.Call):
            name = nf.callee_name(e)
            if name in ('all', 'any') and len(e.args) == 1:
                arg = e.args[0]
                numpy_form = isinstance(e.func, ast.Attribute)
                if not numpy_form and isinstance(arg, (ast.ListComp, ast.GeneratorExp)) and len(arg.generators) == 1 and not arg.generators[0].ifs:
                    g = arg.generators[0]
                    it = self.ev(g.iter)
                    if it[0] != 'coll':
                        raise AnalysisError('iter')
                    vals = [self.truth(self.bind(g.target, ('samp', pat)).ev(arg.elt)) for pat in sorted(it[1])]
                    return all(vals) if name == 'all' else any(vals)
                v = self.ev(arg)
                return self.reduce(name, v)
            if name == 'count_nonzero' and len(e.args) == 1:
                v = self.ev(e.args[0])
                nz = self.reduce('any', v)
                return ('count', 1 if nz else 0)
            if name in ('array', 'asarray', 'list', 'tuple', 'flatten', 'ravel') and (len(e.args) == 1 or (not e.args and isinstance(e.func, ast.Attribute))):
                return self.ev(e.args[0] if e.args else e.func.value)
            if name in ('abs', 'absolute') and len(e.args) == 1:
                return self.ev(e.args[0])
        raise AnalysisError('unsupported')

    def bind(self, target, value):
        env = dict(self.env)
        if isinstance(target, ast.Name):
            env[target.id] = value
        elif isinstance(target, (ast.List, ast.Tuple)) and len(target.elts) == 1 and isinstance(target.elts[0], ast.Name):
            env[target.elts[0].id] = value
        else:
            raise AnalysisError('target')
        return _ZeroEval(self.coll, self.pname, env)

    @staticmethod
    def reduce(name, v):
        """np.all / np.any / all / any of a whole array-like value."""
        if v is True or v is False:
            return v
        kind, x = v
        if kind == 'samp':
            return (x == 'N0') if name == 'all' else (x != 'A0')
        if kind == 'bsamp':
            return (x == 'AT') if name == 'all' else (x != 'AF')
        if kind == 'coll':
            return (x == frozenset(['N0'])) if name == 'all' else (x != frozenset(['A0']))
        if kind == 'bcoll':
            return (x == frozenset(['AT'])) if name == 'all' else (x != frozenset(['AF']))
        if kind == 'count':
            return x != 0
        raise AnalysisError('reduce')

    def truth(self, v):
        if v is True or v is False:
            return v
        if isinstance(v, tuple) and v[0] == 'count':
            return v[1] != 0
        raise AnalysisError('truth value of an array')


def zero_predicate_table(expr, pname):
    """[(pattern set, truth)] of a predicate over the expected evaluations for the 7 non-empty sets of sample patterns; None
    when the expression is outside the evaluator."""
    import itertools
    pats = ['A0', 'S0', 'N0']
    table = []
    for k in (1, 2, 3):
        for combo in itertools.combinations(pats, k):
            coll = frozenset(combo)
            try:
                v = _ZeroEval(coll, pname).ev(expr)
                v = _ZeroEval(coll, pname).truth(v)
            except AnalysisError:
                return None
            table.append((coll, v))
    return table


def read_mode_generator(idx, fi, gexpr):
    """A stream of satisfied modes: {'src': modes expression, 'conds': yield conditions, 'ecalls': estimator calls} for
    `(m for m in SRC if COND)`, `filter(f, SRC)` or a call of a generator helper `for m in <param>: ...; if COND: yield m`
    (expressions are given in terms of the caller).  None when the shape is not read."""
    g = lib.inline_locals(gexpr, fi.node)
    if isinstance(g, (ast.GeneratorExp, ast.ListComp)) and len(g.generators) == 1 and isinstance(g.generators[0].target, ast.Name) \
            and is_name(g.elt, g.generators[0].target.id):
        gen = g.generators[0]
        return {'src': gen.iter, 'conds': list(gen.ifs), 'var': gen.target.id, 'body': list(gen.ifs), 'env': {}}
    if isinstance(g, ast.Call) and isinstance(g.func, (ast.Attribute, ast.Name)):
        callee = resolve_function(idx, fi, g.func)
        if callee is None or not any(isinstance(n, ast.Yield) for n in walk_own(callee.node)):
            return None
        env = bind_call(callee, g)
        if env is None:
            return None
        loops = [n for n in callee.node.body if isinstance(n, ast.For)]
        others = [n for n in callee.node.body if not isinstance(n, ast.For) and not (isinstance(n, ast.Expr) and isinstance(n.value, ast.Constant))]
        if len(loops) != 1 or others or not isinstance(loops[0].target, ast.Name) or not isinstance(loops[0].iter, ast.Name) \
                or loops[0].iter.id not in env or loops[0].orelse:
            return None
        loop = loops[0]
        var = loop.target.id
        yields = [n for n in ast.walk(loop) if isinstance(n, ast.Yield)]
        if len(yields) != 1 or not is_name(yields[0].value, var):
            return None
        if lib.loop_has_early_exit(loop):
            return None
        # condition of the yield: the tests of the enclosing ifs, locals of the loop body inlined
        local = {}
        for n in loop.body:
            if isinstance(n, ast.Assign) and len(n.targets) == 1 and isinstance(n.targets[0], ast.Name):
                local[n.targets[0].id] = nf.subst(n.value, local)
        conds = []
        node = yields[0]
        child = node
        for a_ in ancestors(node):
            if a_ is loop:
                break
            if isinstance(a_, ast.If):
                t = nf.canon(nf.subst(a_.test, local))
                conds.append(t if any(child is x for st in a_.body for x in ast.walk(st)) else nf.negate(t))
            child = a_
        sub = dict(env)
        conds = [nf.subst(c, sub) for c in conds]
        body = [nf.subst(nf.subst(v, local), sub) for v in local.values()] + conds
        return {'src': env[loop.iter.id], 'conds': conds, 'var': var, 'body': body, 'env': env, 'callee': callee.qualname}
    return None


def mode_selection_shape(r, idx, ci, call, finals, P, S, U):
    """The result is built for ONE selected mode (`{'grade_decimal': self.config[m], ...}` with m chosen from a stream of satisfied
    modes) instead of max over per-mode results.  Returns True when this shape was recognised and judged here."""
    chosen = None
    for p in finals:
        lit = resolve_result(idx, call, p.leaf.expr)
        d = dict_items(lit) if lit is not None else None
        g = d.get('grade_decimal') if d else None
        if g is not None and isinstance(g, ast.Subscript) and nf.config_key(g) is None and isinstance(g.value, ast.Attribute) \
                and g.value.attr == 'config' and isinstance(g.slice, (ast.Name, ast.Call)):
            chosen = (p, g.slice)
    if chosen is None:
        return False
    p, msel = chosen
    where = lib.loc(call, p.leaf.stmt)
    if isinstance(msel, ast.Name):
        vals = lib.assigned_value(call.node, msel.id)
        if len(vals) != 1 or not isinstance(vals[0], ast.Call):
            return False
        sel = vals[0]
    else:
        sel = msel
    kind = nf.callee_name(sel)
    construct = self_contained(idx, call, 'LinearComparer.__call__: selection')
    if kind not in ('next', 'max', 'min') or not sel.args:
        r.undecided(construct, 'the reported mode is chosen by `%s`' % short(sel, 70), where)
        return True
    stream = read_mode_generator(idx, call, sel.args[0])
    if stream is None:
        r.undecided(construct, 'the stream of satisfied modes `%s` cannot be read (lazy generator without a loop-and-yield shape)'
                    % short(sel.args[0], 70), where)
        return True
    if stream.get('callee') in (getattr(idx, 'unreviewed', None) or []):
        # the generator helper was read as a whole (one loop over its parameter, one conditional yield of the loop variable)
        construct = 'LinearComparer.__call__: selection (generator %s read as a whole)' % stream['callee']
    src = lib.inline_locals(stream['src'], call.node)
    by_credit = isinstance(src, ast.Call) and nf.callee_name(src) == 'sorted' and 'config' in unparse(lib.get_kw(src, 'key') or ast.Constant(value=None)) \
        and nf.const_value(lib.get_kw(src, 'reverse') or ast.Constant(value=False)) is True
    if kind == 'next':
        if by_credit:
            r.ok(construct, 'first satisfied mode of a stream sorted by decreasing credit', where)
        else:
            r.violation(construct, 'the reported mode is `%s`: the FIRST satisfied mode in the order of `%s` (the declaration order equals, '
                        'proportional, offset, linear) instead of the satisfied mode with the LARGEST configured credit. Credits are free '
                        'per mode (e.g. proportional=0.5, linear=0.8): a proportional answer then earns 0.5 although the linear relation, '
                        'which also holds, is worth 0.8' % (short(sel, 60), short(src, 50)), where,
                        expected="max(results, key=lambda result: (result['grade_decimal'], result['msg']))", found=short(sel, 80))
    elif kind == 'min':
        r.violation(construct, 'the satisfied mode with the smallest key is reported', where, expected='max by credit', found=short(sel, 80))
    else:
        key = lib.get_kw(sel, 'key')
        good = key is not None and isinstance(key, ast.Lambda) and len(key.args.args) == 1 and \
            any(isinstance(n, ast.Subscript) and isinstance(n.value, ast.Attribute) and n.value.attr == 'config'
                and is_name(n.slice, key.args.args[0].arg) for n in ast.walk(key.body))
        first = None
        if good:
            kb = key.body.elts[0] if isinstance(key.body, ast.Tuple) and key.body.elts else key.body
            good = isinstance(kb, ast.Subscript) and is_name(kb.slice, key.args.args[0].arg)
        if good:
            r.ok(construct, 'the satisfied mode with the largest configured credit (max by self.config[mode])', where)
        else:
            r.undecided(construct, 'max over the satisfied modes with key `%s`' % (short(key, 60) if key is not None else 'none'), where)
    # the other obligations, read off the stream
    default_ok = any(is_zero_result(resolve_result(idx, call, q.leaf.expr) or q.leaf.expr) or
                     (dict_items(resolve_result(idx, call, q.leaf.expr) or q.leaf.expr) or {}).get('grade_decimal') is not None and
                     nf.const_value((dict_items(resolve_result(idx, call, q.leaf.expr) or q.leaf.expr) or {}).get('grade_decimal'), 1) == 0
                     for q in finals if q is not p)
    cond_ok = None
    for c in stream['conds']:
        neg = isinstance(c, ast.UnaryOp) and isinstance(c.op, ast.Not)
        core = c.operand if neg else c
        tb = nf.match('is_nearly_zero(_ERR, _U.tolerance, reference=__)', core)
        if tb is None and isinstance(core, ast.Call) and isinstance(core.func, ast.Name):
            pred = idx.funcs.get(call.qualname + '.<locals>.' + core.func.id)
            if pred is not None:
                rets = lib.returns_of(pred.node)
                if len(rets) == 1 and nf.match('is_nearly_zero(_ERR, _U.tolerance, reference=__)', rets[0].value) is not None:
                    tb = True
        if tb is not None:
            cond_ok = not neg
    cconstruct = self_contained(idx, call, 'LinearComparer.__call__: credit rule')
    if cond_ok is True and default_ok:
        r.ok(cconstruct, 'a mode counts iff its fit error is nearly zero; no satisfied mode -> credit 0', where)
    elif cond_ok is False:
        r.violation(cconstruct, 'the credit rule is inverted: a relation counts as satisfied when its fit error is NOT nearly zero', where)
    else:
        r.undecided(cconstruct, 'condition of the stream of satisfied modes not recognised', where)
    ecalls = [c for e_ in stream['body'] for c in ast.walk(e_) if isinstance(c, ast.Call) and isinstance(c.func, ast.Subscript)
              and isinstance(c.func.value, ast.Attribute) and c.func.value.attr == 'error_calculators']
    econstruct = self_contained(idx, call, 'LinearComparer.__call__: estimator arguments')
    if not ecalls:
        r.undecided(econstruct, 'no estimator call found in the stream of satisfied modes', where)
    for c in ecalls[:1]:
        x, y = (list(c.args) + [None, None])[:2]
        if x is None or y is None:
            r.undecided(econstruct, 'call `%s` not recognised' % short(c, 70), where)
            continue
        x, y = lib.inline_locals(x, call.node), lib.inline_locals(y, call.node)
        if mentions(x, S) and not mentions(x, P) and mentions(y, P) and not mentions(y, S):
            r.ok(econstruct, 'fit of expected against student: (student samples, expected samples)', where)
        elif mentions(x, P) and not mentions(x, S) and mentions(y, S) and not mentions(y, P):
            r.violation(econstruct, 'the estimators are called as (expected, student): the relation tested becomes student = a*expected + b',
                        where, expected='(student, expected)', found=short(c, 80))
        else:
            r.undecided(econstruct, 'estimator arguments not recognised', where)
    fconstruct = self_contained(idx, call, 'LinearComparer.__call__: mode filter')
    if by_credit and isinstance(src, ast.Call) and src.args:
        src = lib.inline_locals(src.args[0], call.node)
    b = nf.match('self.get_valid_modes(self.check_comparing_zero(_P, _S, _U.tolerance))', src)
    if b is not None and is_name(b['_P'], P) and is_name(b['_S'], S):
        r.ok(fconstruct, 'get_valid_modes(check_comparing_zero(expected, student, tolerance))', where)
    elif nf.match('self.modes', src) is not None:
        r.violation(fconstruct, 'the relations compared are self.modes, not get_valid_modes(...): the zero filter is bypassed', where)
    else:
        r.undecided(fconstruct, 'source `%s` of the modes not recognised' % short(src, 80), where)
    return True


def d1_linear(ctx, idx):
    r = ctx.rule('D1.LINEAR', 'LinearComparer: sample floor, zero-compatible modes, estimator table, zero detection, best configured credit', floor=17)
    with r:
        ci = idx.cls(LC)
        call = idx.func(LC + '.__call__')
        P, S, U = roles(call, 1)
        # (a) fewer than three samples -> ConfigError
        raises = [x for x in lib.raises_of(call.node) if nf.exc_class_name(x.exc) == 'ConfigError'
                  or (isinstance(x.exc, ast.Name) and False)]
        guard = None
        for x in lib.raises_of(call.node):
            for a in ancestors(x):
                if isinstance(a, ast.If) and any(x is s or any(x is y for y in ast.walk(s)) for s in a.body) and 'len' in unparse(a.test):
                    guard = (a, x)
                    break
        if guard is None:
            absent(r, idx, 'LinearComparer.__call__: sample floor', 'no refusal of fewer than three samples: a straight line through two '
                        'samples always fits, so every answer would earn linear credit', call.loc, expected='if len(student_evals) < 3: raise ConfigError')
        else:
            a, x = guard
            binds = {}
            test_i = lib.inline_locals(a.test, call.node)
            res = nf.classify(['len(_S) < 3'], test_i, binds)
            cname = nf.exc_class_name(x.exc) if x.exc is not None else None
            if res == nf.MATCH and (is_name(binds['_S'], S) or is_name(binds['_S'], P)):
                r.check(cname == 'ConfigError', 'LinearComparer.__call__: sample floor', 'len < 3 -> ConfigError',
                        'fewer than three samples raise %s instead of ConfigError' % cname, lib.loc(call, x), expected='ConfigError', found=cname)
            elif isinstance(res, tuple):
                r.violation('LinearComparer.__call__: sample floor', '%s: the minimum number of samples is no longer three' % res[1],
                            lib.loc(call, a), expected='len(student_evals) < 3', found=short(test_i))
            else:
                r.undecided('LinearComparer.__call__: sample floor', 'guard `%s` not recognised' % short(test_i), lib.loc(call, a))
        # (b) tables
        k, zc = idx.lookup_attr(ci, 'zero_compatible_modes')
        k2, am = idx.lookup_attr(ci, 'all_modes')
        zcv = [nf.const_value(x) for x in fold_sequence(idx, ci, zc)] if zc is not None else None
        amv = [nf.const_value(x) for x in fold_sequence(idx, ci, am)] if am is not None else None
        zcv = tuple(zcv) if zcv is not None and all(isinstance(x, str) for x in zcv) else None
        amv = tuple(amv) if amv is not None and all(isinstance(x, str) for x in amv) else None
        if zcv is None or amv is None:
            raise AnalysisError('LinearComparer: mode tables are not literals')
        r.check(set(zcv) == {'equals', 'offset'}, 'LinearComparer.zero_compatible_modes', "('equals', 'offset')",
                'zero_compatible_modes is %r: %s' % (zcv, 'proportional/linear credit would be awarded when one side is zero (y = 0*x fits any x)'
                                                     if set(zcv) - {'equals', 'offset'} else 'a relation that is meaningful at zero is no longer checked'),
                lib.mloc(ci.module, zc), expected="('equals', 'offset')", found=repr(zcv))
        r.check(set(amv) == {'equals', 'proportional', 'offset', 'linear'}, 'LinearComparer.all_modes', 'four relations',
                'all_modes is %r: a configured relation is never checked' % (amv,), lib.mloc(ci.module, am))
        k3, ec = idx.lookup_attr(ci, 'error_calculators')
        if ec is None:
            raise AnalysisError('LinearComparer.error_calculators not found')
        pairs = fold_table(idx, ci, ec)
        got = {}
        for kk, vv in pairs:
            if not (isinstance(kk, ast.Constant) and isinstance(vv, ast.Name)):
                raise AnalysisError('LinearComparer.error_calculators: entry `%s` not recognised' % short(vv))
            kind, obj = idx.resolve_name(ci.module, vv.id)
            got[kk.value] = obj.qualname.split('.')[-1] if kind == 'func' else vv.id
        for mode in ('equals', 'proportional', 'offset', 'linear'):
            want = 'get_%s_fit_error' % mode
            r.check(got.get(mode) == want, "LinearComparer.error_calculators['%s']" % mode, want,
                    "the '%s' relation is tested with %s: credit for '%s' is awarded for a different relation" % (mode, got.get(mode), mode),
                    lib.mloc(ci.module, ec), expected=want, found=str(got.get(mode)))
        # (c) get_valid_modes
        gv = idx.func(LC + '.get_valid_modes')
        flagp = gv.params[1]
        gpaths = ret_paths(gv)
        for p in gpaths:
            if p.leaf.kind != 'ret':
                continue
            where = lib.loc(gv, p.leaf.stmt)
            posg = any(is_name(g, flagp) for g in p.guards)
            negg = any(isinstance(g, ast.UnaryOp) and isinstance(g.op, ast.Not) and is_name(g.operand, flagp) for g in p.guards)
            plain = nf.match('self.modes', p.leaf.expr) is not None
            kept = None if plain else kept_modes(idx, ci, gv, p.leaf.expr, amv)
            zset = set(zcv)
            if posg:
                construct = 'LinearComparer.get_valid_modes: comparing zero'
                if plain:
                    r.violation(construct, 'all configured modes are returned although one side is zero: '
                                'proportional/linear credit is awarded against zero', where)
                elif kept is None:
                    r.undecided(construct, 'return `%s` not recognised as a filter of self.modes' % short(p.leaf.expr), where)
                elif kept == zset:
                    r.ok(construct, 'keeps exactly %s of %s' % (sorted(kept), sorted(amv)), where)
                elif kept == set(amv) - zset:
                    r.violation(construct, 'the filter is inverted: when comparing with zero the modes kept are %s, i.e. exactly the ones '
                                'that are meaningless at zero (a proportional/linear fit against zero always succeeds)' % sorted(kept), where,
                                expected=str(sorted(zset)), found=short(p.leaf.expr))
                else:
                    r.violation(construct, 'when comparing with zero the modes kept are %s instead of the zero-compatible ones %s'
                                % (sorted(kept), sorted(zset)), where, expected=str(sorted(zset)), found=short(p.leaf.expr))
            elif negg:
                construct = 'LinearComparer.get_valid_modes: ordinary case'
                if plain or (kept is not None and kept == set(amv)):
                    r.ok(construct, 'all configured modes', where)
                elif kept is not None:
                    r.violation(construct, 'a filter keeping only %s is applied when neither side is zero: configured credit for %s is '
                                'never awarded' % (sorted(kept), sorted(set(amv) - kept)), where)
                else:
                    r.undecided(construct, 'return `%s` not recognised' % short(p.leaf.expr), where)
            else:
                r.undecided('LinearComparer.get_valid_modes', 'path without a test of %s' % flagp, where)
        # (d) check_comparing_zero = (student nearly zero in every sample) or (expected exactly zero everywhere)
        cz = idx.func(LC + '.check_comparing_zero')
        zp, zs, zt = cz.params[0], cz.params[1], cz.params[2]
        zpaths = [p for p in ret_paths(cz) if p.leaf.kind == 'ret']
        if len(zpaths) != 1:
            raise AnalysisError('check_comparing_zero: expected one returning path')
        ze = zpaths[0].leaf.expr
        where = lib.loc(cz, zpaths[0].leaf.stmt)
        construct = self_contained(idx, cz, 'LinearComparer.check_comparing_zero')
        parts = nf.disjuncts(ze)
        spart = [d for d in parts if mentions(d, zs)]
        epart = [d for d in parts if not mentions(d, zs) and mentions(d, zp)]
        if isinstance(ze, ast.BoolOp) and isinstance(ze.op, ast.And) and len(ze.values) == 2 and any(mentions(v, zs) for v in ze.values):
            r.violation(construct, '`and` instead of `or`: zero is only assumed when BOTH sides are zero, so a proportional/linear fit against '
                        'an exactly-zero expected answer (which always succeeds) earns credit', where, found=short(ze, 100))
        elif len(spart) != 1 or len(epart) != 1 or len(parts) != 2:
            r.undecided(construct, 'expression `%s` is not (student part) or (expected part)' % short(ze, 100), where)
        else:
            # student part
            sp = spart[0]
            sb = None
            for pat in ('all([is_nearly_zero(_X, _T, reference=_Y) for _X, _Y in zip(_S, _E)])',
                        'all((is_nearly_zero(_X, _T, reference=_Y) for _X, _Y in zip(_S, _E)))'):
                sb = sb or nf.match(pat, sp)
            anyb = None
            for pat in ('any([is_nearly_zero(_X, _T, reference=_Y) for _X, _Y in zip(_S, _E)])',
                        'any((is_nearly_zero(_X, _T, reference=_Y) for _X, _Y in zip(_S, _E)))'):
                anyb = anyb or nf.match(pat, sp)
            if sb is not None and is_name(sb['_S'], zs) and is_name(sb['_T'], zt) and mentions(sb['_E'], zp) and not mentions(sb['_E'], zs):
                r.ok(construct + ': student side', 'nearly zero in every sample (relative to the expected value)', where)
            elif anyb is not None:
                r.violation(construct + ': student side', '`any` instead of `all`: one nearly-zero sample of the student is enough to drop the '
                            'proportional/linear relations for all samples', where, found=short(sp, 90))
            elif sb is not None:
                r.violation(construct + ': student side', 'the near-zero test runs over `%s`/`%s` instead of (student, expected)'
                            % (short(sb['_S']), short(sb['_E'])), where)
            else:
                r.undecided(construct + ': student side', 'expression `%s` not recognised' % short(sp, 90), where)
            # expected part: decided over the zero patterns of the expected evaluations
            verdict = zero_predicate_table(epart[0], zp)
            if verdict is None:
                r.undecided(construct + ': expected side', 'expression `%s` is outside the zero-pattern evaluator' % short(epart[0], 90), where)
            else:
                bad = [(cls, got) for cls, got in verdict if got != (cls == frozenset(['A0']))]
                if not bad:
                    r.ok(construct + ': expected side', 'true exactly when every entry of every expected evaluation is zero (decided over '
                         'the 7 zero patterns)', where)
                else:
                    cls, got = bad[0]
                    words = {'A0': 'an evaluation that is entirely zero', 'S0': 'an evaluation with some zero and some nonzero entries',
                             'N0': 'an evaluation without zero entries'}
                    r.violation(construct + ': expected side', 'the test `%s` for "the author\'s answer is exactly zero" is %s when the expected '
                                'evaluations consist of %s (e.g. an answer like [x, 0, 2*y]): it should hold only when every entry is zero '
                                '(wrong any/all dual); the proportional and linear relations are then dropped (or kept) for the wrong answers'
                                % (short(epart[0], 60), got, ' and '.join(words[c] for c in sorted(cls))), where,
                                expected='not np.any(expected) / all(np.all(x == 0) for x in expected)', found=short(epart[0], 80))
        # (e) the result: credit iff the fit error is nearly zero, best by (credit, message)
        finals = [p for p in ret_paths(call) if p.leaf.kind == 'ret']
        if not finals:
            raise AnalysisError('LinearComparer.__call__: no returning path')
        seen_expr = []
        if mode_selection_shape(r, idx, ci, call, finals, P, S, U):
            finals = []
        for p in finals:
            e = p.leaf.expr
            if any(nf.equal(e, x) for x in seen_expr):
                continue
            seen_expr.append(e)
            where = lib.loc(call, p.leaf.stmt)
            if not (isinstance(e, ast.Call) and nf.callee_name(e) in ('max', 'min') and e.args):
                r.undecided('LinearComparer.__call__: selection', 'return `%s` not recognised' % short(e, 80), where)
                continue
            if nf.callee_name(e) == 'min':
                r.violation('LinearComparer.__call__: selection', 'the result is the minimum over the configured relations: the smallest '
                            'instead of the largest applicable credit is awarded', where, expected='max(results, key=...)', found='min(...)')
                continue
            key = lib.get_kw(e, 'key')
            kb = None
            kan = kbody = None
            if isinstance(key, ast.Lambda) and len(key.args.args) == 1:
                kan, kbody = key.args.args[0].arg, key.body
            elif key is not None and isinstance(key, (ast.Attribute, ast.Name)):
                kf = resolve_function(idx, call, key)
                if kf is not None:
                    kparams = kf.params[1:] if (kf.cls is not None and not kf.is_static) else kf.params
                    kpaths = nf.decision_paths(kf.node.body)
                    if len(kparams) == 1 and len(kpaths) == 1 and kpaths[0].leaf.kind == 'ret' and not kpaths[0].effects:
                        kan, kbody = kparams[0], kpaths[0].leaf.expr
            if kbody is not None:
                first = kbody.elts[0] if isinstance(kbody, ast.Tuple) and kbody.elts else kbody
                if isinstance(first, ast.Subscript) and is_name(first.value, kan) and nf.const_value(first.slice) == 'grade_decimal':
                    kb = True
            elif key is not None:
                r.undecided('LinearComparer.__call__: selection', 'key function `%s` cannot be looked through' % short(key), where)
                kb = 'skip'
            if kb != 'skip':
              r.check(kb is not None, 'LinearComparer.__call__: selection', 'max by (grade_decimal, msg)',
                      'the best result is selected with key `%s`, not by credit' % (short(key) if key is not None else 'none'), where,
                      expected="key=lambda result: (result['grade_decimal'], result['msg'])")
            comp = e.args[0]
            if not isinstance(comp, (ast.ListComp, ast.GeneratorExp)):
                r.undecided('LinearComparer.__call__: credit rule', 'results `%s` not recognised' % short(comp, 80), where)
                continue
            cases = expr_cases(idx, call, comp.elt)
            if cases is None or len(cases) < 2:
                r.undecided('LinearComparer.__call__: credit rule', 'result element `%s` cannot be split into cases' % short(comp.elt, 80), where)
                continue
            NZP = 'is_nearly_zero(_ERR, _U.tolerance, reference=__)'
            verdicts = []
            for guards, val in cases:
                holds = None
                for g in guards:
                    if nf.match(NZP, g) is not None:
                        holds = True
                    elif isinstance(g, ast.UnaryOp) and isinstance(g.op, ast.Not) and nf.match(NZP, g.operand) is not None:
                        holds = False
                d = dict_items(val)
                if holds is None or d is None or len(guards) != 1:
                    verdicts = None
                    break
                gd = d.get('grade_decimal')
                is_cfg = gd is not None and isinstance(gd, ast.Subscript) and isinstance(gd.value, ast.Attribute) and gd.value.attr == 'config'
                is_zero = isinstance(gd, ast.Constant) and gd.value == 0
                verdicts.append((holds, 'cfg' if is_cfg else ('zero' if is_zero else short(gd) if gd is not None else '?')))
            if verdicts is None:
                r.undecided('LinearComparer.__call__: credit rule', 'cases of `%s` not recognised' % short(comp.elt, 80), where)
            else:
                got = dict(verdicts)
                if got.get(True) == 'cfg' and got.get(False) == 'zero':
                    r.ok('LinearComparer.__call__: credit rule', 'configured credit iff the fit error is nearly zero', where)
                elif got.get(True) == 'zero' and got.get(False) == 'cfg':
                    r.violation('LinearComparer.__call__: credit rule', 'the credit rule is inverted: a relation earns its credit when its fit error '
                                'is NOT nearly zero', where, expected='credit if is_nearly_zero(error, ...) else 0')
                else:
                    r.violation('LinearComparer.__call__: credit rule', 'credit `%s` when the relation holds, `%s` otherwise' %
                                (got.get(True), got.get(False)), where, expected='self.config[mode] / 0')
            # ROLE: the documented relations are expected = a*student (+ b): every estimator is called as (student samples, expected samples)
            ecalls = [c for c in ast.walk(comp) if isinstance(c, ast.Call) and isinstance(c.func, ast.Subscript)
                      and isinstance(c.func.value, ast.Attribute) and c.func.value.attr == 'error_calculators']
            if not ecalls:
                r.undecided('LinearComparer.__call__: estimator arguments', 'no call of self.error_calculators[mode](...) found in the result', where)
            for c in ecalls:
                if len(c.args) != 2 or c.keywords:
                    r.undecided('LinearComparer.__call__: estimator arguments', 'call `%s` not recognised' % short(c, 80), where)
                    continue
                x, y = c.args
                xs, xp, ys, yp = mentions(x, S), mentions(x, P), mentions(y, S), mentions(y, P)
                if xs and not xp and yp and not ys:
                    r.ok('LinearComparer.__call__: estimator arguments', 'fit of expected against student: (student samples, expected samples)', where)
                elif xp and not xs and ys and not yp:
                    r.violation('LinearComparer.__call__: estimator arguments', 'the estimators are called as (expected, student): the relation '
                                'tested becomes student = a*expected + b instead of expected = a*student + b. The linear fit falls back to '
                                'the offset error only when its FIRST argument is constant, so a constant nonzero submission now earns the '
                                '`linear` credit', where,
                                expected='self.error_calculators[mode](student, expected)', found=short(c, 90))
                else:
                    r.undecided('LinearComparer.__call__: estimator arguments', 'arguments `%s`, `%s` are not recognisably the student and '
                                'expected samples' % (short(x, 40), short(y, 40)), where)
            # the modes compared are the filtered ones, computed from check_comparing_zero(params, student, tolerance)
            src = unparse(comp)
            gvc = [c for c in ast.walk(comp) if isinstance(c, ast.Call) and nf.callee_name(c) == 'get_valid_modes']
            if not gvc:
                absent(r, idx, 'LinearComparer.__call__: mode filter', 'the relations compared are not taken from get_valid_modes: the zero '
                            'filter is bypassed', where, expected='self.get_valid_modes(is_comparing_zero)')
            else:
                arg = gvc[0].args[0] if gvc[0].args else None
                b = nf.match('self.check_comparing_zero(_P, _S, _U.tolerance)', arg) if arg is not None else None
                if b is not None and is_name(b['_P'], P) and is_name(b['_S'], S):
                    r.ok('LinearComparer.__call__: mode filter', 'get_valid_modes(check_comparing_zero(expected, student, tolerance))', where)
                elif b is not None and is_name(b['_P'], S) and is_name(b['_S'], P):
                    r.violation('LinearComparer.__call__: mode filter', 'check_comparing_zero receives (student, expected) in the wrong order: '
                                'the exact-zero test is applied to the submission and the near-zero test to the expected value', where)
                elif arg is not None and isinstance(arg, ast.Constant):
                    r.violation('LinearComparer.__call__: mode filter', 'get_valid_modes is given the constant %r: zero is never/always assumed'
                                % (arg.value,), where)
                else:
                    r.undecided('LinearComparer.__call__: mode filter', 'argument `%s` not recognised' % (short(arg, 80) if arg is not None else 'none'), where)


        # (f) orientation inside the least-squares estimators: design matrix from x (student), target y (expected)
        for name in ('get_linear_fit_error', 'get_proportional_fit_error'):
            ef = idx.func(LMOD + '.' + name)
            if len(ef.params) != 2:
                raise AnalysisError('%s: signature changed' % name)
            X, Y = ef.params
            ls = [c for c in walk_own(ef.node) if isinstance(c, ast.Call) and nf.callee_name(c) == 'lstsq']
            if len(ls) != 1 or len(ls[0].args) < 2:
                raise AnalysisError('%s: expected one np.linalg.lstsq(A, y) call' % name)
            a0 = lib.inline_locals(ls[0].args[0], ef.node)
            a1 = lib.inline_locals(ls[0].args[1], ef.node)
            good = mentions(a0, X) and not mentions(a0, Y) and mentions(a1, Y) and not mentions(a1, X)
            swapped = mentions(a0, Y) and not mentions(a0, X) and mentions(a1, X) and not mentions(a1, Y)
            construct = '%s: regression orientation' % name
            if good:
                r.ok(construct, 'design matrix from %s, target %s' % (X, Y), lib.loc(ef, ls[0]))
            elif swapped:
                r.violation(construct, 'the regression is posed as %s = a*%s (+ b): with the estimator called as (student, expected) this '
                            'tests student = a*expected (+ b); a constant submission then fits perfectly' % (X, Y), lib.loc(ef, ls[0]),
                            expected='lstsq(A(%s), %s)' % (X, Y), found=short(ls[0], 80))
            else:
                r.violation(construct, 'the least-squares problem `%s` does not regress %s (second argument) on %s (first argument)'
                            % (short(ls[0], 80), Y, X), lib.loc(ef, ls[0]), expected='lstsq(A(%s), %s)' % (X, Y))


# ----------------------------------------------------------------------------- D1 is_nearly_zero
def d1_nearly_zero(ctx, idx):
    r = ctx.rule('D1.NEARZERO', 'is_nearly_zero is norm(x) <= tolerance with a percentage taken relative to norm(reference)', floor=2)
    with r:
        fi = idx.func(NZ)
        if len(fi.params) < 3:
            raise AnalysisError('is_nearly_zero: signature changed')
        X, T, R = fi.params[:3]
        n = 0
        for p in ret_paths(fi):
            if p.leaf.kind != 'ret':
                continue
            where = lib.loc(fi, p.leaf.stmt)
            pct = any(nf.match('isinstance(_T, str)', g) is not None for g in p.guards)
            if pct:
                pats = ['np.linalg.norm(_X) <= np.linalg.norm(_R) * percentage_as_number(_T)']
                construct = 'is_nearly_zero: percentage tolerance'
            else:
                pats = ['np.linalg.norm(_X) <= _T']
                construct = 'is_nearly_zero: absolute tolerance'
            binds = {}
            res = nf.classify(pats, p.leaf.expr, binds)
            n += 1
            if res == nf.MATCH:
                good = is_name(binds['_X'], X) and is_name(binds['_T'], T) and (not pct or is_name(binds['_R'], R))
                if good:
                    r.ok(construct, short(p.leaf.expr), where)
                elif pct and is_name(binds['_R'], X):
                    r.violation(construct, 'the percentage is taken relative to norm(x) itself: every x passes a tolerance >= 100%% and the '
                                'reference is ignored', where, expected='norm(%s) * percentage' % R, found=short(p.leaf.expr))
                else:
                    r.violation(construct, 'operands `%s` are not (x, tolerance, reference)' % short(p.leaf.expr), where)
            elif isinstance(res, tuple):
                r.violation(construct, '%s: the boundary of "nearly zero" moved' % res[1], where, expected=pats[0], found=short(p.leaf.expr))
            else:
                r.undecided(construct, 'decision `%s` not recognised' % short(p.leaf.expr), where)
        if n == 0:
            raise AnalysisError('is_nearly_zero: no returning path')


# ----------------------------------------------------------------------------- D2 validation before comparison
def derived_names(fn, seeds):
    """Flow-insensitive closure: locals assigned (or iterated) from expressions that mention a seed."""
    out = set(seeds)
    changed = True
    while changed:
        changed = False
        for n in walk_own(fn):
            pairs = []
            if isinstance(n, ast.Assign):
                pairs = [(t, n.value) for t in n.targets]
            elif isinstance(n, ast.AugAssign):
                pairs = [(n.target, n.value)]
            elif isinstance(n, ast.For):
                pairs = [(n.target, n.iter)]
            for t, v in pairs:
                if lib.names_in(v) & out:
                    for x in ast.walk(t):
                        if isinstance(x, ast.Name) and x.id not in out:
                            out.add(x.id)
                            changed = True
    return out


def d2_order(ctx, idx):
    r = ctx.rule('D2.ORDER', 'shape validation dominates every statement that combines the student value with the expected ones', floor=8)
    with r:
        specs = [(C + 'EqualityComparer.__call__', 1, 'validate'), (C + 'MatrixEntryComparer.__call__', 1, 'validate'),
                 (C + 'eigenvector_comparer', 0, 'validate_shape'), (C + 'vector_span_comparer', 0, 'validate_shape'),
                 (LC + '.__call__', 1, 'validate_shape')]
        for q, off, vname in specs:
            fi = idx.func(q)
            P, S, U = roles(fi, off)
            cfg = cfg_of(fi.node)
            sd, pd = derived_names(fi.node, {S}), derived_names(fi.node, {P})
            vcalls = []
            for c in lib.calls_named(fi.node, vname):
                if isinstance(c.func, ast.Attribute) and (vname == 'validate' or is_name(c.func.value, U)):
                    if any(mentions(a, sd) for a in c.args):
                        vcalls.append(c)
            label = q.split('.comparers.')[-1].replace('comparers.', '').replace('linear_comparer.', '')
            if not vcalls:
                absent(r, idx, '%s: shape validation' % label, 'the submission is no longer validated against the expected shape: a wrong-shaped '
                            'answer is compared (broadcast or shape error of another policy) instead of being reported as a shape mismatch',
                            fi.loc, expected='%s(...) before the comparison' % vname)
                continue
            vnodes = [n for c in vcalls for n in lib.cfg_nodes_for(cfg, c)]
            hasattr_edges = []
            for n in cfg.nodes:
                if n.kind == 'test' and isinstance(n.ast, ast.If):
                    t = nf.canon(n.ast.test)
                    b = nf.match("hasattr(_U, 'validate_shape')", t)
                    if b is not None and is_name(b['_U'], U):
                        hasattr_edges.append((n, 'false'))
                    b = nf.match("not hasattr(_U, 'validate_shape')", t)
                    if b is not None and is_name(b['_U'], U):
                        hasattr_edges.append((n, 'true'))
            reach = cfg.reach([cfg.entry], blocked=vnodes, blocked_edges=hasattr_edges)
            combining = []
            for n in cfg.nodes:
                if n in vnodes or n.ast is None or n.kind not in ('stmt', 'test', 'for', 'with'):
                    continue
                from ..cfg import head_exprs
                names = set()
                for h in head_exprs(n.ast):
                    names |= lib.names_in(h)
                uses = set()
                for h in head_exprs(n.ast):
                    for x in ast.walk(h):
                        if isinstance(x, ast.Name) and isinstance(x.ctx, ast.Load):
                            uses.add(x.id)
                if uses & sd and uses & pd:
                    combining.append(n)
            if not combining:
                raise AnalysisError('%s: no statement combines student and expected values' % q)
            early = [n for n in combining if n in reach]
            if early:
                r.violation('%s: validation before comparison' % label, '`%s` combines the submission with the expected values on a path '
                            'that has not passed the shape validation: a wrong-shaped answer is graded (or fails with another error) '
                            'before it can be reported as a shape mismatch' % short(early[0].ast, 90), lib.loc(fi, early[0].ast),
                            expected='%s first' % vname)
            else:
                r.ok('%s: validation before comparison' % label, '%d combining statement(s) dominated by the validation' % len(combining),
                     lib.loc(fi, vcalls[0]))
        # the validation sees the RAW evaluations: a configured transform (norm, trace, ...) may collapse the shape
        for q, off in ((C + 'EqualityComparer.__call__', 1), (C + 'MatrixEntryComparer.__call__', 1)):
            fi = idx.func(q)
            P, S, U = roles(fi, off)
            label = q.split('.comparers.')[-1].replace('comparers.', '')
            construct = '%s: validation sees raw values' % label
            tnames = {n for n, v in lib.local_env(fi.node).items() if nf.config_key(v) == 'transform'}

            def is_transform_call(c):
                return isinstance(c, ast.Call) and (nf.config_key(c.func) == 'transform' or (isinstance(c.func, ast.Name) and c.func.id in tnames))
            n_paths = 0
            verdict = None
            for p in nf.decision_paths(fi.node.body):
                if p.leaf.kind == 'raise':
                    continue
                vcs = [c for e in p.effects for c in ast.walk(e) if isinstance(c, ast.Call) and nf.callee_name(c) == 'validate'
                       and isinstance(c.func, ast.Attribute)]
                if not vcs:
                    continue
                n_paths += 1
                for c in vcs:
                    tcalls = [x for a in c.args for x in ast.walk(a) if is_transform_call(x)]
                    if tcalls:
                        verdict = ('bad', c, tcalls[0])
                    elif not any(mentions(a, S) for a in c.args):
                        verdict = verdict or ('und', c, None)
            if n_paths == 0:
                r.undecided(construct, 'no path with a validate(...) call could be followed', fi.loc)
            elif verdict is None:
                r.ok(construct, 'validate(...) receives the untransformed evaluations on %d path(s)' % n_paths, fi.loc)
            elif verdict[0] == 'bad':
                c = verdict[1]
                line = next((getattr(x, 'lineno', None) for x in lib.calls_named(fi.node, 'validate')), None)
                r.violation(construct, 'the shape validation is applied to values that already went through the configured transform '
                            '(`%s`): with a shape-collapsing transform (np.linalg.norm, trace) a submission of the wrong shape passes the '
                            'validation and is graded instead of being reported as a shape mismatch' % short(verdict[2], 60),
                            '%s:%s' % (fi.module.relpath, line or fi.node.lineno), expected='validate the raw evaluations, then transform',
                            found=short(c, 100))
            else:
                r.undecided(construct, 'arguments of `%s` are not recognisably the evaluations' % short(verdict[1], 80), fi.loc)
        # MatrixEntryComparer.validate visits every sample pair
        fi = idx.func(C + 'MatrixEntryComparer.validate')
        E, S, U = fi.params[0], fi.params[1], fi.params[2]
        loops = lib.loops_of(fi.node)
        calls = lib.calls_named(fi.node, 'validate')
        if len(loops) != 1 or not calls:
            raise AnalysisError('MatrixEntryComparer.validate: expected one loop calling EqualityComparer.validate')
        lp = loops[0]
        zb = nf.match('zip(_A, _B)', lp.iter)
        tg = lp.target
        ok = zb is not None and isinstance(tg, ast.Tuple) and len(tg.elts) == 2 and all(isinstance(e, ast.Name) for e in tg.elts)
        if not ok:
            raise AnalysisError('MatrixEntryComparer.validate: loop shape not recognised')
        first, second = tg.elts[0].id, tg.elts[1].id
        src = {first: zb['_A'], second: zb['_B']}
        c = calls[0]
        a0, a1 = (c.args + [None, None])[:2]
        good = isinstance(a0, ast.Name) and isinstance(a1, ast.Name) and a0.id in src and a1.id in src \
            and is_name(src[a0.id], E) and is_name(src[a1.id], S)
        r.check(good and not lib.loop_has_early_exit(lp), 'MatrixEntryComparer.validate', 'every (expected, student) sample pair is validated',
                'the per-sample validation %s' % ('stops early' if lib.loop_has_early_exit(lp) else 'passes `%s` instead of (expected, student)' % short(c)),
                lib.loc(fi, c))


# ----------------------------------------------------------------------------- D3 mismatch policy
def _alias(idx, module, name):
    kind, obj = idx.resolve_name(module, name)
    if kind == 'class':
        return obj.qualname
    if kind == 'value':
        mod, nm = obj
        vals = mod.assigns.get(nm, [])
        if len(vals) == 1 and isinstance(vals[0], (ast.Name, ast.Attribute)):
            return _alias(idx, mod, unparse(vals[0]).split('.')[-1])
    return name


def switch_key(g):
    k = nf.config_key(g)
    if k is not None:
        return k
    if isinstance(g, ast.Subscript) and isinstance(g.slice, ast.Constant) and nf.config_key(g.value) == 'answer_shape_mismatch':
        return 'answer_shape_mismatch.' + str(g.slice.value)
    return None


def resolve_classes(idx, module, expr, depth=0):
    """Qualified class names denoted by an except-clause / isinstance class expression (follows aliases and module tuples)."""
    if depth > 4:
        raise AnalysisError('class expression `%s` nests too deeply' % short(expr))
    if isinstance(expr, (ast.Tuple, ast.List)):
        out = []
        for e in expr.elts:
            out += resolve_classes(idx, module, e, depth + 1)
        return out
    if isinstance(expr, (ast.Name, ast.Attribute)):
        name = unparse(expr).split('.')[-1]
        kind, obj = idx.resolve_name(module, name)
        if kind == 'class':
            return [obj.qualname]
        if kind == 'value':
            mod, nm = obj
            vals = mod.assigns.get(nm, [])
            if len(vals) == 1:
                return resolve_classes(idx, mod, vals[0], depth + 1)
        if kind == 'builtin':
            return [name]
    raise AnalysisError('class expression `%s` cannot be resolved' % short(expr))


def exc_mro(idx, q):
    ci = idx.classes.get(q)
    if ci is None:
        return [q]
    out = list(ci.mro)
    tail = out[-1].split('.')[-1]
    cur = lib.BUILTIN_EXC_PARENTS.get(tail)
    out[-1] = tail
    while cur:
        out.append(cur)
        cur = lib.BUILTIN_EXC_PARENTS.get(cur)
    return out


def eval_guard(g, env, ctxinfo=None):
    """Truth of a canonical guard under an assignment of the policy switches and a concrete exception class."""
    ct = _const_truth(g)
    if ct is not None:
        return ct         # `{...} is None`, `None is None`: a helper result meaning "raise" / "graded" was inlined
    if isinstance(g, ast.UnaryOp) and isinstance(g.op, ast.Not):
        v = eval_guard(g.operand, env, ctxinfo)
        return None if v is None else (not v)
    if isinstance(g, ast.BoolOp):
        vals = [eval_guard(v, env, ctxinfo) for v in g.values]
        if isinstance(g.op, ast.And):
            if any(v is False for v in vals):
                return False
            return None if any(v is None for v in vals) else True
        if any(v is True for v in vals):
            return True
        return None if any(v is None for v in vals) else False
    if isinstance(g, ast.Constant) and isinstance(g.value, bool):
        return g.value
    if isinstance(g, ast.Compare) and len(g.ops) == 1 and isinstance(g.ops[0], (ast.Is, ast.IsNot, ast.Eq, ast.NotEq)) \
            and isinstance(g.comparators[0], ast.Constant) and isinstance(g.comparators[0].value, bool):
        v = eval_guard(g.left, env, ctxinfo)
        if v is None:
            return None
        same = v == g.comparators[0].value
        return same if isinstance(g.ops[0], (ast.Is, ast.Eq)) else not same
    if ctxinfo is not None and isinstance(g, ast.Call) and isinstance(g.func, ast.Name) and g.func.id == 'isinstance' \
            and len(g.args) == 2 and is_name(g.args[0], ctxinfo['err']):
        classes = resolve_classes(ctxinfo['idx'], ctxinfo['module'], g.args[1])
        return any(c in ctxinfo['mro'] or c.split('.')[-1] in ctxinfo['mro'] for c in classes)
    k = switch_key(g)
    if k is not None and k in env:
        return env[k]
    return None


def resolve_result(idx, fi, expr, depth=0):
    """A result expression as a dict literal node, looking through helpers that build it (f(msg)), copies of constants
    (dict(C), C.copy(), copy.copy(C), dict(C, msg=...), {**C, 'msg': ...}) and names of locals / class / module constants.
    None when it cannot be resolved."""
    if depth > 4 or expr is None:
        return None
    if isinstance(expr, ast.Dict):
        if all(k is not None for k in expr.keys):
            return expr
        keys, vals = [], []
        for k, v in zip(expr.keys, expr.values):
            if k is None:
                base = resolve_result(idx, fi, v, depth + 1)
                if base is None:
                    return None
                keys += base.keys
                vals += base.values
            else:
                keys.append(k)
                vals.append(v)
        merged = {}
        for k, v in zip(keys, vals):
            if not isinstance(k, ast.Constant):
                return None
            merged[k.value] = (k, v)
        return ast.Dict(keys=[k for k, _ in merged.values()], values=[v for _, v in merged.values()])
    if isinstance(expr, ast.Name):
        vals = lib.assigned_value(fi.node, expr.id) if hasattr(fi, 'node') else []
        if len(vals) == 1:
            return resolve_result(idx, fi, vals[0], depth + 1)
        if not vals:
            if getattr(fi, 'cls', None) is not None:
                k, v = idx.lookup_attr(fi.cls, expr.id)
                if v is not None:
                    return resolve_result(idx, fi, v, depth + 1)
            mv = fi.module.assigns.get(expr.id, [])
            if len(mv) == 1:
                return resolve_result(idx, fi, mv[0], depth + 1)
        return None
    if isinstance(expr, ast.Attribute) and isinstance(expr.value, ast.Name) and getattr(fi, 'cls', None) is not None \
            and expr.value.id in ('self', 'cls', fi.cls.name):
        k, v = idx.lookup_attr(fi.cls, expr.attr)
        return resolve_result(idx, fi, v, depth + 1) if v is not None else None
    if isinstance(expr, ast.Call):
        cn = nf.callee_name(expr)
        if cn in ('copy', 'deepcopy') and isinstance(expr.func, ast.Attribute) and not expr.args:
            return resolve_result(idx, fi, expr.func.value, depth + 1)
        if cn in ('copy', 'deepcopy') and len(expr.args) == 1:
            return resolve_result(idx, fi, expr.args[0], depth + 1)
        if cn == 'dict' and isinstance(expr.func, ast.Name) and len(expr.args) <= 1:
            base = resolve_result(idx, fi, expr.args[0], depth + 1) if expr.args else ast.Dict(keys=[], values=[])
            if base is None or any(k.arg is None for k in expr.keywords):
                return None
            merged = {k.value: (k, v) for k, v in zip(base.keys, base.values) if isinstance(k, ast.Constant)}
            for k in expr.keywords:
                merged[k.arg] = (ast.Constant(value=k.arg), k.value)
            return ast.Dict(keys=[k for k, _ in merged.values()], values=[v for _, v in merged.values()])
        cases = expr_cases(idx, fi, expr)
        if cases is not None and len(cases) == 1 and not cases[0][0] and cases[0][1] is not expr:
            return resolve_result(idx, fi, cases[0][1], depth + 1)
    return None


def leaf_kind(leaf, errname, idx=None, fi=None):
    if leaf.kind == 'raise':
        if leaf.expr is None or is_name(leaf.expr, errname):
            return 'raise'
        return 'raise-other:%s' % nf.exc_class_name(leaf.expr)
    if leaf.kind == 'ret':
        e = leaf.expr
        lit = resolve_result(idx, fi, e) if idx is not None else (e if isinstance(e, ast.Dict) else None)
        if lit is None:
            if isinstance(e, ast.Constant):
                return 'ret-other'
            return 'unknown'
        d = dict_items(lit)
        if is_zero_result(lit):
            msg = d.get('msg')
            if msg is None or (isinstance(msg, ast.Constant) and msg.value == ''):
                return 'zero-silent'
            if errname and mentions(msg, errname):
                return 'zero-message'
            if isinstance(msg, ast.Constant) or not lib.names_in(msg):
                return 'zero-othermsg'
            return 'unknown'
        g = d.get('grade_decimal')
        if g is None or isinstance(g, ast.Constant):
            return 'ret-other'
        return 'unknown'
    return 'fall'


def interpret_handler(idx, fi, h, cls, mro, env):
    """Outcome kind of running the handler body for an exception of class `cls` under the switch assignment `env`, by the
    small Python interpreter of sa/shapes.py (tables of lambdas, next(), tuple unpacking); None when it cannot be run."""
    from .. import shapes as S
    try:
        it = S.Interp(idx, 'mitxgraders.helpers.calc.math_array.MathArray')
        me = S.ObjV(idx.cls(MGQ))
        me.attrs['config'] = {'suppress_matrix_messages': env['suppress_matrix_messages'], 'shape_errors': env.get('shape_errors', True),
                              'answer_shape_mismatch': {'is_raised': env.get('answer_shape_mismatch.is_raised', True), 'msg_detail': 'type'},
                              'negative_powers': True}
        chain = list(mro)
        inst = S.ExcInst(S.ClassV(cls, chain), ('\0ERRMSG\0',), None)
        selfp = fi.params[0]
        scope = {selfp: me}
        if h.name:
            scope[h.name] = inst
        it.handling.append(inst)

        def body():
            try:
                it.exec_block(h.body, scope, fi)
            except S._Return as ret:
                return ret.value
            return S.Opaque('fall')
        out = it.run(body)
    except AnalysisError:
        return None
    if out.kind == 'RAISE':
        return 'raise' if out.exc is inst else 'raise-other:%s' % out.exc.cls.name.split('.')[-1]
    v = out.value
    if isinstance(v, S.Opaque):
        return 'fall'
    if isinstance(v, dict):
        g, ok, msg = v.get('grade_decimal'), v.get('ok', False), v.get('msg', '')
        if g == 0 and ok is False and not isinstance(g, bool):
            if msg == '':
                return 'zero-silent'
            if msg == '\0ERRMSG\0':
                return 'zero-message'
            return 'zero-othermsg'
        return 'ret-other'
    return 'ret-other'


def d3_policy(ctx, idx):
    r = ctx.rule('D3.POLICY', 'MatrixGrader.check_response realises the mismatch-policy truth table for every matrix error class', floor=13)
    with r:
        fi = idx.func(MGQ + '.check_response')
        trs = lib.stmts_in(fi.node, ast.Try)
        if len(trs) != 1:
            raise AnalysisError('MatrixGrader.check_response: expected one try')
        tr = trs[0]
        sup = [c for c in lib.calls_named(fi.node, 'check_response') if isinstance(c.func, ast.Attribute)
               and isinstance(c.func.value, ast.Call) and nf.callee_name(c.func.value) == 'super']
        if not sup:
            # the parent call may sit in a helper method that check_response calls inside its try
            mgci = idx.cls(MGQ)
            for m in mgci.methods.values():
                if m is fi:
                    continue
                if [c for c in lib.calls_named(m.node, 'check_response') if isinstance(c.func, ast.Attribute)
                        and isinstance(c.func.value, ast.Call) and nf.callee_name(c.func.value) == 'super']:
                    sup = [c for c in lib.calls_named(fi.node, m.name) if isinstance(c.func, ast.Attribute)]
                    break
        if not sup:
            raise AnalysisError('MatrixGrader.check_response: no (direct or delegated) super().check_response call')
        inside = all(tr in lib.enclosing_trys(c) for c in sup)
        r.check(inside, 'MatrixGrader.check_response: guarded evaluation', 'the parent check_response runs inside the try',
                'the parent check_response is called outside the try: shape errors bypass the mismatch policy', lib.loc(fi, sup[0]))
        SHAPE = 'mitxgraders.helpers.calc.exceptions.MathArrayShapeError'
        ITE = 'mitxgraders.exceptions.InputTypeError'
        MAE = 'mitxgraders.helpers.calc.exceptions.MathArrayError'
        ASE = 'mitxgraders.helpers.calc.exceptions.ArgumentShapeError'
        for q in (SHAPE, ITE, MAE, ASE):
            idx.cls(q)
        handlers = []
        for h in tr.handlers:
            if h.type is None:
                classes = ['BaseException']
            else:
                classes = resolve_classes(idx, fi.module, h.type)
            handlers.append((h, classes, nf.decision_paths(h.body)))
        # un-inlined helpers that the handlers do not call cannot change what a handler does with a caught error
        left = list(getattr(idx, 'unreviewed', None) or [])
        called = {nf.callee_name(c) for h_ in tr.handlers for st in h_.body for c in ast.walk(st) if isinstance(c, ast.Call)}
        handler_marker = ''
        if left and not any(q.rsplit('.', 1)[-1] in called for q in left):
            handler_marker = ' [the handlers call none of %s]' % ', '.join(left)
        ALL = ['suppress_matrix_messages', 'shape_errors', 'answer_shape_mismatch.is_raised']
        text = {'zero-silent': 'graded wrong without a message', 'raise': 'the error is raised to the student',
                'zero-message': 'graded wrong with the error text as message', 'fall': 'the handler falls through (no result)',
                'ret-other': 'a result that is not a zero result is returned', 'zero-othermsg': 'graded wrong with another message'}
        table = [(SHAPE, 'shape_errors', 'shape errors of the evaluation (MathArrayShapeError)'),
                 (ITE, 'answer_shape_mismatch.is_raised', 'answer shape mismatch (InputTypeError)'),
                 (MAE, None, 'other array errors (MathArrayError)'), (ASE, None, 'function argument shape errors (ArgumentShapeError)')]
        for cls, switch, what in table:
            mro = exc_mro(idx, cls)
            # Python's dispatch: the first clause one of whose classes is in the MRO of the raised class
            hit = None
            for h, classes, paths in handlers:
                if any(c in mro or c.split('.')[-1] in mro for c in classes):
                    hit = (h, classes, paths)
                    break
            for s_ in (True, False):
                for pol in ((True, False) if switch else (None,)):
                    setting = 'suppress_matrix_messages=%s%s' % (s_, ', %s=%s' % (switch, pol) if switch else '')
                    construct = 'MatrixGrader.check_response: %s [%s]%s' % (what, setting, handler_marker)
                    want = 'zero-silent' if s_ else ('raise' if (pol or switch is None) else 'zero-message')
                    others = [k for k in ALL[1:] if k != switch]
                    verdict = None
                    combos = [()]
                    for _ in others:
                        combos = [c + (v,) for c in combos for v in (True, False)]
                    for vals_o in combos:
                        env = {'suppress_matrix_messages': s_}
                        if switch:
                            env[switch] = pol
                        env.update(dict(zip(others, vals_o)))
                        extra = ' (with %s)' % ', '.join('%s=%s' % kv for kv in zip(others, vals_o)) if others else ''
                        if hit is None:
                            got, where, via = 'raise', lib.loc(fi, tr), 'no except clause catches it, so it propagates'
                        else:
                            h, classes, paths = hit
                            info = {'err': h.name, 'idx': idx, 'module': fi.module, 'mro': mro}
                            taken = []
                            unknown = False
                            for p in paths:
                                vals = [eval_guard(g, env, info) for g in p.guards]
                                if any(v is False for v in vals):
                                    continue
                                if any(v is None for v in vals):
                                    unknown = True
                                    break
                                taken.append(p)
                            if unknown or len(taken) != 1:
                                # a table of (classes, lambda, lambda) rows read by next(): run the handler in the interpreter
                                got2 = interpret_handler(idx, fi, h, cls, mro, env)
                                if got2 is None:
                                    verdict = ('und', lib.loc(fi, h))
                                    break
                                got, where = got2, lib.loc(fi, h)
                                via = 'handled by `except %s` (body interpreted)' % (short(h.type) if h.type is not None else '')
                                if got != want:
                                    verdict = ('bad', got, where, extra, via)
                                    break
                                verdict = verdict or ('ok', where)
                                continue
                            got = leaf_kind(taken[0].leaf, h.name, idx, fi)
                            if got == 'unknown':
                                verdict = ('und', lib.loc(fi, taken[0].leaf.stmt or h))
                                break
                            where = lib.loc(fi, taken[0].leaf.stmt or h)
                            via = 'handled by `except %s`' % short(h.type) if h.type is not None else 'handled by the bare except'
                        if got != want:
                            verdict = ('bad', got, where, extra, via)
                            break
                        verdict = verdict or ('ok', where)
                    if verdict[0] == 'und':
                        r.undecided(construct, 'the handler\'s guards are not a function of the policy switches and the error class', verdict[1])
                    elif verdict[0] == 'ok':
                        r.ok(construct, text[want], verdict[1])
                    else:
                        _, got, where, extra, via = verdict
                        r.violation(construct, 'a %s raised while grading, with %s%s, is %s: expected "%s" but %s'
                                    % (cls.split('.')[-1], setting, extra, via, text[want], text.get(got, got)), where,
                                    expected=text[want], found=text.get(got, got))


def d3_shape_validation(ctx, idx):
    r = ctx.rule('D3.SHAPECHECK', 'validate_student_input_shape raises InputTypeError iff the shapes differ; comparers hand it (student, shape)', floor=5)
    with r:
        fi = idx.func(MGQ + '.validate_student_input_shape')
        SI, ES = fi.params[0], fi.params[1]
        paths = ret_paths(fi)
        n_ret = n_raise = 0
        local = None
        compared_expr = None
        for p in paths:
            where = lib.loc(fi, p.leaf.stmt) if p.leaf.stmt is not None else fi.loc
            eq = ne = None
            for g in p.guards:
                b = nf.match('_A == _B', g)
                if b is not None and (is_name(b['_A'], ES) or is_name(b['_B'], ES)):
                    eq = b
                b = nf.match('_A != _B', g)
                if b is not None and (is_name(b['_A'], ES) or is_name(b['_B'], ES)):
                    ne = b
            if eq is None and ne is None:
                r.undecided('validate_student_input_shape', 'a path does not test the expected shape', where)
                continue
            b = eq or ne
            other = b['_B'] if is_name(b['_A'], ES) else b['_A']
            if isinstance(other, ast.Name):
                local = other.id
            else:
                compared_expr = other
            if eq is not None:
                n_ret += 1
                if p.leaf.kind != 'ret':
                    r.violation('validate_student_input_shape: equal shapes', 'a submission of the expected shape %s' %
                                ('raises %s' % nf.exc_class_name(p.leaf.expr) if p.leaf.kind == 'raise' else 'falls through'), where,
                                expected='return True')
            else:
                n_raise += 1
                if p.leaf.kind != 'raise':
                    r.violation('validate_student_input_shape: different shapes', 'a submission of another shape is accepted (the function '
                                '%s): it is compared instead of being reported as a shape mismatch' %
                                ('returns `%s`' % short(p.leaf.expr) if p.leaf.kind == 'ret' else 'falls through'), where,
                                expected='raise InputTypeError')
                elif nf.exc_class_name(p.leaf.expr) != 'InputTypeError':
                    r.violation('validate_student_input_shape: different shapes', 'a shape mismatch raises %s instead of InputTypeError: the '
                                'answer_shape_mismatch policy of MatrixGrader does not apply to it' % nf.exc_class_name(p.leaf.expr), where,
                                expected='InputTypeError', found=nf.exc_class_name(p.leaf.expr))
        if n_ret and n_raise and not any(o.status == 'violation' for o in r.obligations):
            r.ok('validate_student_input_shape: equal shapes', 'returns', fi.loc)
            r.ok('validate_student_input_shape: different shapes', '%d raising path(s), all InputTypeError' % n_raise, fi.loc)
        elif not (n_ret and n_raise) and not r.obligations:
            raise AnalysisError('validate_student_input_shape: shape test not found')
        # the shape compared is the submission's
        def shape_values(e, owner, subject, depth=0):
            """The expressions a shape value can take: locals and helper calls (all their returns) are looked through."""
            if depth > 3:
                return None
            if isinstance(e, ast.Name):
                vals = lib.assigned_value(owner.node, e.id)
                if not vals:
                    return None
                out = []
                for v in vals:
                    sub = shape_values(v, owner, subject, depth + 1)
                    if sub is None:
                        return None
                    out += sub
                return out
            if isinstance(e, ast.Call) and isinstance(e.func, (ast.Attribute, ast.Name)) and nf.callee_name(e) not in ('tuple',):
                callee = resolve_function(idx, owner, e.func)
                if callee is None or not callee.module.name.startswith('mitxgraders'):
                    return None
                env = bind_call(callee, e)
                if env is None:
                    return None
                out = []
                for ret in lib.returns_of(callee.node):
                    if ret.value is None:
                        return None
                    sub = shape_values(nf.subst(ret.value, env), callee, subject, depth + 1)
                    if sub is None:
                        return None
                    out += sub
                return out or None
            return [e]
        src = ast.Name(id=local, ctx=ast.Load()) if local is not None else compared_expr
        if src is None:
            raise AnalysisError('validate_student_input_shape: compared shape not found')
        vals = shape_values(src, fi, SI)
        if vals is None:
            r.undecided('validate_student_input_shape: input shape', 'the compared shape `%s` cannot be traced to its source' % short(src), fi.loc)
        else:
            ok = bool(vals) and all((nf.match('_S.shape', v) is not None and is_name(nf.match('_S.shape', v)['_S'], SI))
                                    or nf.match('tuple()', v) is not None or (isinstance(v, ast.Tuple) and not v.elts) for v in vals)
            r.check(ok, 'validate_student_input_shape: input shape', '%s.shape (or () for numbers)' % SI,
                    'the shape compared with the expected one is `%s`, not the submission\'s' % ', '.join(short(v) for v in vals), fi.loc)
        # EqualityComparer.validate: on every path where utils offers validate_shape, the student is validated against the
        # shape of the expected value (() for numbers)
        ev = idx.func(C + 'EqualityComparer.validate')
        E, S, U = ev.params[0], ev.params[1], ev.params[2]
        construct = 'EqualityComparer.validate'
        any_call = [c for c in walk_all(ev.node) if isinstance(c, ast.Call) and nf.callee_name(c) == 'validate_shape']
        if not any_call:
            if getattr(idx, 'unreviewed', None):
                r.undecided(construct, 'no validate_shape call here and unreviewed helpers exist: %s' % list(idx.unreviewed), ev.loc)
            else:
                r.violation(construct, 'utils.validate_shape is never called: MatrixGrader answers are compared without a shape check', ev.loc)
        else:
            verdict = None      # ('ok',) | ('bad', text, node) | ('und', text)
            HAS = "hasattr(_U, 'validate_shape')"
            n_checked = 0
            for p in nf.decision_paths(ev.node.body):
                has = None
                isnum = None
                for g in p.guards:
                    neg = isinstance(g, ast.UnaryOp) and isinstance(g.op, ast.Not)
                    core = g.operand if neg else g
                    b_ = nf.match(HAS, core)
                    if b_ is not None and is_name(b_['_U'], U):
                        has = not neg
                    b_ = nf.match('isinstance(_E, Number)', core)
                    if b_ is not None and is_name(b_['_E'], E):
                        isnum = not neg
                calls = [c for e in p.effects for c in ast.walk(e) if isinstance(c, ast.Call) and nf.callee_name(c) == 'validate_shape'
                         and isinstance(c.func, ast.Attribute) and is_name(c.func.value, U)]
                if p.leaf.kind == 'raise':
                    continue
                if has is None:
                    if calls:
                        has = True      # unconditional call: fine for MatrixGrader, raises AttributeError for FormulaGrader utils
                        verdict = verdict or ('und', 'validate_shape is called without testing that utils offers it')
                        continue
                    verdict = ('und', 'a path does not test hasattr(utils, \'validate_shape\')')
                    continue
                if has is False:
                    if calls:
                        verdict = ('bad', 'the validation runs only when utils does NOT offer validate_shape', calls[0])
                    continue
                if not calls:
                    verdict = ('bad', 'on a path where utils offers validate_shape the submission is not validated (guards: %s)'
                               % ' and '.join(unparse(g) for g in p.guards), None)
                    continue
                c = calls[0]
                n_checked += 1
                if len(c.args) != 2:
                    verdict = ('und', 'call `%s` not recognised' % short(c))
                    continue
                if is_name(c.args[0], E) and not is_name(c.args[0], S):
                    verdict = ('bad', 'the expected value is validated against its own shape (`%s`): the submission\'s shape is never '
                               'checked' % short(c), c)
                    continue
                if not is_name(c.args[0], S):
                    verdict = verdict or ('und', 'first argument of `%s` is not the submission' % short(c))
                    continue
                shp = c.args[1]
                empty = nf.match('tuple()', shp) is not None or (isinstance(shp, ast.Tuple) and not shp.elts)
                eshape = nf.match('_E.shape', shp)
                eshape = eshape is not None and is_name(eshape['_E'], E)
                cond = nf.match('tuple() if isinstance(_E, Number) else _E.shape', shp) or nf.match('() if isinstance(_E, Number) else _E.shape', shp) \
                    or nf.match('_E.shape if not isinstance(_E, Number) else tuple()', shp)
                if isnum is None and cond is not None and is_name(cond['_E'], E):
                    pass
                elif isnum is True and empty:
                    pass
                elif isnum is False and eshape:
                    pass
                elif (isnum is True and eshape) or (isnum is False and empty):
                    verdict = ('bad', 'the shape passed for a %s expected value is `%s`' % ('numeric' if isnum else 'array', short(shp)), c)
                else:
                    verdict = verdict or ('und', 'shape argument `%s` not recognised' % short(shp))
            if verdict is None and n_checked:
                r.ok(construct, 'validate_shape(student, shape of expected) whenever utils offers it', lib.loc(ev, any_call[0]))
            elif verdict is None:
                r.undecided(construct, 'no path validates the submission', ev.loc)
            elif verdict[0] == 'bad':
                r.violation(construct, verdict[1], lib.loc(ev, any_call[0]), expected='utils.validate_shape(%s, shape of %s)' % (S, E))
            else:
                r.undecided(construct, verdict[1], lib.loc(ev, any_call[0]))
        # wiring of Utils.validate_shape: wherever MatrixGrader (or a hook it overrides) builds its utils, the field named
        # validate_shape is a function forwarding (student, shape) to validate_student_input_shape
        mg = idx.cls(MGQ)
        vsites = []
        for f in idx.package_funcs():
            if f.qualname == MGQ + '.validate_student_input_shape':
                continue
            for c in lib.calls_named(f.node, 'validate_student_input_shape'):
                vsites.append((f, c))
        construct = 'MatrixGrader utils: validate_shape'
        if not vsites:
            absent(r, idx, construct, 'nothing calls validate_student_input_shape any more: utils.validate_shape cannot report shape '
                   'mismatches', mg.loc)
        for inner, vcall in vsites:
            a = vcall.args
            ip = inner.params
            if inner.cls is not None and not inner.is_static:
                ip = ip[1:]
            if len(a) < 2 or len(ip) < 2:
                r.undecided(construct, 'call `%s` in %s not recognised' % (short(vcall), inner.qualname), lib.loc(inner, vcall))
                continue
            returned = any(x.value is vcall for x in lib.returns_of(inner.node))
            if is_name(a[0], ip[1]) and is_name(a[1], ip[0]):
                r.violation(construct, 'student input and expected shape are exchanged in the call `%s`' % short(vcall), lib.loc(inner, vcall))
                continue
            if not (is_name(a[0], ip[0]) and is_name(a[1], ip[1])):
                r.undecided(construct, 'arguments of `%s` are not the helper\'s (student, shape) parameters' % short(vcall), lib.loc(inner, vcall))
                continue
            # where is this helper bound to the name validate_shape?
            outer = inner.outer
            bound = None
            if outer is not None:
                for n in walk_own(outer.node):
                    if isinstance(n, ast.Call):
                        for k in n.keywords:
                            if k.arg == 'validate_shape':
                                bound = (k.value, n)
                        if n.args and nf.callee_name(n) == 'Utils':
                            # positional construction of the namedtuple: the position of the field decides
                            k_, tdef = idx.lookup_attr(mg, 'Utils')
                            fields = None
                            if isinstance(tdef, ast.Call) and nf.callee_name(tdef) == 'namedtuple' and len(tdef.args) >= 2:
                                fv = nf.const_value(tdef.args[1])
                                fields = fv.replace(',', ' ').split() if isinstance(fv, str) else list(fv) if isinstance(fv, (list, tuple)) else None
                            if fields and 'validate_shape' in fields and fields.index('validate_shape') < len(n.args):
                                bound = (n.args[fields.index('validate_shape')], n)
                    elif isinstance(n, ast.Assign) and len(n.targets) == 1 and isinstance(n.targets[0], ast.Subscript) \
                            and nf.const_value(n.targets[0].slice) == 'validate_shape':
                        bound = (n.value, n)
                    elif isinstance(n, ast.Dict):
                        for k, v in zip(n.keys, n.values):
                            if isinstance(k, ast.Constant) and k.value == 'validate_shape':
                                bound = (v, n)
            if bound is None:
                r.undecided(construct, 'helper %s forwards to validate_student_input_shape, but where it becomes utils.validate_shape was '
                            'not found' % inner.qualname, lib.loc(inner, vcall))
            elif is_name(bound[0], inner.name) and returned:
                r.ok(construct, '%s forwards (student, shape) to validate_student_input_shape and is bound to validate_shape in %s'
                     % (inner.name, outer.qualname.split('.')[-1]), lib.loc(inner, vcall))
            elif not is_name(bound[0], inner.name):
                r.violation(construct, 'the validate_shape field is bound to `%s` instead of the validating helper %s'
                            % (short(bound[0]), inner.name), lib.loc(outer, bound[1]))
            else:
                r.violation(construct, 'the helper does not return validate_student_input_shape(student, shape, detail)', lib.loc(inner, vcall))


# ----------------------------------------------------------------------------- D4 numeric type-state
NARROWING = {'real', 'imag', 'abs', 'absolute', 'norm', 'len', 'angle', 'isreal', 'iscomplex', 'isnan', 'isinf', 'isfinite',
             'within_tolerance', 'is_nearly_zero', 'isinstance', 'hasattr', 'all', 'any', 'allclose', 'isclose', 'array_equal',
             'matrix_rank', 'count_nonzero', 'bool', 'is_vector', 'are_same_length_vectors', 'is_square'}
PRESERVING = {'sqrt', 'sum', 'mean', 'array', 'asarray', 'flatten', 'transpose', 'item', 'square', 'conj', 'conjugate', 'dot',
              'vstack', 'hstack', 'copy', 'ravel', 'reshape', 'ones', 'list', 'tuple', 'zip', 'enumerate', 'sorted', 'reversed', 'max', 'min'}
REAL_ATTRS = {'real', 'imag', 'size', 'shape', 'ndim', 'dtype'}
ORDER = {'NA': 0, 'REAL': 1, 'UNK': 2, 'T': 3}

# positions of the parameters that carry the *student's* evaluation (self excluded for methods is handled by name lookup)
D4_SOURCES = {
    C + 'between_comparer': [1], C + 'congruence_comparer': [1], C + 'eigenvector_comparer': [1], C + 'vector_span_comparer': [1],
    C + 'vector_phase_comparer': [1], C + 'EqualityComparer.__call__': [2], C + 'EqualityComparer.validate': [1],
    C + 'MatrixEntryComparer.__call__': [2], C + 'MatrixEntryComparer.validate': [1],
    LC + '.__call__': [2], LC + '.check_comparing_zero': [1],
    LMOD + '.get_linear_fit_error': [0, 1], LMOD + '.get_proportional_fit_error': [0, 1], LMOD + '.get_offset_fit_error': [0, 1],
    LMOD + '.get_equals_fit_error': [0, 1],
    NZ: [0, 2], 'mitxgraders.helpers.calc.mathfuncs.within_tolerance': [0, 1],
    MGQ + '.validate_student_input_shape': [0],
}


class TypeState(object):
    def __init__(self, fi, sources):
        self.fi = fi
        self.sources = set(sources)
        self.assign = {}
        for n in walk_all(fi.node):
            if isinstance(n, ast.Assign):
                for t in n.targets:
                    self._bind(t, n.value, False)
            elif isinstance(n, ast.AugAssign) and isinstance(n.target, ast.Name):
                self.assign.setdefault(n.target.id, []).append(('val', n.value))
            elif isinstance(n, (ast.For, ast.comprehension)):
                self._bind(n.target, n.iter, True)
        self._busy = set()

    def _bind(self, target, value, elem):
        for x in ast.walk(target):
            if isinstance(x, ast.Name):
                self.assign.setdefault(x.id, []).append(('val', value))

    @staticmethod
    def join(*xs):
        return max(xs, key=lambda s: ORDER[s]) if xs else 'NA'

    def ts(self, e):
        if e is None or isinstance(e, ast.Constant):
            return 'NA'
        if isinstance(e, ast.Name):
            if e.id in self.sources:
                return 'T'
            if e.id in self._busy:
                return 'NA'
            vals = self.assign.get(e.id)
            if not vals:
                return 'NA'
            self._busy.add(e.id)
            try:
                return self.join(*[self.ts(v) for _, v in vals])
            finally:
                self._busy.discard(e.id)
        if isinstance(e, (ast.Compare, ast.BoolOp)) or (isinstance(e, ast.UnaryOp) and isinstance(e.op, ast.Not)):
            return 'REAL' if self._student(e) else 'NA'
        if isinstance(e, ast.UnaryOp):
            return self.ts(e.operand)
        if isinstance(e, ast.BinOp):
            return self.join(self.ts(e.left), self.ts(e.right))
        if isinstance(e, ast.IfExp):
            return self.join(self.ts(e.body), self.ts(e.orelse))
        if isinstance(e, ast.Attribute):
            base = self.ts(e.value)
            if base == 'NA':
                return 'NA'
            if e.attr in REAL_ATTRS:
                return 'REAL'
            if e.attr == 'T':
                return base
            return 'UNK'
        if isinstance(e, ast.Subscript):
            if isinstance(e.value, ast.Call) and nf.callee_name(e.value) == 'lstsq':
                k = nf.const_value(e.slice)
                inner = self.join(*[self.ts(a) for a in e.value.args])
                if inner == 'NA':
                    return 'NA'
                return inner if k == 0 else 'REAL'
            return self.ts(e.value)
        if isinstance(e, (ast.Tuple, ast.List, ast.Set)):
            return self.join(*[self.ts(x) for x in e.elts])
        if isinstance(e, (ast.ListComp, ast.GeneratorExp, ast.SetComp)):
            return self.ts(e.elt)
        if isinstance(e, ast.Starred):
            return self.ts(e.value)
        if isinstance(e, ast.Call):
            args = list(e.args) + [k.value for k in e.keywords]
            recv = e.func.value if isinstance(e.func, ast.Attribute) else None
            inner = self.join(*([self.ts(a) for a in args] + ([self.ts(recv)] if recv is not None else [])))
            if inner == 'NA':
                return 'NA'
            name = nf.callee_name(e)
            if name in NARROWING:
                return 'REAL'
            if name in PRESERVING:
                return inner
            return 'UNK' if inner != 'REAL' else 'REAL'
        if isinstance(e, (ast.Dict, ast.Lambda, ast.JoinedStr)):
            return 'NA'
        return 'UNK' if self._student(e) else 'NA'

    def _student(self, e):
        return any(isinstance(x, ast.Name) and self.ts(x) != 'NA' for x in ast.walk(e))


def complex_refused_before(fi, name, cmp_node):
    """A dominating `if isinstance(name, complex) [or ...]: raise` narrows the type of `name`."""
    cfg = cfg_of(fi.node)
    try:
        targets = lib.cfg_nodes_for(cfg, cmp_node)
    except AnalysisError:
        return False
    for n in cfg.nodes:
        if n.kind == 'test' and isinstance(n.ast, ast.If):
            t = nf.canon(n.ast.test)
            for d in nf.disjuncts(t):
                b = nf.match('isinstance(_V, complex)', d)
                if b is not None and is_name(b['_V'], name):
                    branch = [x for x, lab in n.succs if lab == 'true']
                    if branch and cfg.always_raises_from(branch) and cfg.dominates([n], targets):
                        return True
    return False


def d4_typestate(ctx, idx):
    r = ctx.rule('D4.KIND', 'no ordering comparison on a student-derived value that may still be complex-typed', floor=4)
    with r:
        scope = []
        for mname in ('mitxgraders.comparers.comparers', 'mitxgraders.comparers.linear_comparer', 'mitxgraders.comparers.baseclasses',
                      'mitxgraders.formulagrader.matrixgrader'):
            m = idx.module(mname)
            for f in m.all_funcs:
                if f.outer is None:
                    scope.append(f)
        for q in (NZ, 'mitxgraders.helpers.calc.mathfuncs.within_tolerance'):
            scope.append(idx.func(q))
        for q in D4_SOURCES:
            idx.func(q)     # anchors must exist
        n_cmp = 0
        for fi in scope:
            cmps = [n for n in walk_all(fi.node) if isinstance(n, ast.Compare)
                    and any(isinstance(o, (ast.Lt, ast.LtE, ast.Gt, ast.GtE)) for o in n.ops)]
            if not cmps:
                continue
            pos = D4_SOURCES.get(fi.qualname)
            if pos is None:
                # a function of the comparer modules we have no source table for: only parameters named like the student's value
                srcs = [p for p in fi.all_params if p.startswith('student')]
                if fi.qualname.startswith('mitxgraders.comparers.') and len(fi.params) >= 3 and not srcs:
                    r.undecided('%s: ordering comparison' % fi.qualname, 'new function with an ordering comparison and no reviewed source table',
                                fi.loc)
                    continue
            else:
                srcs = [fi.params[i] for i in pos if i < len(fi.params)]
                if len(srcs) != len(pos):
                    raise AnalysisError('%s: signature changed' % fi.qualname)
            tsa = TypeState(fi, srcs)
            for c in cmps:
                n_cmp += 1
                operands = [c.left] + list(c.comparators)
                ordered = set()
                for i, o in enumerate(c.ops):
                    if isinstance(o, (ast.Lt, ast.LtE, ast.Gt, ast.GtE)):
                        ordered |= {i, i + 1}
                states = []
                for i in sorted(ordered):
                    st = tsa.ts(operands[i])
                    if st == 'T' and isinstance(operands[i], ast.Name) and complex_refused_before(fi, operands[i].id, c):
                        st = 'REAL'
                    states.append((operands[i], st))
                construct = '%s: `%s`' % (fi.qualname.replace('mitxgraders.', ''), short(nf.canon(c), 70))
                where = lib.loc(fi, c)
                bad = [o for o, st in states if st == 'T']
                unk = [o for o, st in states if st == 'UNK']
                if bad:
                    r.violation(construct, 'the operand `%s` of an ordering comparison is the student\'s evaluation (through type-preserving '
                                'steps only) and may be complex-typed: the evaluator yields e.g. 5+0j for `5*i/i`, np.isreal tests the value '
                                'and not the type, and ordering a complex raises TypeError, which the student sees as "Could not check input" '
                                'instead of a verdict' % short(bad[0]), where, expected='np.real(...) / abs / a norm / isinstance(x, complex) => raise first',
                                found=short(c))
                elif unk:
                    r.undecided(construct, 'operand `%s` derives from the student\'s evaluation through a call the type-state table does not know'
                                % short(unk[0]), where)
                elif any(st == 'REAL' for _, st in states):
                    r.ok(construct, 'student-derived operand narrowed to a real type', where)
                else:
                    r.ok(construct, 'no student-derived operand', where, nontrivial=False)
        if n_cmp == 0:
            raise AnalysisError('no ordering comparison found in the comparer modules')


# ------------------------------------------------------------------------ self-test
_EIG_ZERO = ("    if utils.within_tolerance(0, np.linalg.norm(student_eval)):\n        return {\n            'ok': False,\n"
             "            'grade_decimal': 0,\n            'msg': 'Eigenvectors must be nonzero.'\n        }\n")
_SPAN_ZERO = ("    if utils.within_tolerance(0, np.linalg.norm(student_eval)):\n        return {\n            'ok': False,\n"
              "            'grade_decimal': 0,\n            'msg': 'Input should be a nonzero vector.'\n        }\n")
_BETWEEN = "    return start <= np.real(student_eval) <= stop"

_HANDLERS_OLD = (
    "                result = super(MatrixGrader, self).check_response(answer, student_input, **kwargs)\n"
    "        except ShapeError as err:\n            if self.config['suppress_matrix_messages']:\n"
    "                return {'ok': False, 'msg': '', 'grade_decimal': 0}\n            elif self.config['shape_errors']:\n"
    "                raise\n            else:\n                return {'ok': False, 'msg': str(err), 'grade_decimal': 0}\n"
    "        except InputTypeError as err:\n            if self.config['suppress_matrix_messages']:\n"
    "                return {'ok': False, 'msg': '', 'grade_decimal': 0}\n            elif self.config['answer_shape_mismatch']['is_raised']:\n"
    "                raise\n            else:\n                return {'ok': False, 'grade_decimal': 0, 'msg': str(err)}\n"
    "        except (ArgumentShapeError, MathArrayError) as err:\n"
    "            # If we're using matrix quantities for noncommutative scalars, we\n"
    "            # might get an ArgumentShapeError from using functions of matrices,\n"
    "            # or a MathArrayError from taking a funny power of a matrix.\n            # Suppress these too.\n"
    "            if self.config['suppress_matrix_messages']:\n                return {'ok': False, 'msg': '', 'grade_decimal': 0}\n"
    "            raise\n        return result\n")

MUTANTS = [
    # ---- D1 / D4: between
    Mutant('between-lower-strict', CMP, _BETWEEN, "    return start < np.real(student_eval) <= stop", 'D1'),
    Mutant('between-upper-strict', CMP, _BETWEEN, "    return start <= np.real(student_eval) < stop", 'D1'),
    Mutant('between-orders-complex-typed-value', CMP, _BETWEEN, "    return start <= student_eval <= stop", 'D4'),
    Mutant('between-real-refusal-removed', CMP, "    if not np.isreal(student_eval):\n        raise InputTypeError(\"Input must be real.\")\n", "", 'D1'),
    Mutant('between-real-refusal-inverted', CMP, "    if not np.isreal(student_eval):", "    if np.isreal(student_eval):", 'D1'),
    Mutant('between-bounds-exchanged', CMP, "    start, stop = comparer_params_eval", "    stop, start = comparer_params_eval", 'D1'),
    # ---- D1: congruence
    Mutant('congruence-student-not-reduced', CMP, "    input_reduced = student_eval % modulus", "    input_reduced = student_eval", 'D1'),
    Mutant('congruence-expected-not-reduced', CMP, "    expected_reduced = expected % modulus", "    expected_reduced = expected", 'D1'),
    Mutant('congruence-reference-is-student', CMP, "    return utils.within_tolerance(expected_reduced, input_reduced)",
           "    return utils.within_tolerance(input_reduced, expected_reduced)", 'D1'),
    # ---- D1: eigenvector / span / phase
    Mutant('eigen-zero-test-dropped', CMP, _EIG_ZERO, "", 'D1'),
    Mutant('span-zero-test-dropped', CMP, _SPAN_ZERO, "", 'D1'),
    Mutant('eigen-left-eigenvector', CMP, "    actual = matrix * student_eval", "    actual = student_eval * matrix", 'D1'),
    Mutant('eigen-validation-after-products', CMP, "    utils.validate_shape(student_eval, expected_input_shape)\n\n    expected = eigenvalue * student_eval\n    actual = matrix * student_eval\n",
           "    expected = eigenvalue * student_eval\n    actual = matrix * student_eval\n    utils.validate_shape(student_eval, expected_input_shape)\n", 'D2'),
    Mutant('span-reference-is-target', CMP, "    return is_nearly_zero(error, utils.tolerance, reference=student_eval)",
           "    return is_nearly_zero(error, utils.tolerance, reference=comparer_params_eval[0])", 'D1'),
    Mutant('span-validation-removed', CMP, "    utils.validate_shape(student_eval, comparer_params_eval[0].shape)\n", "", 'D2'),
    Mutant('span-residual-index', CMP, "    error = np.sqrt(ols[1])", "    error = np.sqrt(ols[0])", 'D1'),
    Mutant('seeded-C16c-unconjugated-residual-size', CMP, "    ols = np.linalg.lstsq(column_vectors, student_eval, rcond=-1)\n    error = np.sqrt(ols[1])\n",
           "    coeffs = np.linalg.lstsq(column_vectors, student_eval, rcond=-1)[0]\n    residual = np.array(student_eval) - np.dot(column_vectors, coeffs)\n    error = np.sqrt(np.dot(residual, residual))\n", 'D1'),
    Mutant('span-residual-plain-square-sum', CMP, "    ols = np.linalg.lstsq(column_vectors, student_eval, rcond=-1)\n    error = np.sqrt(ols[1])\n",
           "    coeffs = np.linalg.lstsq(column_vectors, student_eval, rcond=-1)[0]\n    residual = student_eval - column_vectors.dot(coeffs)\n    error = np.sqrt(np.sum(residual**2))\n", 'D1'),
    Mutant('seeded-C16d-congruence-fmod', CMP, "    expected_reduced = expected % modulus\n    input_reduced = student_eval % modulus\n",
           "    expected_reduced = np.fmod(expected, modulus)\n    input_reduced = np.fmod(student_eval, modulus)\n", 'D1'),
    Mutant('congruence-fmod-one-side', CMP, "    input_reduced = student_eval % modulus\n", "    input_reduced = np.fmod(student_eval, modulus)\n", 'D1'),
    Mutant('phase-guard-clause-inverted', CMP, "    return in_span and same_magnitude", "    if in_span:\n        return in_span\n    return same_magnitude", 'D1'),
    Mutant('phase-and-to-or', CMP, "    return in_span and same_magnitude", "    return in_span or same_magnitude", 'D1'),
    Mutant('phase-magnitude-dropped', CMP, "    return in_span and same_magnitude", "    return in_span", 'D1'),
    # ---- D1: MatrixEntryComparer
    Mutant('entry-any-for-all', CMP, "np.all(comparisons_by_eval, axis=0)", "np.any(comparisons_by_eval, axis=0)", 'D1'),
    Mutant('entry-one-minus-fraction', CMP, "        percent_correct = np.sum(comparisons_summary).item()/num_entries",
           "        percent_correct = 1 - np.sum(comparisons_summary).item()/num_entries", 'D1'),
    Mutant('entry-proportional-returns-option', CMP, "            return {'ok': 'partial', 'grade_decimal': percent_correct, 'msg': msg}",
           "            return {'ok': 'partial', 'grade_decimal': partial_credit, 'msg': msg}", 'D1'),
    Mutant('entry-full-credit-when-none-match', CMP, "        if percent_correct == 1:\n            return True", "        if percent_correct == 0:\n            return True", 'D1'),
    Mutant('entry-axis', CMP, "np.all(comparisons_by_eval, axis=0)", "np.all(comparisons_by_eval, axis=1)", 'D1'),
    Mutant('entry-validation-after-comparison', CMP, "        self.validate(expected_evals, student_evals, utils)\n\n        transform = self.config['transform']\n        expected_evals = [transform(x) for x in expected_evals]",
           "        transform = self.config['transform']\n        raw_expected = expected_evals\n        expected_evals = [transform(x) for x in expected_evals]", 'D2'),
    # ---- D1: LinearComparer / is_nearly_zero
    Mutant('linear-sample-floor-two', LIN, "        if len(student_evals) < 3:", "        if len(student_evals) < 2:", 'D1'),
    Mutant('linear-zero-modes-edited', LIN, "    zero_compatible_modes = ('equals', 'offset')", "    zero_compatible_modes = ('equals', 'offset', 'proportional')", 'D1'),
    Mutant('linear-estimators-swapped', LIN, "        'proportional': get_proportional_fit_error,\n        'offset': get_offset_fit_error,",
           "        'proportional': get_offset_fit_error,\n        'offset': get_proportional_fit_error,", 'D1'),
    Mutant('linear-zero-needs-both-sides', LIN, "        return student_zero or expected_zero", "        return student_zero and expected_zero", 'D1'),
    Mutant('linear-zero-any-sample', LIN, "        student_zero = all([", "        student_zero = any([", 'D1'),
    Mutant('linear-zero-filter-inverted', LIN, "                         if mode in self.zero_compatible_modes)", "                         if mode not in self.zero_compatible_modes)", 'D1'),
    Mutant('linear-min-for-max', LIN, "        return max(results, key=key)", "        return min(results, key=key)", 'D1'),
    Mutant('linear-credit-rule-inverted', LIN, "            if is_nearly_zero(error, utils.tolerance, reference=student_evals_norm)",
           "            if not is_nearly_zero(error, utils.tolerance, reference=student_evals_norm)", 'D1'),
    Mutant('seeded-C16b-estimator-arguments-exchanged', LIN, "        errors = [self.error_calculators[mode](student, expected) for mode in filtered_modes]",
           "        errors = [self.error_calculators[mode](expected, student) for mode in filtered_modes]", 'D1'),
    Mutant('linear-samples-exchanged-at-source', LIN, "        student = np.array(student_evals).flatten()\n        expected = np.array(comparer_params_evals).flatten()",
           "        student = np.array(comparer_params_evals).flatten()\n        expected = np.array(student_evals).flatten()", 'D1'),
    Mutant('linear-fit-regresses-x-on-y', LIN, "    A = np.vstack([x, np.ones(len(x))]).T\n    coeffs, residuals, rank, singular_vals = np.linalg.lstsq(A, y, rcond=-1)",
           "    A = np.vstack([y, np.ones(len(y))]).T\n    coeffs, residuals, rank, singular_vals = np.linalg.lstsq(A, x, rcond=-1)", 'D1'),
    Mutant('proportional-fit-regresses-x-on-y', LIN, "    A = np.vstack(x)\n    coeffs, residuals, rank, singular_vals = np.linalg.lstsq(A, y, rcond=-1)",
           "    A = np.vstack(y)\n    coeffs, residuals, rank, singular_vals = np.linalg.lstsq(A, x, rcond=-1)", 'D1'),
    Mutant('seeded-C16f-entry-validation-after-transform', CMP, "        expected_evals = [params[0] for params in comparer_params_evals]\n        self.validate(expected_evals, student_evals, utils)\n\n        transform = self.config['transform']\n        expected_evals = [transform(x) for x in expected_evals]\n        student_evals = [transform(x) for x in student_evals]\n",
           "        transform = self.config['transform']\n        expected_evals = [transform(params[0]) for params in comparer_params_evals]\n        student_evals = [transform(x) for x in student_evals]\n        self.validate(expected_evals, student_evals, utils)\n\n", 'D2'),
    Mutant('equality-validation-of-transformed-values', CMP, "        self.validate(expected_eval, student_eval, utils)\n\n        transform = self.config['transform']\n        expected_eval = transform(expected_eval)\n        student_eval = transform(student_eval)\n",
           "        transform = self.config['transform']\n        expected_eval = transform(expected_eval)\n        student_eval = transform(student_eval)\n        self.validate(expected_eval, student_eval, utils)\n", 'D2'),
    Mutant('linear-generated-estimator-table-misaligned', LIN, "    error_calculators = {\n        'equals': get_equals_fit_error,\n        'proportional': get_proportional_fit_error,\n        'offset': get_offset_fit_error,\n        'linear': get_linear_fit_error,\n    }",
           "    error_calculators = dict(zip(all_modes, (\n        get_equals_fit_error,\n        get_offset_fit_error,\n        get_proportional_fit_error,\n        get_linear_fit_error,\n    )))", 'D1'),
    Mutant('linear-floor-local-constant-two', LIN, "        if len(student_evals) < 3:\n            msg = 'Cannot perform linear comparison with less than 3 samples'",
           "        min_samples = 2\n        if len(student_evals) < min_samples:\n            msg = 'Cannot perform linear comparison with less than 3 samples'", 'D1'),
    Mutant('sweep-entry-student-transform-deleted', CMP, "        student_evals = [transform(x) for x in student_evals]\n        vec_within_tol", "        vec_within_tol", 'D1'),
    Mutant('entry-expected-transform-deleted', CMP, "        expected_evals = [transform(x) for x in expected_evals]\n", "", 'D1'),
    Mutant('equality-student-transform-deleted', CMP, "        student_eval = transform(student_eval)\n\n        return utils.within_tolerance", "        return utils.within_tolerance", 'D1'),
    Mutant('equality-reference-is-student', CMP, "        return utils.within_tolerance(expected_eval, student_eval)", "        return utils.within_tolerance(student_eval, expected_eval)", 'D1'),
    Mutant('utils-positional-fields-misplaced', MG, "        return self.Utils(tolerance=self.config['tolerance'],\n                          within_tolerance=_within_tolerance,\n                          validate_shape=_validate_shape)",
           "        return self.Utils(self.config['tolerance'], _validate_shape, _within_tolerance)", 'D3'),
    Mutant('linear-zero-filter-set-difference-inverted', LIN, "        if is_comparing_zero:\n            return tuple(mode for mode in self.modes\n                         if mode in self.zero_compatible_modes)\n        return self.modes",
           "        if not is_comparing_zero:\n            return self.modes\n        nonzero_only_modes = set(self.all_modes) - set(self.zero_compatible_modes)\n        return tuple(mode for mode in self.modes\n                     if mode in nonzero_only_modes)", 'D1'),
    Mutant('entry-conditional-credit-branches-exchanged', CMP, "        elif partial_credit == 'proportional':\n            return {'ok': 'partial', 'grade_decimal': percent_correct, 'msg': msg}\n        else:\n            return {'ok': 'partial', 'grade_decimal': partial_credit, 'msg': msg}",
           "        awarded = partial_credit if partial_credit == 'proportional' else percent_correct\n        return {'ok': 'partial', 'grade_decimal': awarded, 'msg': msg}", 'D1'),
    # wave 5: refactorings with one slip (the filed diff is the mutant, the corrected diff is the benign twin below)
    Mutant('seeded-C16i-expected-zero-wrong-dual', LIN, hunks('C16i', LIN), None, 'D1'),
    Mutant('seeded-C16j-eigen-residual-relative-to-v', CMP, hunks('C16j', CMP), None, 'D1'),
    Mutant('linear-expected-zero-any-entry', LIN, "        expected_zero = all(np.all(x == 0.0) for [x] in comparer_params_evals)",
           "        expected_zero = any(np.any(x == 0.0) for [x] in comparer_params_evals)", 'D1'),
    Mutant('equality-comprehension-transforms-expected-twice', CMP, "        expected_eval = transform(expected_eval)\n        student_eval = transform(student_eval)\n",
           "        expected_eval, student_eval = [transform(value) for value in (expected_eval, expected_eval)]\n", 'D1'),
    Mutant('seeded-C16k-first-satisfied-mode-instead-of-best', LIN, hunks('C16k', LIN), None, 'D1'),
    Mutant('linear-validation-removed', LIN, "            utils.validate_shape(student_evals[0], shape)", "            pass", 'D2'),
    Mutant('nearly-zero-strict', MF, "    return np.linalg.norm(x) <= tolerance", "    return np.linalg.norm(x) < tolerance", 'D1'),
    Mutant('nearly-zero-relative-to-itself', MF, "        tolerance = np.linalg.norm(reference) * percentage_as_number(tolerance)",
           "        tolerance = np.linalg.norm(x) * percentage_as_number(tolerance)", 'D1'),
    # ---- D3: mismatch policy
    Mutant('policy-handler-order', MG, "        except ShapeError as err:\n            if self.config['suppress_matrix_messages']:\n                return {'ok': False, 'msg': '', 'grade_decimal': 0}\n            elif self.config['shape_errors']:",
           "        except (ArgumentShapeError, MathArrayError) as err:\n            if self.config['suppress_matrix_messages']:\n                return {'ok': False, 'msg': '', 'grade_decimal': 0}\n            raise\n        except ShapeError as err:\n            if self.config['suppress_matrix_messages']:\n                return {'ok': False, 'msg': '', 'grade_decimal': 0}\n            elif self.config['shape_errors']:", 'D3'),
    Mutant('policy-shape-errors-negated', MG, "            elif self.config['shape_errors']:", "            elif not self.config['shape_errors']:", 'D3'),
    Mutant('policy-mismatch-uses-shape-errors', MG, "            elif self.config['answer_shape_mismatch']['is_raised']:", "            elif self.config['shape_errors']:", 'D3'),
    Mutant('policy-suppress-ignored', MG, "        except InputTypeError as err:\n            if self.config['suppress_matrix_messages']:", "        except InputTypeError as err:\n            if False:", 'D3'),
    Mutant('policy-shape-error-full-credit', MG, "                return {'ok': False, 'msg': str(err), 'grade_decimal': 0}", "                return {'ok': True, 'msg': str(err), 'grade_decimal': 1}", 'D3'),
    Mutant('shapecheck-inverted', MG, "        if expected_shape == input_shape:", "        if expected_shape != input_shape:", 'D3'),
    Mutant('shapecheck-returns-false', MG, "        raise InputTypeError(msg)\n\n    Utils =", "        return False\n\n    Utils =", 'D3'),
    Mutant('shapecheck-wrong-class', MG, "        raise InputTypeError(msg)\n\n    Utils =", "        raise ValueError(msg)\n\n    Utils =", 'D3'),
    Mutant('utils-arguments-exchanged', MG, "            return self.validate_student_input_shape(student_input, shape, detail)",
           "            return self.validate_student_input_shape(shape, student_input, detail)", 'D3'),
    Mutant('equality-validates-expected', CMP, "            utils.validate_shape(student_eval, shape)", "            utils.validate_shape(expected_eval, shape)", 'D3'),
    Mutant('equality-validation-after-comparison', CMP, "        self.validate(expected_eval, student_eval, utils)\n\n        transform = self.config['transform']\n        expected_eval = transform(expected_eval)\n        student_eval = transform(student_eval)\n\n        return utils.within_tolerance(expected_eval, student_eval)",
           "        transform = self.config['transform']\n        result = utils.within_tolerance(transform(expected_eval), transform(student_eval))\n        self.validate(expected_eval, student_eval, utils)\n        return result", 'D2'),
]

BENIGN = [
    Benign('between-through-local', CMP, _BETWEEN, "    value = np.real(student_eval)\n    return start <= value <= stop"),
    Benign('between-real-attribute', CMP, _BETWEEN, "    return start <= student_eval.real <= stop"),
    Benign('between-split-chain', CMP, _BETWEEN, "    return np.real(student_eval) >= start and np.real(student_eval) <= stop"),
    Benign('congruence-inlined', CMP, "    expected_reduced = expected % modulus\n    input_reduced = student_eval % modulus\n    return utils.within_tolerance(expected_reduced, input_reduced)",
           "    return utils.within_tolerance(expected % modulus, student_eval % modulus)"),
    Benign('entry-zero-branch-first', CMP, "        if percent_correct == 1:\n            return True\n        elif percent_correct == 0:\n            return {'ok': False, 'grade_decimal': 0, 'msg': msg}",
           "        if percent_correct == 0:\n            return {'ok': False, 'grade_decimal': 0, 'msg': msg}\n        elif percent_correct == 1:\n            return True"),
    Benign('linear-floor-negated-form', LIN, "        if len(student_evals) < 3:", "        if not len(student_evals) >= 3:"),
    Benign('linear-estimator-call-through-local', LIN, "        errors = [self.error_calculators[mode](student, expected) for mode in filtered_modes]",
           "        calculators = self.error_calculators\n        errors = [calculators[mode](student, expected) for mode in filtered_modes]"),
    Benign('linear-zero-disjuncts-reordered', LIN, "        return student_zero or expected_zero", "        return expected_zero or student_zero"),
    Benign('shapecheck-operands-flipped', MG, "        if expected_shape == input_shape:", "        if input_shape == expected_shape:"),
    Benign('policy-independent-handlers-reordered', MG, "        except ShapeError as err:\n            if self.config['suppress_matrix_messages']:\n                return {'ok': False, 'msg': '', 'grade_decimal': 0}\n            elif self.config['shape_errors']:\n                raise\n            else:\n                return {'ok': False, 'msg': str(err), 'grade_decimal': 0}\n        except InputTypeError as err:\n            if self.config['suppress_matrix_messages']:\n                return {'ok': False, 'msg': '', 'grade_decimal': 0}\n            elif self.config['answer_shape_mismatch']['is_raised']:\n                raise\n            else:\n                return {'ok': False, 'grade_decimal': 0, 'msg': str(err)}",
           "        except InputTypeError as err:\n            if self.config['suppress_matrix_messages']:\n                return {'ok': False, 'msg': '', 'grade_decimal': 0}\n            elif self.config['answer_shape_mismatch']['is_raised']:\n                raise\n            else:\n                return {'ok': False, 'grade_decimal': 0, 'msg': str(err)}\n        except ShapeError as err:\n            if self.config['suppress_matrix_messages']:\n                return {'ok': False, 'msg': '', 'grade_decimal': 0}\n            elif self.config['shape_errors']:\n                raise\n            else:\n                return {'ok': False, 'msg': str(err), 'grade_decimal': 0}"),
    Benign('policy-nested-instead-of-elif', MG, "            if self.config['suppress_matrix_messages']:\n                return {'ok': False, 'msg': '', 'grade_decimal': 0}\n            elif self.config['shape_errors']:\n                raise\n            else:\n                return {'ok': False, 'msg': str(err), 'grade_decimal': 0}",
           "            if not self.config['suppress_matrix_messages']:\n                if self.config['shape_errors']:\n                    raise\n                return {'ok': False, 'msg': str(err), 'grade_decimal': 0}\n            return {'ok': False, 'msg': '', 'grade_decimal': 0}"),
    Benign('equality-transform-fetched-first', CMP, "        self.validate(expected_eval, student_eval, utils)\n\n        transform = self.config['transform']\n        expected_eval = transform(expected_eval)",
           "        transform = self.config['transform']\n        self.validate(expected_eval, student_eval, utils)\n        expected_eval = transform(expected_eval)"),
    Benign('policy-merged-except-with-isinstance-dispatch', MG, _HANDLERS_OLD,
           "                return super().check_response(answer, student_input, **kwargs)\n"
           "        except (InputTypeError, ArgumentShapeError, MathArrayError) as err:\n"
           "            if self.config['suppress_matrix_messages']:\n                return {'ok': False, 'msg': '', 'grade_decimal': 0}\n"
           "            if isinstance(err, ShapeError):\n                if self.config['shape_errors']:\n                    raise\n"
           "                return {'ok': False, 'msg': str(err), 'grade_decimal': 0}\n"
           "            if isinstance(err, InputTypeError):\n                if self.config['answer_shape_mismatch']['is_raised']:\n                    raise\n"
           "                return {'ok': False, 'grade_decimal': 0, 'msg': str(err)}\n            raise\n"),
    Benign('policy-merged-except-with-helper', MG, _HANDLERS_OLD,
           "                return super().check_response(answer, student_input, **kwargs)\n"
           "        except (ShapeError, InputTypeError, ArgumentShapeError, MathArrayError) as err:\n"
           "            if self.config['suppress_matrix_messages']:\n                return {'ok': False, 'msg': '', 'grade_decimal': 0}\n"
           "            if self._is_raised(err):\n                raise\n"
           "            if isinstance(err, ShapeError):\n                return {'ok': False, 'msg': str(err), 'grade_decimal': 0}\n"
           "            return {'ok': False, 'grade_decimal': 0, 'msg': str(err)}\n\n"
           "    def _is_raised(self, err):\n        if isinstance(err, ShapeError):\n            return self.config['shape_errors']\n"
           "        if isinstance(err, InputTypeError):\n            return self.config['answer_shape_mismatch']['is_raised']\n        return True\n"),
    Benign('linear-result-helpers', LIN,
           "        results = [\n            {'grade_decimal': self.config[mode], 'msg': self.config[mode+'_msg']}\n"
           "            if is_nearly_zero(error, utils.tolerance, reference=student_evals_norm)\n            else\n"
           "            {'grade_decimal': 0, 'msg': ''}\n            for mode, error in zip(filtered_modes, errors)\n        ]\n\n"
           "        # Get the best result using max.\n        # For a list of pairs, max compares by 1st index and uses 2nd to break ties\n"
           "        key = lambda result: (result['grade_decimal'], result['msg'])\n        return max(results, key=key)\n",
           "        results = [\n            self._get_mode_result(mode, error, utils.tolerance, student_evals_norm)\n"
           "            for mode, error in zip(filtered_modes, errors)\n        ]\n        return max(results, key=self._result_rank)\n\n"
           "    def _get_mode_result(self, mode, error, tolerance, reference):\n"
           "        if is_nearly_zero(error, tolerance, reference=reference):\n"
           "            return {'grade_decimal': self.config[mode], 'msg': self.config[f'{mode}_msg']}\n"
           "        return {'grade_decimal': 0, 'msg': ''}\n\n"
           "    @staticmethod\n    def _result_rank(result):\n        return (result['grade_decimal'], result['msg'])\n"),
    Benign('entry-credit-chain-extracted', CMP,
           "        num_entries = comparisons_summary.size\n        percent_correct = np.sum(comparisons_summary).item()/num_entries\n"
           "        msg = self.format_message_with_locations(self.config['entry_partial_msg'], comparisons_summary)\n"
           "        partial_credit = self.config['entry_partial_credit']\n\n"
           "        if percent_correct == 1:\n            return True\n        elif percent_correct == 0:\n"
           "            return {'ok': False, 'grade_decimal': 0, 'msg': msg}\n        elif partial_credit == 'proportional':\n"
           "            return {'ok': 'partial', 'grade_decimal': percent_correct, 'msg': msg}\n        else:\n"
           "            return {'ok': 'partial', 'grade_decimal': partial_credit, 'msg': msg}\n",
           "        return self._grade_entry_comparisons(comparisons_summary)\n\n"
           "    def _grade_entry_comparisons(self, comparisons_summary):\n"
           "        fraction_correct = np.sum(comparisons_summary).item()/comparisons_summary.size\n"
           "        msg = self.format_message_with_locations(self.config['entry_partial_msg'], comparisons_summary)\n"
           "        if fraction_correct == 1:\n            return True\n        if fraction_correct == 0:\n"
           "            return {'ok': False, 'grade_decimal': 0, 'msg': msg}\n"
           "        credit = self.config['entry_partial_credit']\n        if credit == 'proportional':\n            credit = fraction_correct\n"
           "        return {'ok': 'partial', 'grade_decimal': credit, 'msg': msg}\n"),
    Benign('equality-validate-guard-clause', CMP,
           "        if hasattr(utils, 'validate_shape'):\n            # in numpy, scalars have empty tuples as their shapes\n"
           "            shape = tuple() if isinstance(expected_eval, Number) else expected_eval.shape\n"
           "            utils.validate_shape(student_eval, shape)\n",
           "        if not hasattr(utils, 'validate_shape'):\n            return\n        if isinstance(expected_eval, Number):\n"
           "            expected_shape = tuple()\n        else:\n            expected_shape = expected_eval.shape\n"
           "        utils.validate_shape(student_eval, expected_shape)\n"),
    Benign('congruence-np-mod', CMP, "    expected_reduced = expected % modulus\n    input_reduced = student_eval % modulus\n",
           "    expected_reduced = np.mod(expected, modulus)\n    input_reduced = np.remainder(student_eval, modulus)\n"),
    Benign('span-explicit-residual-norm', CMP, "    ols = np.linalg.lstsq(column_vectors, student_eval, rcond=-1)\n    error = np.sqrt(ols[1])\n",
           "    coeffs = np.linalg.lstsq(column_vectors, student_eval, rcond=-1)[0]\n    residual = np.array(student_eval) - np.dot(column_vectors, coeffs)\n    error = np.linalg.norm(residual)\n"),
    Benign('span-explicit-residual-vdot', CMP, "    ols = np.linalg.lstsq(column_vectors, student_eval, rcond=-1)\n    error = np.sqrt(ols[1])\n",
           "    coeffs = np.linalg.lstsq(column_vectors, student_eval, rcond=-1)[0]\n    residual = student_eval - np.dot(column_vectors, coeffs)\n    error = np.sqrt(np.vdot(residual, residual))\n"),
    Benign('span-lstsq-tuple-unpacked', CMP,
           "    ols = np.linalg.lstsq(column_vectors, student_eval, rcond=-1)\n    error = np.sqrt(ols[1])\n",
           "    _, residuals, _, _ = np.linalg.lstsq(column_vectors, student_eval, rcond=-1)\n    error = np.sqrt(residuals)\n"),
    Benign('eigen-zero-test-in-helper', CMP,
           "    if utils.within_tolerance(0, np.linalg.norm(student_eval)):\n        return {\n            'ok': False,\n"
           "            'grade_decimal': 0,\n            'msg': 'Eigenvectors must be nonzero.'\n        }\n\n    return utils.within_tolerance(actual, expected)\n",
           "    if _is_zero_vector(student_eval, utils):\n        return _zero_credit('Eigenvectors must be nonzero.')\n\n"
           "    return utils.within_tolerance(actual, expected)\n\n"
           "def _is_zero_vector(vector, utils):\n    return utils.within_tolerance(0, np.linalg.norm(vector))\n\n"
           "def _zero_credit(msg):\n    return {'ok': False, 'grade_decimal': 0, 'msg': msg}\n"),
    Benign('entry-transform-fetched-before-validation', CMP, "        expected_evals = [params[0] for params in comparer_params_evals]\n        self.validate(expected_evals, student_evals, utils)\n\n        transform = self.config['transform']\n        expected_evals = [transform(x) for x in expected_evals]\n",
           "        transform = self.config['transform']\n        raw_expected = [params[0] for params in comparer_params_evals]\n        self.validate(raw_expected, student_evals, utils)\n        expected_evals = [transform(x) for x in raw_expected]\n"),
    Benign('linear-floor-through-local-constant', LIN, "        if len(student_evals) < 3:\n            msg = 'Cannot perform linear comparison with less than 3 samples'\n            raise ConfigError(msg)",
           "        min_samples = 3\n        if len(student_evals) < min_samples:\n            raise ConfigError('Cannot perform linear comparison with less than %d samples' % min_samples)"),
    Benign('linear-estimator-table-generated', LIN, "    error_calculators = {\n        'equals': get_equals_fit_error,\n        'proportional': get_proportional_fit_error,\n        'offset': get_offset_fit_error,\n        'linear': get_linear_fit_error,\n    }",
           "    error_calculators = dict(zip(all_modes, (\n        get_equals_fit_error,\n        get_proportional_fit_error,\n        get_offset_fit_error,\n        get_linear_fit_error,\n    )))"),
    Benign('policy-zero-result-from-constant-copies', MG,
           "        except ShapeError as err:\n            if self.config['suppress_matrix_messages']:\n                return {'ok': False, 'msg': '', 'grade_decimal': 0}\n            elif self.config['shape_errors']:\n                raise\n            else:\n                return {'ok': False, 'msg': str(err), 'grade_decimal': 0}\n",
           "        except ShapeError as err:\n            silent = {'ok': False, 'msg': '', 'grade_decimal': 0}\n            if self.config['suppress_matrix_messages']:\n                return dict(silent)\n            elif self.config['shape_errors']:\n                raise\n            else:\n                return dict(silent, msg=str(err))\n"),
    Benign('equality-transform-inlined', CMP, "        transform = self.config['transform']\n        expected_eval = transform(expected_eval)\n        student_eval = transform(student_eval)\n\n        return utils.within_tolerance(expected_eval, student_eval)",
           "        return utils.within_tolerance(self.config['transform'](expected_eval), self.config['transform'](student_eval))"),
    Benign('utils-built-positionally', MG, "        return self.Utils(tolerance=self.config['tolerance'],\n                          within_tolerance=_within_tolerance,\n                          validate_shape=_validate_shape)",
           "        return self.Utils(self.config['tolerance'], _within_tolerance, _validate_shape)"),
    Benign('entry-partial-credit-by-conditional-expression', CMP, "        elif partial_credit == 'proportional':\n            return {'ok': 'partial', 'grade_decimal': percent_correct, 'msg': msg}\n        else:\n            return {'ok': 'partial', 'grade_decimal': partial_credit, 'msg': msg}",
           "        awarded = percent_correct if partial_credit == 'proportional' else partial_credit\n        return {'ok': 'partial', 'grade_decimal': awarded, 'msg': msg}"),
    Benign('linear-zero-filter-by-set-difference', LIN, "        if is_comparing_zero:\n            return tuple(mode for mode in self.modes\n                         if mode in self.zero_compatible_modes)\n        return self.modes",
           "        if not is_comparing_zero:\n            return self.modes\n        nonzero_only_modes = set(self.all_modes) - set(self.zero_compatible_modes)\n        return tuple(mode for mode in self.modes\n                     if mode not in nonzero_only_modes)"),
    Benign('C16i-corrected-linear-refactoring', LIN, hunks('C16i', LIN, fixes=[
        ("        expected_zero = not np.all(expected_evals)\n", "        expected_zero = not np.any(expected_evals)\n")]), None),
    Benign('C16j-corrected-eigen-residual-form', CMP, hunks('C16j', CMP, fixes=[
        ("    return is_nearly_zero(residual, utils.tolerance, reference=student_eval)\n",
         "    return is_nearly_zero(residual, utils.tolerance, reference=matrix * student_eval)\n")]), None),
    Benign('linear-expected-zero-by-count-nonzero', LIN, "        expected_zero = all(np.all(x == 0.0) for [x] in comparer_params_evals)",
           "        expected_zero = np.count_nonzero([params[0] for params in comparer_params_evals]) == 0"),
    Benign('phase-decision-by-guard-clause', CMP, "    return in_span and same_magnitude", "    if not in_span:\n        return in_span\n    return same_magnitude"),
    Benign('phase-decision-by-conditional-expression', CMP, "    return in_span and same_magnitude", "    return same_magnitude if in_span else False"),
    Benign('policy-helper-returning-none-for-reraise', MG, _HANDLERS_OLD,
           "                return super().check_response(answer, student_input, **kwargs)\n"
           "        except (ShapeError, InputTypeError, ArgumentShapeError, MathArrayError) as err:\n"
           "            graded_incorrect = self._grade_matrix_error(err)\n            if graded_incorrect is None:\n                raise\n"
           "            return graded_incorrect\n\n"
           "    def _grade_matrix_error(self, err):\n        if self.config['suppress_matrix_messages']:\n"
           "            return {'ok': False, 'msg': '', 'grade_decimal': 0}\n        if isinstance(err, ShapeError):\n"
           "            if self.config['shape_errors']:\n                return None\n"
           "            return {'ok': False, 'msg': str(err), 'grade_decimal': 0}\n        if isinstance(err, InputTypeError):\n"
           "            if self.config['answer_shape_mismatch']['is_raised']:\n                return None\n"
           "            return {'ok': False, 'grade_decimal': 0, 'msg': str(err)}\n        return None\n"),
    Benign('equality-both-transforms-in-one-comprehension', CMP, "        expected_eval = transform(expected_eval)\n        student_eval = transform(student_eval)\n",
           "        expected_eval, student_eval = [transform(value) for value in (expected_eval, student_eval)]\n"),
    Benign('C16k-corrected-best-satisfied-mode', LIN, hunks('C16k', LIN, fixes=[
        ("        best_mode = next(satisfied_modes, None)\n",
         "        best_mode = max(satisfied_modes, key=lambda mode: (self.config[mode], self.config[mode + '_msg']), default=None)\n")]), None),
    Benign('eigen-log-statement', CMP, "    expected = eigenvalue * student_eval\n    actual = matrix * student_eval\n", "    expected = eigenvalue * student_eval\n    actual = matrix * student_eval\n    _unused = len(comparer_params_eval)\n"),
]
