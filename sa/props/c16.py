"""C16 -- each built-in comparer accepts exactly its documented equivalence class."""
import ast

from ..index import AnalysisError, walk_own, walk_all, unparse, short, ancestors, parent
from ..cfg import cfg_of
from .. import nf, lib
from ..selftest import Mutant, Benign

ID = 'C16'
CMP = 'mitxgraders/comparers/comparers.py'
LIN = 'mitxgraders/comparers/linear_comparer.py'
BASEC = 'mitxgraders/comparers/baseclasses.py'
MG = 'mitxgraders/formulagrader/matrixgrader.py'
MF = 'mitxgraders/helpers/calc/mathfuncs.py'
FILES = [CMP, LIN, BASEC, MG, MF]

EXPLANATION = (
    "(D1) the decision expression of every built-in comparer, after forward substitution of locals, equals its reference "
    "term modulo the rewrite theory of the engine and its operands carry the right roles (expected vs student, matrix vs "
    "eigenvalue, start vs stop): congruence (both sides reduced by the same modulus), between (non-real refused, closed "
    "bounds), eigenvector (zero vector refused, M.v against lambda.v), vector_span (parameter check, zero refused, "
    "least-squares residual relative to the student's vector), vector_phase (in span AND equal norm), MatrixEntryComparer "
    "(np.all over samples, fraction = matches/size, the four credit branches), LinearComparer (< 3 samples -> ConfigError, "
    "zero_compatible_modes, error_calculators table, zero detection, credit iff fit error nearly zero, max by (credit, "
    "message)), is_nearly_zero (norm(x) <= tolerance, percentage relative to norm(reference)); (D2) in every comparer that "
    "validates shapes the validation dominates each statement that combines the student's value with the expected ones; "
    "(D3) MatrixGrader.check_response: no handler is shadowed by an earlier one and each handler realises its policy truth "
    "table over suppress_matrix_messages / shape_errors / answer_shape_mismatch.is_raised; validate_student_input_shape "
    "returns iff the shapes are equal and raises InputTypeError otherwise; EqualityComparer.validate and the Utils wiring "
    "pass (student, shape) in that order; (D4) numeric type-state: no ordering comparison is applied to a value derived "
    "from the student's evaluation that may still be complex-typed.")
NOT_DECIDED = ("that the numeric tests realise the mathematical classes (least squares, tolerances, floating point); the fit-"
               "error estimators' formulas; which argument of the fit estimators is the student's sample; SumGrader's limit "
               "checks (C19); behaviour of author-supplied transforms.")
ASSUMPTIONS = ["comparers are called as comparer(comparer_params_eval, student_eval, utils) by FormulaGrader",
               "np.isreal tests the value, not the type; np.real, abs, np.linalg.norm, len return real-typed values"]

C = 'mitxgraders.comparers.comparers.'
LC = 'mitxgraders.comparers.linear_comparer.LinearComparer'
LMOD = 'mitxgraders.comparers.linear_comparer'
MGQ = 'mitxgraders.formulagrader.matrixgrader.MatrixGrader'
NZ = 'mitxgraders.helpers.calc.mathfuncs.is_nearly_zero'


def check(ctx):
    idx = ctx.index
    d1_congruence(ctx, idx)
    d1_between(ctx, idx)
    d1_eigenvector(ctx, idx)
    d1_span(ctx, idx)
    d1_phase(ctx, idx)
    d1_entry(ctx, idx)
    d1_linear(ctx, idx)
    d1_nearly_zero(ctx, idx)
    d2_order(ctx, idx)
    d3_policy(ctx, idx)
    d3_shape_validation(ctx, idx)
    d4_typestate(ctx, idx)


# ----------------------------------------------------------------------------- helpers
def roles(fi, offset=0):
    """(params, student, utils) parameter names of a comparer."""
    p = fi.params[offset:]
    if len(p) < 3:
        raise AnalysisError('%s: comparer signature changed' % fi.qualname)
    return p[0], p[1], p[2]


def unpack_of(fi, source):
    """Names bound by `a, b = <source param>` in the function (in order)."""
    for n in walk_own(fi.node):
        if isinstance(n, ast.Assign) and len(n.targets) == 1 and isinstance(n.targets[0], (ast.Tuple, ast.List)) \
                and isinstance(n.value, ast.Name) and n.value.id == source \
                and all(isinstance(e, ast.Name) for e in n.targets[0].elts):
            return [e.id for e in n.targets[0].elts]
    raise AnalysisError('%s: the parameters are no longer unpacked from %s' % (fi.qualname, source))


def is_name(node, name):
    return isinstance(node, ast.Name) and node.id == name


def mentions(node, names):
    names = {names} if isinstance(names, str) else set(names)
    return bool(lib.names_in(node) & names)


def ret_paths(fi):
    return nf.decision_paths(fi.node.body)


def is_zero_result(expr):
    """A literal result dict with grade_decimal 0 and ok False."""
    if not isinstance(expr, ast.Dict):
        return False
    d = {}
    for k, v in zip(expr.keys, expr.values):
        if isinstance(k, ast.Constant):
            d[k.value] = v
    g = d.get('grade_decimal')
    ok = d.get('ok')
    return isinstance(g, ast.Constant) and g.value == 0 and (ok is None or (isinstance(ok, ast.Constant) and ok.value is False))


def dict_items(expr):
    return {k.value: v for k, v in zip(expr.keys, expr.values) if isinstance(k, ast.Constant)} if isinstance(expr, ast.Dict) else None


def positive_guards(path):
    return [g for g in path.guards if not (isinstance(g, ast.UnaryOp) and isinstance(g.op, ast.Not))]


def student_facing(idx, module, cname):
    return lib.exc_is_subclass(idx, module, cname, 'StudentFacingError')


ZERO_TESTS = ["_U.within_tolerance(0, np.linalg.norm(_S))", "_U.within_tolerance(0.0, np.linalg.norm(_S))",
              "is_nearly_zero(_S, _U.tolerance, reference=__)", "np.linalg.norm(_S) == 0"]


def zero_refusal(r, fi, paths, student, construct, what):
    """Some path guarded by `student is (nearly) zero` returns a zero result; the accepting path is guarded by its negation."""
    found = None
    for p in paths:
        for g in p.guards:
            for pat in ZERO_TESTS:
                b = nf.match(pat, g)
                if b is not None and is_name(b.get('_S'), student):
                    found = (p, g)
        if found:
            break
    if not found:
        inverted = None
        for p in paths:
            for g in p.guards:
                if isinstance(g, ast.UnaryOp) and isinstance(g.op, ast.Not):
                    for pat in ZERO_TESTS:
                        b = nf.match(pat, g.operand)
                        if b is not None and is_name(b.get('_S'), student) and p.leaf.kind == 'ret' and is_zero_result(p.leaf.expr):
                            inverted = p
        if inverted is not None:
            r.violation(construct, 'the zero-vector test is inverted: nonzero input is refused and the zero vector goes on to the comparison',
                        lib.loc(fi, inverted.leaf.stmt))
            return
        if any(mentions(g, student) and 'norm' in unparse(g) for p in paths for g in p.guards):
            r.undecided(construct, 'a norm test on the submission exists but is not recognised', fi.loc)
            return
        r.violation(construct, 'no path refuses a (nearly) zero submission: the zero vector %s and is accepted' % what, fi.loc,
                    expected='if utils.within_tolerance(0, np.linalg.norm(student_eval)): return a zero result')
        return
    p, g = found
    if p.leaf.kind == 'ret' and is_zero_result(p.leaf.expr):
        r.ok(construct, 'zero submission -> grade 0', lib.loc(fi, p.leaf.stmt))
    elif p.leaf.kind == 'raise':
        r.ok(construct, 'zero submission -> error', lib.loc(fi, p.leaf.stmt))
    else:
        r.violation(construct, 'a (nearly) zero submission leads to `%s` instead of a zero result' % short(p.leaf.expr), lib.loc(fi, p.leaf.stmt))


# ----------------------------------------------------------------------------- D1 congruence
def d1_congruence(ctx, idx):
    r = ctx.rule('D1.CONGRUENCE', 'congruence_comparer reduces both sides by the same modulus and compares expected with student', floor=2)
    with r:
        fi = idx.func(C + 'congruence_comparer')
        P, S, U = roles(fi)
        names = unpack_of(fi, P)
        if len(names) != 2:
            raise AnalysisError('congruence_comparer: expected (target, modulus)')
        paths = [p for p in ret_paths(fi) if p.leaf.kind == 'ret']
        if len(paths) != 1:
            raise AnalysisError('congruence_comparer: expected a single returning path')
        leaf = paths[0].leaf
        where = lib.loc(fi, leaf.stmt)
        binds = {}
        res = nf.classify('_U.within_tolerance(_E % _M, _S % _M)', leaf.expr, binds)
        construct = 'congruence_comparer: decision'
        if res == nf.MATCH:
            r.ok(construct, 'within_tolerance(expected % modulus, student % modulus)', where)
            e, m, s, u = binds['_E'], binds['_M'], binds['_S'], binds['_U']
            good = is_name(e, names[0]) and is_name(m, names[1]) and is_name(s, S) and is_name(u, U)
            if good:
                r.ok('congruence_comparer: roles', 'target, modulus, student in their places', where)
            elif is_name(e, S) and is_name(s, names[0]):
                r.violation('congruence_comparer: roles', 'the reduced student value is passed as the reference of within_tolerance: a '
                            'percentage tolerance is taken relative to the submission instead of the expected value', where,
                            expected='within_tolerance(expected % modulus, student % modulus)', found=short(leaf.expr))
            elif is_name(m, names[0]) and (is_name(e, names[1]) or is_name(s, names[1])):
                r.violation('congruence_comparer: roles', 'target and modulus are exchanged: values are reduced modulo the target', where,
                            expected='% %s' % names[1], found=short(leaf.expr))
            else:
                r.violation('congruence_comparer: roles', 'operands `%s`, `%s` modulo `%s` are not (target, student) modulo the modulus'
                            % (short(e), short(s), short(m)), where, expected='within_tolerance(%s %% %s, %s %% %s)' % (names[0], names[1], S, names[1]),
                            found=short(leaf.expr))
        elif isinstance(res, tuple):
            r.violation(construct, '%s: the two sides are no longer compared modulo the same modulus' % res[1], where,
                        expected='within_tolerance(expected % modulus, student % modulus)', found=short(leaf.expr))
        else:
            # two different moduli?
            b = nf.match('_U.within_tolerance(_E % _M, _S % _N)', leaf.expr)
            if b is not None:
                r.violation(construct, 'the two sides are reduced by different moduli (`%s` and `%s`)' % (short(b['_M']), short(b['_N'])),
                            where, found=short(leaf.expr))
            else:
                r.undecided(construct, 'decision `%s` not recognised' % short(leaf.expr), where)


# ----------------------------------------------------------------------------- D1 between
def d1_between(ctx, idx):
    r = ctx.rule('D1.BETWEEN', 'between_comparer refuses non-real input and accepts exactly start <= x <= stop', floor=3)
    with r:
        fi = idx.func(C + 'between_comparer')
        P, S, U = roles(fi)
        names = unpack_of(fi, P)
        if len(names) != 2:
            raise AnalysisError('between_comparer: expected (start, stop)')
        paths = ret_paths(fi)
        raising = [p for p in paths if p.leaf.kind == 'raise']
        rets = [p for p in paths if p.leaf.kind == 'ret']
        if not rets:
            raise AnalysisError('between_comparer: no returning path')
        REAL = ['not np.isreal(_S)', 'np.imag(_S) != 0', '_S.imag != 0', 'not np.isrealobj(_S)', 'np.iscomplex(_S)']
        construct = 'between_comparer: non-real input'
        if not raising:
            r.violation(construct, 'no path raises: a submission with a nonzero imaginary part is no longer refused (only its real '
                        'part would be compared with the bounds)', fi.loc, expected='if not np.isreal(student_eval): raise InputTypeError')
        for p in raising:
            where = lib.loc(fi, p.leaf.stmt)
            g = p.guards[-1] if p.guards else None
            res = nf.classify(REAL, g) if g is not None else nf.UNRECOGNISED
            b = None
            if res == nf.MATCH:
                for pat in REAL:
                    b = b or nf.match(pat, g)
            cname = nf.exc_class_name(p.leaf.expr)
            if res == nf.MATCH and b is not None and is_name(b['_S'], S):
                if student_facing(idx, fi.module, cname):
                    r.ok(construct, 'refused with %s' % cname, where)
                else:
                    r.violation(construct, 'non-real input is refused with %s, which is not a student-facing error' % cname, where,
                                expected='InputTypeError', found=cname)
            elif isinstance(res, tuple):
                r.violation(construct, '%s: real input is refused / non-real input passes' % res[1], where, expected=REAL[0], found=short(g))
            else:
                r.undecided(construct, 'guard `%s` of the refusal not recognised' % (short(g) if g is not None else 'none'), where)
        for p in rets:
            where = lib.loc(fi, p.leaf.stmt)
            pats = ['_A <= np.real(_S) and np.real(_S) <= _B', '_A <= _S.real and _S.real <= _B', '_A <= _S and _S <= _B',
                    '_A <= float(np.real(_S)) and float(np.real(_S)) <= _B']
            binds = {}
            res = nf.classify(pats, p.leaf.expr, binds)
            construct = 'between_comparer: bounds test'
            if res == nf.MATCH:
                r.ok(construct, 'closed interval', where)
                a, b_, s = binds['_A'], binds['_B'], binds['_S']
                if is_name(a, names[0]) and is_name(b_, names[1]) and is_name(s, S):
                    r.ok('between_comparer: roles', 'start <= student <= stop', where)
                elif is_name(a, names[1]) and is_name(b_, names[0]):
                    r.violation('between_comparer: roles', 'start and stop are exchanged: the test is stop <= x <= start', where,
                                expected='%s <= x <= %s' % tuple(names), found=short(p.leaf.expr))
                else:
                    r.violation('between_comparer: roles', 'the value tested is `%s` between `%s` and `%s`, not the submission between '
                                'start and stop' % (short(s), short(a), short(b_)), where)
            elif isinstance(res, tuple):
                r.violation(construct, '%s: the accepted set is no longer the closed interval [start, stop]' % res[1], where,
                            expected='start <= x <= stop', found=short(p.leaf.expr))
            else:
                r.undecided(construct, 'decision `%s` not recognised' % short(p.leaf.expr), where)


# ----------------------------------------------------------------------------- D1 eigenvector
def d1_eigenvector(ctx, idx):
    r = ctx.rule('D1.EIGEN', 'eigenvector_comparer refuses the zero vector and compares M.v with lambda.v', floor=4)
    with r:
        fi = idx.func(C + 'eigenvector_comparer')
        P, S, U = roles(fi)
        names = unpack_of(fi, P)
        if len(names) != 2:
            raise AnalysisError('eigenvector_comparer: expected (matrix, eigenvalue)')
        M, L = names
        paths = ret_paths(fi)
        zero_refusal(r, fi, paths, S, 'eigenvector_comparer: zero vector', 'satisfies M.0 = lambda.0')
        finals = [p for p in paths if p.leaf.kind == 'ret' and not isinstance(p.leaf.expr, ast.Dict)]
        if not finals:
            raise AnalysisError('eigenvector_comparer: no deciding return')
        for p in finals:
            where = lib.loc(fi, p.leaf.stmt)
            binds = {}
            res = nf.classify(['_U.within_tolerance(_X * _S, _Y * _S)'], p.leaf.expr, binds)
            construct = 'eigenvector_comparer: decision'
            if res == nf.MATCH:
                x, y, s = binds['_X'], binds['_Y'], binds['_S']
                if {getattr(x, 'id', None), getattr(y, 'id', None)} == {M, L} and is_name(s, S):
                    r.ok(construct, 'within_tolerance(M*v, lambda*v)', where)
                else:
                    r.violation(construct, 'the two sides are `%s` and `%s` times `%s`, not matrix*v and eigenvalue*v' %
                                (short(x), short(y), short(s)), where, expected='%s*%s vs %s*%s' % (M, S, L, S), found=short(p.leaf.expr))
                    continue
                # matrix product is not commutative: the matrix must be the left factor
                prods = [n for n in ast.walk(p.leaf.expr) if isinstance(n, ast.BinOp) and isinstance(n.op, ast.Mult)
                         and mentions(n, M) and mentions(n, S)]
                bad = [n for n in prods if not is_name(n.left, M)]
                r.check(not bad and prods, 'eigenvector_comparer: operand order', 'matrix on the left', 'the product is written `%s`: '
                        'vector*matrix is v.M, the left-eigenvector condition, which differs for non-symmetric matrices'
                        % (short(bad[0]) if bad else '?'), where, expected='%s * %s' % (M, S))
            elif isinstance(res, tuple):
                r.violation(construct, res[1], where, expected='within_tolerance(M*v, lambda*v)', found=short(p.leaf.expr))
            else:
                r.undecided(construct, 'decision `%s` not recognised' % short(p.leaf.expr), where)
        # shape validated against (n,)
        calls = [c for c in lib.calls_named(fi.node, 'validate_shape') if isinstance(c.func, ast.Attribute) and is_name(c.func.value, U)]
        if not calls:
            r.violation('eigenvector_comparer: shape', 'utils.validate_shape is no longer called: a submission of the wrong shape is '
                        'graded (or raises a shape error of another policy) instead of being reported as a shape mismatch', fi.loc)
        for c in calls:
            ok = len(c.args) == 2 and is_name(c.args[0], S)
            shape = lib.inline_locals(c.args[1], fi.node) if len(c.args) == 2 else None
            b = nf.match('(_M.shape[0],)', shape) or nf.match('(_M.shape[1],)', shape) if shape is not None else None
            r.check(ok and b is not None and is_name(b['_M'], M), 'eigenvector_comparer: shape', 'student validated against (n,)',
                    'validate_shape is called as `%s`, not with the submission and the shape (n,) of the matrix' % short(c), lib.loc(fi, c),
                    expected='utils.validate_shape(%s, (%s.shape[0],))' % (S, M))


# ----------------------------------------------------------------------------- D1 vector span / phase
def d1_span(ctx, idx):
    r = ctx.rule('D1.SPAN', 'vector_span_comparer checks the parameters, refuses zero and tests the least-squares residual '
                 'relative to the student vector', floor=5)
    with r:
        fi = idx.func(C + 'vector_span_comparer')
        P, S, U = roles(fi)
        paths = ret_paths(fi)
        # parameter check
        pc = [p for p in paths if p.leaf.kind == 'raise' and p.guards and nf.match('not are_same_length_vectors(_P)', p.guards[-1]) is not None]
        if pc:
            cname = nf.exc_class_name(pc[0].leaf.expr)
            b = nf.match('not are_same_length_vectors(_P)', pc[0].guards[-1])
            r.check(is_name(b['_P'], P) and student_facing(idx, fi.module, cname), 'vector_span_comparer: parameter check',
                    'unequal-length / non-vector parameters raise %s' % cname, 'the parameter check tests `%s` and raises %s'
                    % (short(b['_P']), cname), lib.loc(fi, pc[0].leaf.stmt))
        elif any(p.leaf.kind == 'raise' and any(nf.match('are_same_length_vectors(_P)', g) is not None for g in p.guards) for p in paths):
            r.violation('vector_span_comparer: parameter check', 'the parameter check is inverted: well-formed parameters raise',
                        fi.loc, expected='if not are_same_length_vectors(comparer_params_eval): raise')
        else:
            r.violation('vector_span_comparer: parameter check', 'the comparer parameters are no longer checked to be equal-length vectors',
                        fi.loc, expected='if not are_same_length_vectors(comparer_params_eval): raise')
        zero_refusal(r, fi, paths, S, 'vector_span_comparer: zero vector', 'lies in every span (residual 0)')
        finals = [p for p in paths if p.leaf.kind == 'ret' and not isinstance(p.leaf.expr, ast.Dict)]
        if not finals:
            raise AnalysisError('vector_span_comparer: no deciding return')
        for p in finals:
            e = p.leaf.expr
            where = lib.loc(fi, p.leaf.stmt)
            construct = 'vector_span_comparer: decision'
            if not (isinstance(e, ast.Call) and nf.callee_name(e) == 'is_nearly_zero' and e.args):
                r.undecided(construct, 'decision `%s` is not an is_nearly_zero test' % short(e), where)
                continue
            targets, how = idx.resolve_call(fi, e)
            if not any(getattr(t, 'qualname', None) == NZ for t in targets):
                raise AnalysisError('vector_span_comparer: is_nearly_zero does not resolve to mathfuncs.is_nearly_zero')
            tol = lib.get_kw(e, 'tolerance', 1)
            ref = lib.get_kw(e, 'reference', 2)
            binds = {}
            res = nf.classify(['np.sqrt(np.linalg.lstsq(np.array(_P).transpose(), _S, rcond=__)[1])',
                               'np.sqrt(np.linalg.lstsq(np.array(_P).T, _S, rcond=__)[1])',
                               'np.sqrt(np.linalg.lstsq(np.transpose(np.array(_P)), _S, rcond=__)[1])'], e.args[0], binds)
            if res == nf.MATCH:
                if is_name(binds['_P'], P) and is_name(binds['_S'], S):
                    r.ok(construct, 'sqrt of the least-squares residual of the student vector against the column vectors', where)
                else:
                    r.violation(construct, 'the least-squares problem is posed for `%s` against `%s` instead of the student vector against '
                                'the given vectors' % (short(binds['_S']), short(binds['_P'])), where)
            elif isinstance(res, tuple):
                r.violation(construct, '%s: the quantity tested is no longer the least-squares residual' % res[1], where,
                            expected='np.sqrt(np.linalg.lstsq(vectors.T, student)[1])', found=short(e.args[0]))
            else:
                r.undecided(construct, 'residual expression `%s` not recognised' % short(e.args[0]), where)
            r.check(tol is not None and nf.match('_U.tolerance', tol) is not None and is_name(nf.match('_U.tolerance', tol)['_U'], U),
                    'vector_span_comparer: tolerance', 'utils.tolerance', 'the residual is tested against `%s` instead of the grader\'s '
                    'tolerance' % (short(tol) if tol is not None else 'nothing'), where, expected='%s.tolerance' % U)
            if ref is None:
                r.violation('vector_span_comparer: reference', 'no reference is given: a percentage tolerance cannot be applied (is_nearly_zero '
                            'raises ValueError)', where, expected='reference=%s' % S)
            elif is_name(ref, S) or nf.match('np.linalg.norm(_S)', ref) is not None and is_name(nf.match('np.linalg.norm(_S)', ref)['_S'], S):
                r.ok('vector_span_comparer: reference', 'relative to the student vector', where)
            elif mentions(ref, P) and not mentions(ref, S):
                r.violation('vector_span_comparer: reference', 'the residual is measured relative to `%s` (the given vectors) instead of the '
                            'student\'s vector: rescaling the submission changes the verdict' % short(ref), where, expected='reference=%s' % S,
                            found=short(ref))
            else:
                r.undecided('vector_span_comparer: reference', 'reference `%s` not recognised' % short(ref), where)


def d1_phase(ctx, idx):
    r = ctx.rule('D1.PHASE', 'vector_phase_comparer = in the span of the target AND of equal norm', floor=2)
    with r:
        fi = idx.func(C + 'vector_phase_comparer')
        P, S, U = roles(fi)
        paths = ret_paths(fi)
        finals = [p for p in paths if p.leaf.kind == 'ret']
        if not finals:
            raise AnalysisError('vector_phase_comparer: no returning path')
        for p in finals:
            where = lib.loc(fi, p.leaf.stmt)
            binds = {}
            res = nf.classify(['vector_span_comparer(_P, _S, _U) and _U.within_tolerance(np.linalg.norm(_P[0]), np.linalg.norm(_S))'],
                              p.leaf.expr, binds)
            construct = 'vector_phase_comparer: decision'
            if res == nf.MATCH:
                r.ok(construct, 'in span and equal norm', where)
                good = is_name(binds['_P'], P) and is_name(binds['_S'], S) and is_name(binds['_U'], U)
                if good:
                    r.ok('vector_phase_comparer: roles', 'norm(target) is the reference', where)
                elif is_name(binds['_P'], S):
                    r.violation('vector_phase_comparer: roles', 'student and target are exchanged in the decision', where)
                else:
                    r.violation('vector_phase_comparer: roles', 'operands `%s`, `%s` are not the parameters and the submission'
                                % (short(binds['_P']), short(binds['_S'])), where)
            elif isinstance(res, tuple):
                r.violation(construct, '%s: the accepted set is no longer {unit-modulus multiples of the target}' % res[1], where,
                            expected='in_span and same_magnitude', found=short(p.leaf.expr))
            else:
                b = nf.match('vector_span_comparer(_P, _S, _U) and _U.within_tolerance(np.linalg.norm(_S), np.linalg.norm(_P[0]))', p.leaf.expr)
                if b is not None:
                    r.violation(construct, 'the norms are compared with the student\'s norm as reference: a percentage tolerance is taken '
                                'relative to the submission', where)
                else:
                    r.undecided(construct, 'decision `%s` not recognised' % short(p.leaf.expr), where)
        for p in paths:
            if p.leaf.kind == 'raise' and p.guards:
                g = p.guards[-1]
                if nf.match('len(_P) != 1 and is_vector(_P[0])', g) is not None:
                    r.note('by-catch: the parameter check of vector_phase_comparer reads `not len(...) == 1 and is_vector(...)` '
                           '(precedence slip: a single non-vector parameter is not refused); not a property violation')


# ----------------------------------------------------------------------------- D1 MatrixEntryComparer
def d1_entry(ctx, idx):
    r = ctx.rule('D1.ENTRY', 'MatrixEntryComparer: np.all over samples, fraction = matches/size, full / zero / proportional / flat credit', floor=7)
    with r:
        fi = idx.func(C + 'MatrixEntryComparer.__call__')
        P, S, U = roles(fi, 1)
        paths = ret_paths(fi)
        if len(paths) != 4:
            raise AnalysisError('MatrixEntryComparer.__call__: expected 4 decision paths, found %d' % len(paths))
        FRAC = 'np.sum(_Q).item() / _Q.size'
        SUMM = 'np.all(np.vectorize(_U.within_tolerance)(_E, _T), axis=0)'
        checked_frac = [False]

        def check_fraction(x, where):
            """x must be matches/size of the all-samples summary; reports once."""
            binds = {}
            res = nf.classify([FRAC, 'np.sum(_Q) / _Q.size', 'np.mean(_Q)'], x, binds)
            if res != nf.MATCH:
                if not checked_frac[0]:
                    checked_frac[0] = True
                    if isinstance(res, tuple):
                        r.violation('MatrixEntryComparer: fraction', '%s: the quantity tested is no longer (matching entries)/(entries)' % res[1],
                                    where, expected='np.sum(summary).item()/summary.size', found=short(x, 90))
                    else:
                        r.undecided('MatrixEntryComparer: fraction', 'fraction `%s` not recognised' % short(x, 90), where)
                return False
            if checked_frac[0]:
                return True
            checked_frac[0] = True
            r.ok('MatrixEntryComparer: fraction', 'matches / size', where)
            b2 = {}
            res2 = nf.classify([SUMM], binds['_Q'], b2)
            if res2 == nf.MATCH:
                r.ok('MatrixEntryComparer: summary', 'np.all(..., axis=0) over the samples', where)
                e_ok = mentions(b2['_E'], P) and not mentions(b2['_E'], S)
                t_ok = mentions(b2['_T'], S) and not mentions(b2['_T'], P)
                if e_ok and t_ok and is_name(b2['_U'], U):
                    r.ok('MatrixEntryComparer: roles', 'within_tolerance(expected, student)', where)
                elif mentions(b2['_E'], S) and mentions(b2['_T'], P):
                    r.violation('MatrixEntryComparer: roles', 'the student\'s evaluations are passed as the reference argument of '
                                'within_tolerance: percentage tolerances are taken relative to the submission', where)
                else:
                    r.undecided('MatrixEntryComparer: roles', 'operands of the entry comparison not recognised', where)
            elif isinstance(res2, tuple):
                r.violation('MatrixEntryComparer: summary', '%s: an entry no longer counts as matching iff it matches in every sample' % res2[1],
                            where, expected='np.all(comparisons, axis=0)', found=short(binds['_Q'], 90))
            else:
                r.undecided('MatrixEntryComparer: summary', 'summary `%s` not recognised' % short(binds['_Q'], 90), where)
            return True

        seen = set()
        for p in paths:
            where = lib.loc(fi, p.leaf.stmt)
            pos = positive_guards(p)
            if p.leaf.kind != 'ret':
                r.violation('MatrixEntryComparer: branches', 'a path does not return a result', where)
                continue
            last = pos[-1] if pos and nf.equal(pos[-1], p.guards[-1]) else None
            kind = None
            frac = None
            if last is not None:
                b = nf.match('_F == 1', last) or nf.match('_F == 1.0', last)
                if b is not None:
                    kind, frac = 'all', b['_F']
                else:
                    b = nf.match('_F == 0', last)
                    if b is not None:
                        kind, frac = 'none', b['_F']
                    else:
                        b = nf.match("_C == 'proportional'", last)
                        if b is not None and nf.config_key(b['_C']) == 'entry_partial_credit':
                            kind = 'proportional'
            else:
                kind = 'flat'
            if kind is None:
                r.undecided('MatrixEntryComparer: branches', 'guard `%s` not recognised' % short(last, 80), where)
                continue
            if frac is not None and not check_fraction(frac, where):
                continue
            seen.add(kind)
            e = p.leaf.expr
            d = dict_items(e)
            construct = 'MatrixEntryComparer: %s entries match' % {'all': 'all', 'none': 'no', 'proportional': 'some (proportional)',
                                                                    'flat': 'some (flat rate)'}[kind]
            if kind == 'all':
                full = (isinstance(e, ast.Constant) and e.value is True) or \
                       (d is not None and isinstance(d.get('grade_decimal'), ast.Constant) and d['grade_decimal'].value == 1)
                r.check(full, construct, 'full credit', 'when every entry matches the comparer returns `%s` instead of full credit' % short(e, 60),
                        where, expected='True')
            elif kind == 'none':
                r.check(is_zero_result(e), construct, 'zero credit', 'when no entry matches the comparer returns `%s` instead of a zero result'
                        % short(e, 60), where, expected="{'ok': False, 'grade_decimal': 0}")
            elif kind == 'proportional':
                g = d.get('grade_decimal') if d else None
                okv = d.get('ok') if d else None
                if g is not None and nf.classify([FRAC, 'np.sum(_Q) / _Q.size'], g) == nf.MATCH \
                        and isinstance(okv, ast.Constant) and okv.value == 'partial':
                    r.ok(construct, 'credit = fraction of matching entries', where)
                elif g is not None and isinstance(nf.classify([FRAC], g), tuple):
                    r.violation(construct, '%s: proportional credit is no longer the fraction of matching entries'
                                % nf.classify([FRAC], g)[1], where, expected='fraction', found=short(g, 80))
                elif g is not None and nf.config_key(g) == 'entry_partial_credit':
                    r.violation(construct, "with entry_partial_credit='proportional' the credit returned is the option itself (the string "
                                "'proportional') instead of the fraction of matching entries", where)
                else:
                    r.violation(construct, 'proportional credit is `%s` (ok=%s) instead of the fraction of matching entries with ok=partial'
                                % (short(g, 60) if g is not None else 'missing', short(okv) if okv is not None else 'missing'), where)
            else:
                g = d.get('grade_decimal') if d else None
                okv = d.get('ok') if d else None
                good = g is not None and nf.config_key(g) == 'entry_partial_credit' and isinstance(okv, ast.Constant) and okv.value == 'partial'
                r.check(good, construct, 'credit = entry_partial_credit', 'the flat partial credit is `%s` instead of config[entry_partial_credit]'
                        % (short(g, 60) if g is not None else 'missing'), where, expected="self.config['entry_partial_credit']")
        missing = {'all', 'none', 'proportional', 'flat'} - seen
        if missing and not any(o.status != 'discharged' for o in r.obligations):
            r.violation('MatrixEntryComparer: branches', 'no branch for %s' % sorted(missing), fi.loc)
