"""C17 -- attempt-based credit scales grades by a bounded, non-increasing schedule."""
import ast
from fractions import Fraction

from ..index import AnalysisError, walk_own, unparse, short
from ..cfg import cfg_of
from .. import nf, lib
from .. import absint as ai
from ..absint import Rat, Interval, SymFact, INF, Unsupported
from ..selftest import Mutant, Benign

ID = 'C17'
CREDIT = 'mitxgraders/attemptcredit.py'
BASE = 'mitxgraders/baseclasses.py'
FILES = [CREDIT, BASE]

EXPLANATION = (
    "Abstract interpretation (interval + sign/monotonicity domain with symbolic bounds over the configuration "
    "symbols, ranges read from each schedule's schema) of LinearCredit/GeometricCredit/ReciprocalCredit.__call__ as "
    "piecewise functions of the attempt number: (D1) value 1 at attempt 1, every piece within [0,1] (and >= "
    "minimum_credit for LinearCredit), every piece non-increasing, adjacent pieces agree at their common breakpoint "
    "(so the whole schedule is the documented progression and non-increasing), LinearCredit anchored at "
    "decrease_credit_after / decrease_credit_steps; definite counterexamples come from exact rational evaluation of "
    "the extracted function on a grid of admissible configurations. (D2) apply_attempt_based_credit: missing attempt "
    "-> ConfigError before anything else; attempts below 1 clamped to 1 before the schedule is called; credit == 1 "
    "leaves the result untouched and is tested on the same normalised value that scales the grades; exactly the entries with grade > 0 are multiplied by the credit with ok recomputed "
    "from the new grade, for list and single results, no early exit; the note is appended iff the message flag and "
    "some grade changed, with the literal format and the right key. (D3) after the credit is applied __call__ only appends to the message keys; __call__ applies it iff "
    "config['attempt_based_credit'], with kwargs.get('attempt'), after the key filter and before the debug append.")
NOT_DECIDED = ("author-defined schedules (assumed to respect the documented contract); the effect of the 4-digit "
               "rounding (a rounded credit may differ from the exact one by 5e-5, e.g. round(minimum_credit, 4) may "
               "lie that far below minimum_credit); floating-point evaluation of the closed forms.")
ASSUMPTIONS = ["schedules are only called through apply_attempt_based_credit, i.e. with attempt >= 1 (clamp C17-D2)",
               "attempt numbers are integers"]

MOD = 'mitxgraders.attemptcredit'
AG = 'mitxgraders.baseclasses.AbstractGrader'
REVIEWED = {'LinearCredit': 'minimum_credit', 'GeometricCredit': None, 'ReciprocalCredit': None}
ATTEMPTS = list(range(1, 41))


def check(ctx):
    idx = ctx.index
    ai.reset_budget()
    d1_schedules(ctx, idx)
    d2_apply(ctx, idx)
    d3_call(ctx, idx)
    d3_keep(ctx, idx)


# ----------------------------------------------------------------------------- D1
def _is_abstract(idx, ci):
    """Does the class still have an abstract method (other than the schema property of the common base)?"""
    names = set()
    for q in ci.mro:
        k = idx.classes.get(q)
        if k is not None and q.startswith('mitxgraders.attemptcredit'):
            names |= set(k.methods)
    for n in names:
        f = idx.lookup(ci, n)
        if f is not None and any('abstractmethod' in d for d in f.decorators):
            return True
    return False


def _is_template_base(idx, ci, call):
    """A private base whose __call__ relies on a method only its subclasses define (template method), with reviewed
    schedules among its subclasses: analysed through those subclasses, not on its own."""
    subs = [q for q in idx.subclasses(ci.qualname, strict=True) if q.split('.')[-1] in REVIEWED]
    if not subs:
        return False
    if ci.name.startswith('_') and all(idx.lookup(idx.classes[q], '__call__') is call for q in subs):
        return True          # a private base whose __call__ all reviewed schedules inherit: analysed through each of them
    for n in ast.walk(call.node):
        if isinstance(n, ast.Call) and isinstance(n.func, ast.Attribute) and isinstance(n.func.value, ast.Name) \
                and n.func.value.id == call.params[0] and idx.lookup(ci, n.func.attr) is None:
            return True
    return False


def _expand_self_calls(idx, ci, paths, depth=3):
    """Template-method support: replace `self.m(args)` in the paths by the paths of the method the concrete class
    resolves m to (guards are conjoined, the call term is replaced by the callee's return value)."""
    from ._c12_matrix import rewrite
    for _ in range(depth):
        out, changed = [], False
        for p in paths:
            terms = list(p.conds) + ([p.value] if p.value is not None else [])
            calls = [s for t in terms for s in ai.subterms(t) if s[0] == 'meth' and s[1] == ('self',) and not s[4]
                     and idx.lookup(ci, s[2]) is not None and idx.lookup(ci, s[2]).module.name.startswith('mitxgraders.attemptcredit')]
            if not calls or p.kind not in ('ret',):
                out.append(p)
                continue
            c = calls[0]
            callee = idx.lookup(ci, c[2])
            params = callee.params[1:]
            if len(params) != len(c[3]) or callee.node.args.vararg or callee.node.args.kwarg:
                raise Unsupported('cannot bind the arguments of self.%s' % c[2])
            env = dict(zip(params, c[3]))
            changed = True
            for q in ai.sym_exec(idx, callee, env=env):
                if q.kind == 'ret':
                    m = {c: q.value}
                    out.append(ai.SPath([(rewrite(g, m), n) for g, n in p.guards] + list(q.guards), 'ret', rewrite(p.value, m), None,
                                        q.stmt or p.stmt, p.store, p.env, p.effects, p.closures))
                    out[-1].fi = callee
                else:
                    out.append(ai.SPath(list(p.guards) + list(q.guards), q.kind, None, q.exc, q.stmt or p.stmt, p.store, p.env,
                                        p.effects, p.closures))
                    out[-1].fi = callee
        paths = out
        if not changed:
            break
    return paths


NUMERIC_HEADS = {'num', 'cfg', 'param', 'add', 'sub', 'mul', 'div', 'pow', 'neg'}


def _fold_none(c):
    """Decide `x is None` / `x is not None` when x is None itself or an arithmetic expression (never None)."""
    if c[0] == 'cmp' and c[1] in ('is', 'isnot') and ('none',) in (c[2], c[3]):
        other = c[3] if c[2] == ('none',) else c[2]
        inner = ai.strip_wrappers(other)
        if other == ('none',):
            return ('bool', c[1] == 'is')
        if inner[0] in NUMERIC_HEADS and not (inner[0] == 'param'):
            return ('bool', c[1] != 'is')
    return c


def _split_conditionals(paths, limit=64):
    """`return a if c else b` is two pieces: split returning paths on conditional expressions in their value."""
    from ._c12_matrix import rewrite
    out = list(paths)
    for _ in range(limit):
        nxt, changed = [], False
        for p in out:
            ifes = [s_ for s_ in ai.subterms(p.value) if s_[0] == 'ifexp'] if p.kind == 'ret' else []
            # innermost first: a condition that itself contains no conditional expression
            ife = next((s_ for s_ in ifes if not any(x[0] == 'ifexp' for x in ai.subterms(s_[1]))), None)
            if ife is None:
                nxt.append(p)
                continue
            changed = True
            for cond, branch in ((ife[1], ife[2]), (ai.t_not(ife[1]), ife[3])):
                cond = _fold_none(cond)
                if cond == ('bool', False):
                    continue
                q = ai.SPath(list(p.guards) + ([] if cond == ('bool', True) else [(cond, None)]), 'ret',
                             rewrite(p.value, {ife: branch}), None, p.stmt, p.store, p.env, p.effects, p.closures)
                nxt.append(q)
        out = nxt
        if not changed:
            return out
    raise Unsupported('too many conditional expressions in a schedule')


class Schedule(object):
    def __init__(self, idx, ci):
        self.ci = ci
        self.fi = idx.lookup(ci, '__call__')
        if len(self.fi.params) != 2:
            raise AnalysisError('%s.__call__ should take (self, attempt)' % ci.name)
        self.var = self.fi.params[1]
        self.facts = ai.schema_facts(idx, ci)
        self.facts.add(SymFact(self.var, Interval(1, INF), integer=True, samples=[Fraction(1)]))
        self.paths = _split_conditionals(_expand_self_calls(idx, ci, ai.sym_exec(idx, self.fi)))
        self.pw = ai.Piecewise([p for p in self.paths if p.kind == 'ret'], self.var, self.facts)
        self.min_key = REVIEWED.get(ci.name)
        self.witness = {}
        self.unsupported = None
        self._scan()

    def label(self, piece):
        g = ' and '.join(ai.show(c) for c in piece.guards) or 'always'
        return '%s.__call__ [%s]' % (self.ci.name, g)

    def cfgtext(self, asg):
        return ', '.join('%s=%s' % (k, _fmt(v)) for k, v in sorted(asg.items()) if k != self.var) or 'no options'

    def admitted(self, asg):
        """Which option values the schema admits (a counterexample may be due to the validator, not to the formula)."""
        parts = []
        for k in sorted(asg):
            f = self.facts.syms.get(k)
            if f is not None and k != self.var and f.source:
                parts.append('%s in %s by `%s`' % (k, f.interval.text(), f.source.split(': ', 1)[-1]))
        return ('; the schema admits ' + ', '.join(parts)) if parts else ''

    def _scan(self):
        """Exact rational evaluation of the extracted function on the witness grid: first counterexample per item."""
        full = ai.Piecewise(self.paths, self.var, self.facts)
        names = full.symbols()
        for asg in self.facts.witness_grid(names):
            prev = None
            for n in ATTEMPTS:
                a = dict(asg)
                a[self.var] = Fraction(n)
                try:
                    kind, val = full.eval_concrete(a)
                except Unsupported as e:
                    self.unsupported = str(e)        # the checker's own limitation: no witness may be derived from it
                    self.witness = {}
                    return
                except (ZeroDivisionError, OverflowError) as e:
                    self.witness.setdefault('total', (asg, 'attempt %d: evaluating the schedule divides by zero / overflows (%s)' % (n, e)))
                    break
                if kind != 'ret' or val is None:
                    self.witness.setdefault('total', (asg, 'attempt %d: the schedule %s instead of returning a number'
                                                      % (n, 'raises %s' % val if kind == 'raise' else 'returns None')))
                    break
                if n == 1 and val != 1:
                    self.witness.setdefault('first', (asg, 's(1) = %s' % _fmt(val)))
                if not (0 <= val <= 1):
                    self.witness.setdefault('range', (asg, 's(%d) = %s lies outside [0, 1]' % (n, _fmt(val))))
                if self.min_key and self.min_key in asg and val < round(Fraction(asg[self.min_key]), 4):
                    self.witness.setdefault('min', (asg, 's(%d) = %s is below %s = %s' % (n, _fmt(val), self.min_key,
                                                                                         _fmt(asg[self.min_key]))))
                if prev is not None and val > prev:
                    self.witness.setdefault('mono', (asg, 's(%d) = %s > s(%d) = %s' % (n, _fmt(val), n - 1, _fmt(prev))))
                prev = val


def _fmt(v):
    if isinstance(v, Fraction):
        if v.denominator == 1:
            return str(v.numerator)
        f = float(v)
        return ('%.6g' % f) if Fraction(('%.6g' % f)) != v else '%.6g' % f
    return str(v)


def _piece_facts(sch, piece):
    """facts refined by the piece's numeric bounds on the attempt variable."""
    facts = sch.facts.copy()
    lows, ups, eqs, neqs, other = piece.bounds(sch.facts)
    for b, strict in eqs:
        if b.is_const():
            facts.restrict(sch.var, Interval.point(b.const_value()))
    for b, strict in lows:
        if b.is_const():
            facts.restrict(sch.var, Interval(b.const_value(), INF, strict))
    for b, strict in ups:
        if b.is_const():
            facts.restrict(sch.var, Interval(-INF, b.const_value(), False, strict))
    return facts, lows, ups, eqs


def _prove_between(sch, piece, lower, upper):
    """Prove lower <= value <= upper (Rats or None) on the piece: intervals first, then monotone end points."""
    facts, lows, ups, eqs = _piece_facts(sch, piece)
    renv = piece.renv
    val = piece.value
    try:
        iv = ai.term_interval(val, facts)
        lo_ok = lower is None or (lower.is_const() and iv.lo >= lower.const_value())
        hi_ok = upper is None or (upper.is_const() and iv.hi <= upper.const_value())
        if lo_ok and hi_ok:
            return 'interval %s' % iv.text()
    except Unsupported:
        pass
    try:
        whole = renv.rat(val)
    except Unsupported:
        return None
    if sch.var not in whole.symbols() and not any(sch.var in (b.symbols() | e.symbols()) for b, e in renv.atoms.values()):
        ok = (lower is None or facts.proves_ge(whole, lower)) and (upper is None or facts.proves_le(whole, upper))
        return 'constant %s' % renv.text(whole) if ok else None
    m = ai.mono(val, sch.var, facts)
    ends = [b for b, _ in eqs] or None
    if ends is None:
        if m not in ('dec', 'inc', 'const') or not lows or not ups:
            return None
        ends = [lows[0][0], ups[0][0]]
    vals = [piece.value_at(b) for b in ends]
    for v in vals:
        if lower is not None and not facts.proves_ge(v, lower):
            return None
        if upper is not None and not facts.proves_le(v, upper):
            return None
    return 'monotone (%s) between end values %s' % (m, ', '.join(renv.text(v) for v in vals))


def d1_schedules(ctx, idx):
    r_first = ctx.rule('D1.FIRST', 'every built-in schedule returns 1 on the first attempt', floor=3)
    r_range = ctx.rule('D1.RANGE', 'every piece of a schedule stays within [0, 1] (LinearCredit: >= minimum_credit)', floor=9)
    r_mono = ctx.rule('D1.MONO', 'every piece of a schedule is non-increasing in the attempt number', floor=8)
    r_cont = ctx.rule('D1.CONT', 'pieces agree at their common breakpoints (documented progression, no jump)', floor=5)
    r_anchor = ctx.rule('D1.ANCHOR', 'documented progressions: LinearCredit full credit up to decrease_credit_after and minimum credit from '
                        'decrease_credit_after + decrease_credit_steps on; GeometricCredit 1, x, x^2; ReciprocalCredit 1, 1/2, 1/3', floor=6)
    schedules = []
    with r_first:
        module = idx.module(MOD)
        for name, ci in sorted(module.classes.items()):
            call = idx.lookup(ci, '__call__')
            if call is None or not call.module.name.startswith(MOD):
                continue
            if name not in REVIEWED and (_is_abstract(idx, ci) or _is_template_base(idx, ci, call)):
                continue          # a template base is not a schedule; its concrete subclasses are analysed through it
            if name not in REVIEWED:
                r_first.undecided(ci.qualname, 'new schedule class that was not reviewed', ci.loc)
                continue
            try:
                schedules.append(Schedule(idx, ci))
            except Unsupported as e:
                r_first.undecided(ci.qualname + '.__call__', 'outside the supported subset: %s' % e, ci.loc)
        missing = set(REVIEWED) - {s.ci.name for s in schedules}
        if missing:
            raise AnalysisError('schedule classes vanished or unreadable: %s' % sorted(missing))
        for sch in schedules:
            _first(r_first, sch)
    for rule, fn in ((r_range, _range), (r_mono, _mono), (r_cont, _cont), (r_anchor, _anchor)):
        with rule:
            for sch in schedules:
                fn(rule, sch)


def _first(r, sch):
    one = Rat.const(1)
    construct = '%s.__call__ at attempt 1' % sch.ci.name
    where = sch.fi.loc
    if sch.unsupported:
        r.undecided('%s.__call__' % sch.ci.name, 'the extracted schedule cannot be evaluated by the checker: %s' % sch.unsupported, where)
        return
    if 'total' in sch.witness:
        asg, msg = sch.witness['total']
        r.violation('%s.__call__' % sch.ci.name, 'with %s, %s: apply_attempt_based_credit cannot turn the result into a '
                    'credit' % (sch.cfgtext(asg), msg), where)
        return
    proved, any_true = True, False
    for p in sch.pw.pieces:
        st = p.guard_status(one, sch.facts)
        if st == ai.FALSE:
            continue
        any_true = any_true or st == ai.TRUE
        try:
            if not (p.value_at(one) == one):
                proved = False
        except Unsupported:
            proved = False
    if proved and any_true:
        r.ok(construct, 'every path feasible at attempt = 1 returns 1', where)
    elif 'first' in sch.witness:
        asg, msg = sch.witness['first']
        r.violation(construct, 'the first attempt does not get full credit: with %s, %s' % (sch.cfgtext(asg), msg), where,
                    expected='s(1) = 1', found=msg)
    else:
        r.undecided(construct, 'cannot prove s(1) = 1 and found no counterexample', where)


def _range(r, sch):
    zero, one = Rat.const(0), Rat.const(1)
    for p in sch.pw.pieces:
        where = lib.loc(sch.fi, p.path.stmt)
        why = _prove_between(sch, p, zero, one)
        if why:
            r.ok(sch.label(p), '`%s` in [0, 1]: %s' % (ai.show(p.value), why), where)
        elif 'range' in sch.witness:
            asg, msg = sch.witness['range']
            r.violation(sch.label(p), 'the credit leaves [0, 1]: with %s, %s (grades would be scaled above full credit or '
                        'below zero)%s' % (sch.cfgtext(asg), msg, sch.admitted(asg)), where, expected='0 <= s(n) <= 1', found=msg)
        else:
            r.undecided(sch.label(p), 'cannot bound `%s` and found no counterexample' % ai.show(p.value), where)
    if sch.min_key:
        m = Rat.sym(sch.min_key)
        bad = [p for p in sch.pw.pieces if not _prove_between(sch, p, m, None)]
        construct = '%s.__call__ >= %s' % (sch.ci.name, sch.min_key)
        if not bad:
            r.ok(construct, 'every piece is bounded below by %s' % sch.min_key, sch.fi.loc)
        elif 'min' in sch.witness:
            asg, msg = sch.witness['min']
            r.violation(construct, 'credit drops below the configured minimum: with %s, %s' % (sch.cfgtext(asg), msg),
                        lib.loc(sch.fi, bad[0].path.stmt), expected='s(n) >= %s' % sch.min_key, found=msg)
        else:
            r.undecided(construct, 'cannot prove the lower bound for `%s`' % ai.show(bad[0].value), sch.fi.loc)


def _mono(r, sch):
    for p in sch.pw.pieces:
        where = lib.loc(sch.fi, p.path.stmt)
        facts, lows, ups, eqs = _piece_facts(sch, p)
        m = 'const' if eqs else ai.mono(p.value, sch.var, facts)
        if m in ('dec', 'const'):
            r.ok(sch.label(p), '`%s` is %s in %s' % (ai.show(p.value), 'constant' if m == 'const' else 'non-increasing', sch.var), where)
        elif 'mono' in sch.witness:
            asg, msg = sch.witness['mono']
            r.violation(sch.label(p), 'the credit increases with the attempt number: with %s, %s' % (sch.cfgtext(asg), msg),
                        where, expected='s(n+1) <= s(n)', found=msg)
        else:
            r.undecided(sch.label(p), 'cannot classify the monotonicity of `%s` in %s' % (ai.show(p.value), sch.var), where)
    if 'mono' in sch.witness and all(o.status != 'violation' for o in r.obligations if o.construct.startswith(sch.ci.name)):
        asg, msg = sch.witness['mono']
        r.violation('%s.__call__ across pieces' % sch.ci.name, 'the credit increases from one piece to the next: with %s, %s'
                    % (sch.cfgtext(asg), msg), sch.fi.loc, expected='s(n+1) <= s(n)', found=msg)


def _rat_value(rat, asg):
    def poly(p):
        tot = Fraction(0)
        for m, c in p.t.items():
            term = c
            for s, e in m:
                if s not in asg:
                    raise Unsupported('no value for %s' % s)
                term *= Fraction(asg[s]) ** e
            tot += term
        return tot
    d = poly(rat.d)
    if d == 0:
        raise ZeroDivisionError
    return poly(rat.n) / d


def _relax(t):
    if t[0] == 'cmp':
        if t[1] == '<':
            return ('cmp', '<=', t[2], t[3])
        if t[1] == '!=':
            return ('bool', True)
        return t
    if t[0] in ('and', 'or'):
        return (t[0], tuple(_relax(x) for x in t[1]))
    return t


def _cont(r, sch):
    pw = sch.pw
    names = pw.symbols()
    for B in pw.boundaries():
        if sch.facts.sign(B - Rat.const(1)) == 'neg':
            continue
        construct = '%s.__call__ at %s = %s' % (sch.ci.name, sch.var, B.text())
        touching = []
        for p in pw.pieces:
            if p.guard_status(B, sch.facts, relaxed=True) != ai.FALSE:
                try:
                    touching.append((p, p.value_at(B, squeeze_facts=sch.facts)))
                except Unsupported as e:
                    raise AnalysisError(str(e))
        if len(touching) < 2:
            continue
        if all(v == touching[0][1] for _, v in touching[1:]):
            r.ok(construct, '%d pieces meet with the common value %s' % (len(touching), pw.renv.text(touching[0][1])), sch.fi.loc)
            continue
        found = None
        for asg in sch.facts.witness_grid(names):
            try:
                b = _rat_value(B, asg)
            except (Unsupported, ZeroDivisionError):
                continue
            if b.denominator != 1 or b < 1:
                continue
            a = dict(asg)
            a[sch.var] = b
            vals = []
            for p in pw.pieces:
                try:
                    if all(ai.concrete(_relax(g), a) for g in p.guards):
                        vals.append((p, ai.concrete(p.value, a)))
                except (Unsupported, ZeroDivisionError):
                    continue
            if len({v for _, v in vals}) > 1:
                found = (asg, b, vals)
                break
        if found:
            asg, b, vals = found
            txt = '; '.join('`%s` gives %s' % (ai.show(ai.strip_wrappers(p.value)), _fmt(v)) for p, v in vals)
            r.violation(construct, 'the schedule jumps at a breakpoint: with %s at attempt %s, %s. The pieces of the schedule do '
                        'not join, so the credits are not the documented progression (first reduced attempt / reaching the '
                        'minimum happen at the wrong attempt or with the wrong value)' % (sch.cfgtext(asg), _fmt(b), txt),
                        lib.loc(sch.fi, vals[-1][0].path.stmt), expected='equal values at the breakpoint', found=txt)
        else:
            r.undecided(construct, 'cannot prove that the pieces agree and found no counterexample', sch.fi.loc)


LINEAR_KEYS = ('decrease_credit_after', 'decrease_credit_steps', 'minimum_credit')


def _anchor_points(r, sch, points):
    """The documented progression (class docstring) at fixed attempts: s(point) == expect for every admissible configuration."""
    full = ai.Piecewise(sch.paths, sch.var, sch.facts)
    for point, expect, what in points:
        construct = '%s.__call__ at attempt = %s' % (sch.ci.name, point.text())
        proved, any_piece = True, False
        for p in sch.pw.pieces:
            if p.guard_status(point, sch.facts) == ai.FALSE:
                continue
            any_piece = True
            try:
                if not (p.value_at(point) == expect):
                    proved = False
            except Unsupported:
                proved = False
        if proved and any_piece:
            r.ok(construct, 'value %s: %s' % (expect.text(), what), sch.fi.loc)
            continue
        found = None
        for asg in sch.facts.witness_grid(full.symbols()):
            a = dict(asg)
            try:
                a[sch.var] = _rat_value(point, asg)
                kind, val = full.eval_concrete(a)
                want = round(_rat_value(expect, asg), 4)
            except (Unsupported, ZeroDivisionError):
                continue
            if kind == 'ret' and val != want:
                found = (asg, a[sch.var], val, want)
                break
        if found:
            asg, n, val, want = found
            r.violation(construct, 'with %s, s(%s) = %s but %s requires %s' % (sch.cfgtext(asg), _fmt(n), _fmt(val), what, _fmt(want)),
                        sch.fi.loc, expected='s(%s) = %s' % (point.text(), expect.text()), found=_fmt(val))
        else:
            r.undecided(construct, 'cannot evaluate the schedule at the anchor point', sch.fi.loc)


def _anchor(r, sch):
    if sch.ci.name == 'GeometricCredit':
        if 'factor' not in sch.facts.syms:
            raise AnalysisError('GeometricCredit schema lost option factor')
        f = Rat.sym('factor')
        _anchor_points(r, sch, [(Rat.const(2), f, 'the documented progression 1, x, x^2, ...'),
                                (Rat.const(3), f * f, 'the documented progression 1, x, x^2, ...')])
        return
    if sch.ci.name == 'ReciprocalCredit':
        _anchor_points(r, sch, [(Rat.const(2), Rat.const(ai.Fraction(1, 2)), 'the documented progression 1, 1/2, 1/3, ...'),
                                (Rat.const(4), Rat.const(ai.Fraction(1, 4)), 'the documented progression 1, 1/2, 1/3, ...')])
        return
    if sch.ci.name != 'LinearCredit':
        return
    for k in LINEAR_KEYS:
        if k not in sch.facts.syms:
            raise AnalysisError('LinearCredit schema lost option %s' % k)
    after, steps, minimum = (Rat.sym(k) for k in LINEAR_KEYS)
    full = ai.Piecewise(sch.paths, sch.var, sch.facts)
    for point, expect, what in ((after, Rat.const(1), 'the last attempt with full credit (decrease_credit_after)'),
                                (after + steps, minimum, 'the attempt at which minimum_credit is reached '
                                                         '(decrease_credit_after + decrease_credit_steps)')):
        construct = 'LinearCredit.__call__ at attempt = %s' % point.text()
        proved = True
        for p in sch.pw.pieces:
            if p.guard_status(point, sch.facts) == ai.FALSE:
                continue
            try:
                if not (p.value_at(point) == expect):
                    proved = False
            except Unsupported:
                proved = False
        if proved:
            r.ok(construct, 'value %s at %s' % (expect.text(), what), sch.fi.loc)
            continue
        found = None
        for asg in sch.facts.witness_grid(full.symbols()):
            a = dict(asg)
            a[sch.var] = _rat_value(point, asg)
            try:
                kind, val = full.eval_concrete(a)
            except (Unsupported, ZeroDivisionError):
                continue
            want = round(_rat_value(expect, asg), 4)
            if kind == 'ret' and val != want:
                found = (asg, a[sch.var], val, want)
                break
        if found:
            asg, n, val, want = found
            r.violation(construct, 'with %s, s(%s) = %s but %s must give %s' % (sch.cfgtext(asg), _fmt(n), _fmt(val), what, _fmt(want)),
                        sch.fi.loc, expected='s(%s) = %s' % (point.text(), expect.text()), found=_fmt(val))
        else:
            r.undecided(construct, 'cannot evaluate the schedule at the anchor point', sch.fi.loc)


# ----------------------------------------------------------------------------- D2
NOTE_FORMAT = "Maximum credit for attempt #{} is {}%."
APPLY = AG + '.apply_attempt_based_credit'


def _schedule_calls(t):
    return [s for s in ai.subterms(t) if s[0] == 'meth' and s[1] == ('cfg', 'attempt_based_credit') and s[2] == '__call__']


def _path_terms(p):
    out = list(p.conds) + list(p.env.values()) + list(p.store.values())
    for e, _ in p.effects:
        out.append(e[2] if e[0] in ('store', 'setcfg') else e) if e[0] != 'stmt' else None
    if p.value is not None:
        out.append(p.value)
    return out


def _is_credit(t):
    """float/round wrappers around the value of the schedule call."""
    while t[0] == 'call' and t[1] in ('round', 'float') and t[2]:
        t = t[2][0]
    return t[0] == 'meth' and t[1] == ('cfg', 'attempt_based_credit') and t[2] == '__call__'


def _is_log(e):
    return e[0] == 'meth' and e[1] == ('self',) and e[2] == 'log'


def d2_apply(ctx, idx):
    fi = idx.func(APPLY)
    if len(fi.params) != 3:
        raise AnalysisError('apply_attempt_based_credit should take (self, result, attempt_number)')
    R, N = fi.params[1], fi.params[2]
    pR, pN = ('param', R), ('param', N)
    paths = None
    r_none = ctx.rule('D2.NONE', 'a missing attempt number is refused with ConfigError before anything else happens', floor=1)
    with r_none:
        try:
            paths = ai.sym_exec(idx, fi, loops='opaque')
        except Unsupported as e:
            raise AnalysisError('apply_attempt_based_credit: %s' % e)
        none_guard = ('cmp', 'is', pN, ('none',))
        hits = [p for p in paths if p.conds and p.conds[0] == none_guard]
        inverted = [p for p in paths if p.conds and p.conds[0] == ('cmp', 'isnot', pN, ('none',)) and p.kind == 'raise'
                    and len(p.conds) == 1]
        construct = 'apply_attempt_based_credit: attempt_number is None'
        if inverted and not any(p.kind == 'raise' for p in hits):
            r_none.violation(construct, 'the check is inverted: a *supplied* attempt number raises %s and a missing one is used'
                             % inverted[0].exc, lib.loc(fi, inverted[0].stmt), expected='if attempt_number is None: raise ConfigError')
        elif not hits and idx.unreviewed:
            r_none.undecided(construct, 'no `is None` check found here; unreviewed helpers remain: %s' % list(idx.unreviewed), fi.loc)
        elif not hits:
            r_none.violation(construct, 'no `is None` check guards the function: grading with attempt-based credit but without '
                             "cfn_extra_args=\"attempt\" no longer ends in the ConfigError that tells the author what is missing",
                             fi.loc, expected='if attempt_number is None: raise ConfigError(...)')
        else:
            for p in hits:
                where = lib.loc(fi, p.stmt or fi.node)
                if p.kind != 'raise' or len(p.conds) != 1:
                    r_none.violation(construct, 'with attempt_number None the function %s instead of raising ConfigError'
                                     % ('returns (silent full credit)' if p.kind == 'ret' else 'continues'), where)
                elif p.exc != 'ConfigError':
                    r_none.violation(construct, 'a missing attempt number raises %s, not ConfigError' % p.exc, where,
                                     expected='ConfigError', found=p.exc)
                elif any(not (e[0] == 'meth' and _is_log(e)) for e, _ in p.effects):
                    r_none.violation(construct, 'something is executed before the refusal: %s' % ai.show(p.effects[0][0]), where)
                else:
                    r_none.ok(construct, 'first decision of the function; raises ConfigError', where)
    if paths is None:
        return
    live = [p for p in paths if not (p.conds and p.conds[0] == ('cmp', 'is', pN, ('none',)))]

    r_clamp = ctx.rule('D2.CLAMP', 'attempts below 1 are replaced by 1 before the schedule is called', floor=2)
    with r_clamp:
        seen = set()
        for p in live:
            calls = []
            for t in _path_terms(p):
                for c in _schedule_calls(t):
                    if c not in calls:
                        calls.append(c)
            if not calls:
                if p.kind != 'raise':
                    r_clamp.violation('apply_attempt_based_credit: schedule call', 'a path never calls '
                                      "config['attempt_based_credit'](attempt)", fi.loc)
                continue
            for c in calls:
                arg = c[3][0] if len(c[3]) == 1 else None
                nguards = [g for g in p.conds if g[0] == 'cmp' and g[1] in ('<', '<=') and (g[2] == pN or g[3] == pN)
                           and (g[2][0] == 'num' or g[3][0] == 'num')]
                key = (arg, tuple(nguards))
                if key in seen:
                    continue
                seen.add(key)
                construct = 'apply_attempt_based_credit: schedule(%s) under %s' % (
                    ai.show(arg) if arg else '?', ' and '.join(ai.show(g) for g in nguards) or 'no bound on the attempt')
                where = fi.loc
                if arg is None:
                    r_clamp.undecided(construct, 'schedule call with unexpected arguments')
                    continue
                if not nguards:
                    if arg[0] == 'call' and arg[1] == 'max' and set(arg[2]) == {pN, ai.num(1)} and not arg[3]:
                        r_clamp.ok(construct, 'attempts below 1 count as 1 (max)', where)
                        r_clamp.ok(construct + ' [>= 1]', 'attempts >= 1 are passed unchanged (max)', where)
                    elif arg == pN and idx.unreviewed:
                        r_clamp.undecided(construct, 'no clamp found here; unreviewed helpers remain', where)
                    elif arg == pN:
                        clamped = sorted(k for k, v in p.env.items() if v[0] == 'call' and v[1] == 'max' and set(v[2]) == {pN, ai.num(1)})
                        extra = (' A clamped copy exists (`%s = max(%s, 1)`, used for the log and the note), but the schedule is called with '
                                 'the raw %s.' % (clamped[0], N, N)) if clamped else ''
                        r_clamp.violation(construct, 'the attempt number reaches the schedule without the `< 1 -> 1` clamp: '
                                          'attempt 0 or a negative attempt is handed to the schedule (GeometricCredit then returns '
                                          'factor**(attempt-1) > 1, ReciprocalCredit divides by zero at attempt 0 - a ZeroDivisionError '
                                          'outside the guarded grading call).%s' % extra, where,
                                          expected='the schedule is called with the clamped attempt (attempts below 1 count as 1)')
                    else:
                        r_clamp.undecided(construct, 'argument of the schedule not recognised')
                    continue
                g = nguards[0]
                below = g[2] == pN                       # N < c / N <= c   (else c < N / c <= N)
                c_val = (g[3] if below else g[2])[1]
                # normalise to the threshold t such that "below" means N < t (integers): N<c -> c ; N<=c -> c+1
                if below:
                    thr = c_val if g[1] == '<' else c_val + 1
                else:
                    thr = c_val + 1 if g[1] == '<' else c_val      # c < N  <=> not (N < c+1) ; c <= N <=> not (N < c)
                if thr not in (1, 2):
                    r_clamp.violation(construct, 'the clamp compares the attempt with the wrong bound (%s): attempts %s 1 are %s'
                                      % (ai.show(g), 'below' if thr < 1 else 'above', 'not clamped' if thr < 1 else 'reset to 1'),
                                      where, expected='attempt_number < 1', found=ai.show(g))
                    continue
                if below:
                    if arg == ai.num(1):
                        r_clamp.ok(construct, 'attempts below 1 count as 1', where)
                    elif arg == pN:
                        r_clamp.violation(construct, 'attempts below 1 are detected but not replaced by 1', where)
                    elif arg[0] == 'num':
                        r_clamp.violation(construct, 'attempts below 1 are replaced by %s instead of 1' % ai.show(arg), where,
                                          expected='attempt_number = 1', found=ai.show(arg))
                    else:
                        r_clamp.undecided(construct, 'clamped value not recognised')
                else:
                    if arg == pN:
                        r_clamp.ok(construct, 'attempts >= 1 are passed unchanged', where)
                    elif arg[0] == 'num':
                        r_clamp.violation(construct, 'attempts of 1 and more are replaced by the constant %s' % ai.show(arg), where)
                    else:
                        r_clamp.undecided(construct, 'argument of the schedule not recognised')

    r_one = ctx.rule('D2.ONE', 'a credit of exactly 1 leaves the result untouched (no scaling, no note)', floor=1)
    with r_one:
        eq_paths, other = [], []
        for p in live:
            gs = [g for g in p.conds if g[0] == 'cmp' and g[1] in ('==', '!=') and (
                (g[3][0] == 'num' and _is_credit(g[2])) or (g[2][0] == 'num' and _is_credit(g[3])))]
            if gs:
                (eq_paths if gs[0][1] == '==' else other).append((p, gs[0]))
        construct = 'apply_attempt_based_credit: credit == 1'
        early = [p for p in live if p.kind == 'ret' and not any(e[0] == 'store' for e, _ in p.effects)
                 and any(_schedule_calls(t) for t in _path_terms(p))]
        wrong = []
        for p in early:
            for g in p.conds:
                if g[0] == 'cmp' and g[1] == '==' and ai.num(1) in (g[2], g[3]):
                    side = g[3] if g[2] == ai.num(1) else g[2]
                    if not _schedule_calls(side) and ai.mentions(side, pN):
                        wrong.append((p, g))
        if not eq_paths and not other and wrong:
            p, g = wrong[0]
            r_one.violation(construct, 'the exit that leaves the result untouched tests the attempt number (`%s`) instead of the credit: a '
                            'schedule that still grants full credit on a later attempt (LinearCredit with decrease_credit_after > 1, a '
                            'factor/minimum of 1) is then "applied" - every positive grade is multiplied by 1.0, counts as changed and the '
                            'note "Maximum credit for attempt #n is 100%%." is shown although nothing was reduced; and an author schedule '
                            'that reduces credit on the first attempt is ignored' % ai.show(g), lib.loc(fi, p.stmt or fi.node),
                            expected='credit == 1', found=ai.show(g))
        elif not eq_paths and not other and (idx.unreviewed or early):
            r_one.undecided(construct, 'no `credit == 1` decision recognised (%s)' % (
                'an early return under `%s` was not understood' % ' and '.join(ai.show(c) for c in early[0].conds[-1:])[:100] if early
                else 'unreviewed helpers remain'), fi.loc)
        elif not eq_paths and not other:
            r_one.violation(construct, 'the early return for full credit is gone: on a first attempt every positive grade is '
                            '"changed" (multiplied by 1.0) and the note "Maximum credit for attempt #1 is 100%." is shown although '
                            'nothing was reduced', fi.loc, expected='if credit == 1: return')
        for p, g in eq_paths:
            other_side = g[3] if _schedule_calls(g[2]) else g[2]
            where = lib.loc(fi, p.stmt or fi.node)
            if other_side != ai.num(1):
                r_one.violation(construct, 'the untouched case is `%s` instead of credit == 1' % ai.show(g), where,
                                expected='credit == 1', found=ai.show(other_side))
            elif p.kind != 'ret':
                r_one.violation(construct, 'with credit 1 the function goes on scaling and may add the note', where)
            elif any(e[0] == 'store' for e, _ in p.effects):
                r_one.violation(construct, 'the result is modified although the credit is 1', where)
            else:
                r_one.ok(construct, 'returns before any modification', where)
                break

    d2_scale(ctx, idx, fi, R, N)
    d2_note(ctx, idx, fi, R, N)
    d2_same(ctx, idx, fi, R, N)
    d2_okmap(ctx, idx)


ROUNDERS = {'round', 'int', 'math.floor', 'math.ceil', 'math.trunc', 'numpy.round', 'numpy.around', 'numpy.floor', 'numpy.ceil',
            'numpy.trunc', 'numpy.rint'}


def d2_okmap(ctx, idx):
    """apply_attempt_based_credit stores grade * credit and asks grade_decimal_to_ok(that value) for ok (D2.SCALE): the map must
    decide on the value itself.  A rounded / truncated copy disagrees with the stored grade for small products (grade * credit
    < 5e-5 rounds to 0 -> ok False with a positive grade_decimal)."""
    r = ctx.rule('D2.OKMAP', 'grade_decimal_to_ok decides on the very value that is stored as grade_decimal (no rounding in between)', floor=1)
    with r:
        fi = idx.func(AG + '.grade_decimal_to_ok')
        params = fi.params if fi.is_static else fi.params[1:]
        if len(params) != 1:
            raise AnalysisError('grade_decimal_to_ok should take one argument')
        g = ('param', params[0])
        try:
            paths = ai.sym_exec(idx, fi)
        except Unsupported as e:
            raise AnalysisError('grade_decimal_to_ok: %s' % e)
        terms = [t for p in paths for t in list(p.conds) + ([p.value] if p.value is not None else [])]
        uses = [s_ for t in terms for s_ in ai.subterms(t) if s_ == g]
        wrapped = [s_ for t in terms for s_ in ai.subterms(t) if s_[0] == 'call' and s_[1] in ROUNDERS and s_[2] and ai.mentions(s_[2][0], g)]
        construct = 'AbstractGrader.grade_decimal_to_ok'
        if wrapped:
            r.violation(construct, 'ok is decided on `%s`, not on the grade itself: after attempt-based scaling a small product '
                        '(grade * credit < 5e-5, e.g. grade 0.0004 at credit 0.1) rounds to 0, so ok becomes False while the stored '
                        'grade_decimal stays positive - every grade strictly between 0 and 1 must give ok=\'partial\'' % ai.show(wrapped[0]),
                        fi.loc, expected='{0: False, 1: True}.get(grade, \'partial\')', found=ai.show(wrapped[0]))
        elif uses:
            r.ok(construct, 'the argument is used unmodified', fi.loc)
        else:
            r.undecided(construct, 'the argument does not appear in the decision', fi.loc)


def _layers(t):
    """(normalisation layers outermost first, innermost term) of a credit value: round(float(x), 4) -> (['round','float'], x)."""
    out = []
    while t[0] == 'call' and t[1] in ('round', 'float') and t[2]:
        out.append(t[1])
        t = t[2][0]
    return out, t


def d2_same(ctx, idx, fi, R, N):
    r = ctx.rule('D2.SAME', 'the credit compared with 1 for the early exit is the same value that multiplies the grades (every '
                 'float()/round() normalisation precedes the test)', floor=1)
    with r:
        mult = sorted(getattr(fi, '_c17_mult', set()), key=str)
        if not mult:
            raise AnalysisError('the local that multiplies the grades was not identified (D2.SCALE)')
        try:
            paths = ai.sym_exec(idx, fi, loops='opaque')
        except Unsupported as e:
            raise AnalysisError(str(e))
        seen = set()
        for p in paths:
            if p.kind not in ('fall', 'ret'):
                continue
            tested = [(g[2] if _is_credit(g[2]) else g[3]) for g in p.conds if g[0] == 'cmp' and g[1] == '!=' and
                      ((g[3] == ai.num(1) and _is_credit(g[2])) or (g[2] == ai.num(1) and _is_credit(g[3])))]
            if not tested:
                continue
            T = tested[0]
            for name in mult:
                V = name if isinstance(name, tuple) else p.env.get(name)
                if V is None or (ai.show(T), ai.show(V)) in seen:
                    continue
                if isinstance(name, tuple) and _schedule_calls(V) and _schedule_calls(T) and \
                        _schedule_calls(V)[0][3] != _schedule_calls(T)[0][3]:
                    continue          # the same expression on the path with the other (clamped / unclamped) attempt value
                seen.add((ai.show(T), ai.show(V)))
                construct = 'apply_attempt_based_credit: credit tested vs credit applied (%s)' % (
                    name if not isinstance(name, tuple) else 'value of the schedule')
                where = lib.loc(fi, p.stmt or fi.node)
                lt, it_ = _layers(T)
                lv, iv = _layers(V)
                if V == T:
                    r.ok(construct, 'both are `%s`' % ai.show(T), where)
                elif _is_credit(V) and it_ == iv and len(lv) > len(lt) and lv[len(lv) - len(lt):] == lt and 'round' in lv[:len(lv) - len(lt)]:
                    r.violation(construct, 'the early exit tests `%s == 1` but the grades are multiplied by `%s`: the rounding happens after '
                                'the test, so a schedule value in [0.99995, 1) is not caught by the exit, is then rounded to 1.0, every '
                                'positive grade is "changed" (multiplied by 1.0) and the note "Maximum credit for attempt #n is 100%%." is '
                                'shown although no grade was reduced' % (ai.show(T), ai.show(V)), where,
                                expected='round(float(credit), 4) before `if credit == 1: return`', found='test on `%s`' % ai.show(T))
                else:
                    r.undecided(construct, 'tested value `%s` and applied value `%s` differ in a way that was not reviewed' % (ai.show(T), ai.show(V)), where)


def _credit_names(fi, idx=None):
    """Local names that hold the (float/round-normalised) value of the schedule call on some path."""
    cached = getattr(fi, '_c17_credits', None)
    if cached is not None:
        return cached
    names = set()
    if idx is not None:
        try:
            for p in ai.sym_exec(idx, fi, loops='opaque'):
                for k, v in p.env.items():
                    if _is_credit(v):
                        names.add(k)
        except Unsupported:
            pass
    fi._c17_credits = names
    return names


def _branch_of(node, fi, pred):
    """('body'|'orelse', If) for the nearest enclosing If whose test satisfies pred, else (None, None)."""
    from ..index import ancestors
    child = node
    for a in ancestors(node):
        if isinstance(a, ast.If) and pred(a.test):
            if any(child is s for s in a.body):
                return 'body', a
            if any(child is s for s in a.orelse):
                return 'orelse', a
        if a is fi.node:
            break
        child = a
    return None, None


def _truthy_update(name, v):
    """Is env value v of local `name` a definite 'something changed' mark: True, or the old value plus a positive constant?"""
    if v == ('bool', True):
        return True
    if v[0] == 'add' and {v[1], v[2]} & {('param', name)}:
        other = v[2] if v[1] == ('param', name) else v[1]
        return other[0] == 'num' and other[1] > 0
    if v[0] == 'num' and v[1] > 0:
        return True
    return False


def _marks(p, init_env, init_store, pX):
    """Names (locals, or `obj.attr` of an object other than the entry) that the path updates to a definite 'changed' mark."""
    out = {}
    for k, v in p.env.items():
        old = init_env.get(k, ('param', k))
        if v == old:
            continue
        if v == ('bool', True) or (v[0] == 'num' and v[1] > 0) or \
                (v[0] == 'add' and ((v[1] == old and v[2][0] == 'num' and v[2][1] > 0) or (v[2] == old and v[1][0] == 'num' and v[1][1] > 0))):
            out[k] = None
    for k, v in p.store.items():
        if k[0] == 'attr' and k[1] != pX and init_store.get(k) != v and (v == ('bool', True) or (v[0] == 'num' and v[1] > 0)):
            out[ai.show(k) if k[1][0] != 'call' else '%s.%s' % (k[1][1].split('.')[-1], k[2])] = k
    return out


def _entry_body(r, idx, fi, stmts, X, kind, credits, where, env=None, returns_flag=False, owner=None, store=None, trusted=True):
    """Check the per-entry work (statements `stmts` acting on entry X): exactly the entries with grade > 0 are scaled.
    Returns the set of local names that record 'an entry changed'."""
    pX = ('param', X)
    G = ('index', pX, ('str', 'grade_decimal'))
    okloc = ('index', pX, ('str', 'ok'))
    construct = 'apply_attempt_based_credit [%s result]' % kind
    init_env, init_store = dict(env or {}), dict(store or {})
    try:
        paths = ai.sym_exec(idx, fi, stmts=stmts, env=env, store=store)
    except Unsupported as e:
        r.undecided(construct + ': body', str(e), where)
        return set()
    owner = owner or fi
    if not hasattr(owner, '_c17_flag_keys'):
        owner._c17_flag_keys = {}
    iscred = lambda x: (x[0] == 'param' and x[1] in credits) or _is_credit(x)       # noqa: E731
    if not hasattr(owner, '_c17_mult'):
        owner._c17_mult = set()
    flags = None
    seen_pos = seen_nonpos = False
    for p in paths:
        if returns_flag:
            if p.kind != 'ret' or p.value[0] not in ('bool', 'num'):
                r.undecided(construct + ': body', 'a path of the per-entry helper does not return a constant flag', where)
                continue
            p.env = dict(p.env)
            p.env['<changed>'] = ('bool', bool(p.value[1]))
        elif p.kind not in ('fall', 'continue'):
            r.undecided(construct + ': body', 'a path of the per-entry work %s' % p.kind, where)
            continue
        gconds = [c for g in p.conds for c in ai.t_conjuncts(g) if ai.mentions(c, G)]
        pos = ('cmp', '<', ai.num(0), G) in gconds
        nonpos = ('cmp', '<=', G, ai.num(0)) in gconds
        incl_zero = [c for c in gconds if c in (('cmp', '<=', ai.num(0), G), ('cmp', '<', G, ai.num(0)))]
        stored = p.store.get(G)
        touched = any(k[0] == 'index' and k[1] == pX for k in p.store)
        if incl_zero:
            if incl_zero[0][1] == '<=' and touched:
                r.violation(construct + ': guard', 'entries are scaled under `%s`: an entry with grade 0 counts as "changed" (the note is '
                            'shown although no grade was reduced)' % ai.show(incl_zero[0]), where, expected='grade_decimal > 0',
                            found=ai.show(incl_zero[0]))
            elif incl_zero[0][1] == '<' and not touched and not nonpos:
                pass        # the complement of a `>= 0` guard: reported on the other path
            continue
        if not gconds:
            if touched and trusted:
                r.violation(construct + ': guard', 'the entry is modified without testing grade_decimal > 0: zero grades count as changed', where,
                            expected='if grade_decimal > 0')
            elif touched:
                r.undecided(construct + ': guard', 'no test of grade_decimal found here; the entries come from an iterable that was not understood '
                            '(it may already select the positive grades)', where)
            continue
        if not (pos or nonpos):
            r.undecided(construct + ': guard', 'grade condition `%s` not recognised' % ai.show(gconds[0]), where)
            continue
        if nonpos:
            seen_nonpos = True
            if touched:
                r.violation(construct + ': zero grades', 'entries whose grade is not positive are modified as well', where)
            marks = set(_marks(p, init_env, init_store, pX))
            if marks and flags is not None and marks & flags:
                r.violation(construct + ': flag', 'an entry whose grade is not positive is recorded as changed (%s)' % ', '.join(sorted(marks & flags)), where)
            continue
        seen_pos = True
        r.ok(construct + ': guard', 'grade_decimal > 0', where)
        prod_ok = stored is not None and stored[0] == 'mul' and ((stored[1] == G and iscred(stored[2])) or (stored[2] == G and iscred(stored[1])))
        if stored is None:
            r.violation(construct + ': product', 'the new grade is never stored back into grade_decimal', where,
                        expected="%s['grade_decimal'] * credit" % X)
        elif prod_ok:
            m_ = stored[2] if stored[1] == G else stored[1]
            owner._c17_mult.add(m_[1] if m_[0] == 'param' else m_)
            r.ok(construct + ': product', 'grade_decimal := grade_decimal * credit', where)
        elif any(iscred(s) for s in ai.subterms(stored)) and any(s == G for s in ai.subterms(stored)):
            r.violation(construct + ': product', 'the new grade is `%s`, not grade * credit' % ai.show(stored), where,
                        expected="%s['grade_decimal'] * credit" % X, found=ai.show(stored))
        elif iscred(stored):
            r.violation(construct + ': product', 'the stored grade `%s` does not combine the old grade with the credit' % ai.show(stored),
                        where, expected="%s['grade_decimal'] * credit" % X, found=ai.show(stored))
        else:
            r.undecided(construct + ': product', 'stored grade `%s` not recognised' % ai.show(stored), where)
        okv = p.store.get(okloc)
        if okv is None:
            r.violation(construct + ': ok', 'ok is not recomputed after scaling: a full-credit answer keeps ok=True with a grade below 1',
                        where, expected="%s['ok'] = self.grade_decimal_to_ok(grade)" % X)
        elif okv[0] in ('meth', 'call') and (okv[2] if okv[0] == 'meth' else okv[1]).split('.')[-1] == 'grade_decimal_to_ok':
            args = okv[3] if okv[0] == 'meth' else okv[2]
            if len(args) == 1 and stored is not None and args[0] == stored:
                r.ok(construct + ': ok', 'ok := grade_decimal_to_ok(new grade)', where)
            elif len(args) == 1 and args[0] == G:
                r.violation(construct + ': ok', 'ok is recomputed from the grade *before* scaling', where,
                            expected='grade_decimal_to_ok(new grade)', found=ai.show(okv))
            else:
                r.undecided(construct + ': ok', 'ok is recomputed from `%s`' % ai.show(args[0] if args else okv), where)
        else:
            r.undecided(construct + ': ok', 'ok is set to `%s`' % ai.show(okv), where)
        mk = _marks(p, init_env, init_store, pX)
        marks = set(mk)
        owner._c17_flag_keys.update({k: v for k, v in mk.items() if v is not None})
        flags = marks if flags is None else flags & marks
        if marks:
            r.ok(construct + ': flag', 'a scaled entry is recorded (%s)' % ', '.join(sorted(marks)), where)
        else:
            r.violation(construct + ': flag', 'a reduced grade is not recorded (no flag/counter is updated), so the note about the maximum '
                        'credit is not shown', where)
    if not seen_pos:
        r.undecided(construct + ': guard', 'no path for entries with a positive grade was recognised', where)
    return flags or set()


def _desugar_generator_loop(idx, fi, loop):
    """`for x in self._gen(args): BODY` where _gen is a generator method of the shape
    `<assignments>; for e in ITER: [if COND:] yield e`  ==  `for x in ITER': [if COND':] BODY`.
    Returns (iterable expression, body statements); the loop's own when it is not of that shape."""
    it = loop.iter
    if not (isinstance(it, ast.Call) and isinstance(it.func, ast.Attribute) and isinstance(it.func.value, ast.Name)
            and not it.keywords and isinstance(loop.target, ast.Name) and fi.cls is not None):
        return loop.iter, loop.body
    callee = idx.lookup(fi.cls, it.func.attr)
    if callee is None or not any(isinstance(n, (ast.Yield, ast.YieldFrom)) for n in ast.walk(callee.node)):
        return loop.iter, loop.body
    params = callee.params if callee.is_static else callee.params[1:]
    if len(params) != len(it.args) or callee.node.args.vararg or callee.node.args.kwarg:
        return loop.iter, loop.body
    env = dict(zip(params, it.args))
    if not callee.is_static and callee.params:
        env[callee.params[0]] = it.func.value
    stmts = [s_ for s_ in callee.node.body if not (isinstance(s_, ast.Expr) and isinstance(s_.value, ast.Constant))]
    inner = None
    for k, st in enumerate(stmts):
        if isinstance(st, ast.Assign) and len(st.targets) == 1 and isinstance(st.targets[0], ast.Name):
            env[st.targets[0].id] = nf.subst(st.value, env)
            continue
        if isinstance(st, ast.For) and k == len(stmts) - 1 and not st.orelse and isinstance(st.target, ast.Name):
            inner = st
            break
        return loop.iter, loop.body
    if inner is None:
        return loop.iter, loop.body

    def is_yield_of_target(b):
        return len(b) == 1 and isinstance(b[0], ast.Expr) and isinstance(b[0].value, ast.Yield) and \
            isinstance(b[0].value.value, ast.Name) and b[0].value.value.id == inner.target.id
    env_x = dict(env)
    env_x[inner.target.id] = ast.Name(id=loop.target.id, ctx=ast.Load())
    if is_yield_of_target(inner.body):
        return nf.subst(inner.iter, env), loop.body
    if len(inner.body) == 1 and isinstance(inner.body[0], ast.If) and not inner.body[0].orelse and is_yield_of_target(inner.body[0].body):
        test = nf.subst(inner.body[0].test, env_x)
        return nf.subst(inner.iter, env), [ast.If(test=test, body=list(loop.body), orelse=[])]
    return loop.iter, loop.body


def _iterable_kinds(r, tb, fi, iter_node, pR, in_list, anchor, where):
    """Which results does a loop / comprehension over `iter_node` serve?  [] when it must not be trusted."""
    in_list_t = ('cmp', 'in', ('str', 'input_list'), pR)
    it = tb.build(lib.inline_locals(iter_node, fi.node), {})
    lst = ('index', pR, ('str', 'input_list'))
    single = ('list', (pR,))
    if it == lst:
        br, _ = _branch_of(anchor, fi, in_list)
        if br == 'body':
            r.ok('scaling loop: iterable', "result['input_list'] under 'input_list' in result", where)
            return ['list']
        if br == 'orelse':
            r.violation('scaling loop: iterable', "the loop over result['input_list'] runs when 'input_list' is NOT in result", where)
            return []
        r.undecided('scaling loop: iterable', "not guarded by 'input_list' in result", where)
        return ['list']
    if it in (('ifexp', in_list_t, lst, single), ('ifexp', ai.t_not(in_list_t), single, lst)):
        r.ok('scaling loop: iterable', "result['input_list'] if 'input_list' in result else [result]", where)
        return ['list', 'single']
    if it[0] == 'index' and it[1] == lst:
        r.violation('scaling loop: iterable', 'the loop iterates over `%s`, a part of result[\'input_list\']: the other inputs keep '
                    'their unscaled grade' % ai.show(it), where, expected="result['input_list']", found=ai.show(it))
        return []
    # the iterable may be chosen per branch (`entries, key = (result['input_list'], ...)` / `([result], ...)`): decide it on every
    # path of the whole function, under that path's decision about 'input_list' in result
    try:
        fpaths = [p for p in ai.sym_exec(tb.idx, fi, loops='opaque') if p.kind in ('fall', 'ret')]
    except Unsupported:
        fpaths = []
    seen_kinds, okay = set(), bool(fpaths)
    for p in fpaths:
        names = {n.id for n in ast.walk(iter_node) if isinstance(n, ast.Name)}
        if not all(n in p.env or n == pR[1] for n in names):
            continue                     # the path ends before the iterable is bound (early exits)
        itp = tb.build(iter_node, p.env)
        if in_list_t in p.conds and itp == lst:
            seen_kinds.add('list')
        elif ai.t_not(in_list_t) in p.conds and itp == single:
            seen_kinds.add('single')
        else:
            okay = False
            it = itp
    if okay and seen_kinds == {'list', 'single'}:
        r.ok('scaling loop: iterable', "result['input_list'] when 'input_list' in result, else [result] (chosen per branch)", where)
        return ['list', 'single']
    r.undecided('scaling loop: iterable', 'iterable `%s` not recognised' % ai.show(it), where)
    return []


def d2_scale(ctx, idx, fi, R, N):
    r = ctx.rule('D2.SCALE', 'exactly the entries with grade > 0 are multiplied by the credit and get ok recomputed '
                 '(list and single results)', floor=6)
    pR = ('param', R)
    tb = ai.TermBuilder(idx, fi)
    fi._c17_flags = set()
    with r:
        credits = _credit_names(fi, idx)        # may be empty: the credit can live in an object field / be used as an expression
        in_list_t = ('cmp', 'in', ('str', 'input_list'), pR)
        in_list = lambda test: tb.build(lib.inline_locals(test, fi.node), {}) == in_list_t    # noqa: E731
        from ..index import ancestors
        served = set()
        flags = set()
        site_nodes = set()
        n_sites = 0
        cap = {id(n): None for n in walk_own(fi.node) if isinstance(n, (ast.For, ast.While, ast.If))}
        try:
            ai.sym_exec(idx, fi, loops='opaque', capture=cap)
        except Unsupported:
            pass

        def at(node):
            got = cap.get(id(node))
            return got if got is not None else ({}, {})
        # --- loops over entries
        for loop in [n for n in walk_own(fi.node) if isinstance(n, (ast.For, ast.While))]:
            if not any(lib.subscript_key(x) == 'grade_decimal' for x in ast.walk(loop)):
                continue
            where = lib.loc(fi, loop)
            if not (isinstance(loop, ast.For) and isinstance(loop.target, ast.Name)):
                r.undecided('scaling loop', 'loop form not recognised', where)
                continue
            X = loop.target.id
            n_sites += 1
            loop_iter, loop_body = _desugar_generator_loop(idx, fi, loop)
            kinds = _iterable_kinds(r, tb, fi, loop_iter, pR, in_list, loop, where)
            site_nodes |= {id(x) for b in loop.body for x in ast.walk(b)}
            exits = [x for x in lib.loop_has_early_exit(loop) if not isinstance(x, ast.Continue)]
            if exits:
                r.violation('scaling loop: exhaustive', 'the loop over the inputs can stop early (%s): later inputs keep their unscaled grade'
                            % type(exits[0]).__name__, lib.loc(fi, exits[0]))
                continue
            r.ok('scaling loop: exhaustive', 'no break/continue/return in the loop', where)
            served |= set(kinds)
            site_nodes |= {id(x) for b in loop.body for x in ast.walk(b)}
            e0, s0 = at(loop)
            e0 = {k: v for k, v in e0.items() if k != X}
            flags |= _entry_body(r, idx, fi, loop_body, X, '/'.join(kinds) or 'list', credits, where, env=e0, store=s0,
                                 trusted=bool(kinds))
        # --- comprehensions that apply a per-entry helper of the class: [self._helper(entry, credit) for entry in entries]
        for comp in [n for n in walk_own(fi.node) if isinstance(n, (ast.ListComp, ast.GeneratorExp, ast.SetComp))]:
            if len(comp.generators) != 1 or comp.generators[0].ifs or not isinstance(comp.generators[0].target, ast.Name):
                continue
            call = comp.elt
            if not (isinstance(call, ast.Call) and isinstance(call.func, ast.Attribute) and isinstance(call.func.value, ast.Name)
                    and call.func.value.id == fi.params[0] and not call.keywords and all(isinstance(a_, ast.Name) for a_ in call.args)):
                continue
            callee = idx.lookup(fi.cls, call.func.attr) if fi.cls is not None else None
            if callee is None or not any(lib.subscript_key(x) == 'grade_decimal' for x in ast.walk(callee.node)):
                continue
            where = lib.loc(fi, comp)
            X = comp.generators[0].target.id
            params = callee.params[1:]
            if len(params) != len(call.args) or X not in [a_.id for a_ in call.args]:
                r.undecided('scaling comprehension', 'arguments of self.%s not recognised' % call.func.attr, where)
                continue
            n_sites += 1
            kinds = _iterable_kinds(r, tb, fi, comp.generators[0].iter, pR, in_list, comp, where)
            r.ok('scaling loop: exhaustive', 'a comprehension visits every entry', where)
            served |= set(kinds)
            env = {pn: ('param', a_.id) for pn, a_ in zip(params, call.args)}
            marks = _entry_body(r, idx, callee, callee.node.body, X, '/'.join(kinds) or 'list', credits, where, env=env,
                                returns_flag=True, owner=fi)
            if '<changed>' in marks:
                if not hasattr(fi, '_c17_comp_helpers'):
                    fi._c17_comp_helpers = set()
                fi._c17_comp_helpers.add(call.func.attr)
                # the local that aggregates the helper's results: F = any(<this comprehension>)
                want = unparse(lib.inline_locals(comp, fi.node))
                for n in walk_own(fi.node):
                    if isinstance(n, ast.Assign) and len(n.targets) == 1 and isinstance(n.targets[0], ast.Name) and isinstance(n.value, ast.Call) \
                            and nf.callee_name(n.value) == 'any' and len(n.value.args) == 1 \
                            and unparse(lib.inline_locals(n.value.args[0], fi.node)) == want:
                        flags.add(n.targets[0].id)
                        site_nodes.add(id(n))
        # --- the result itself (single input), outside any loop
        for site in [n for n in walk_own(fi.node) if isinstance(n, ast.If)]:
            if any(isinstance(a, (ast.For, ast.While)) for a in ancestors(site)):
                continue
            t = nf.canon(site.test)
            sub = [x for x in ast.walk(t) if lib.subscript_key(x) == 'grade_decimal' and isinstance(x.value, ast.Name) and x.value.id == R]
            if not sub:
                continue
            n_sites += 1
            where = lib.loc(fi, site)
            br, _ = _branch_of(site, fi, in_list)
            if br == 'orelse':
                r.ok('apply_attempt_based_credit [single result]: branch', "'input_list' not in result", where)
                served.add('single')
            elif br == 'body':
                r.violation('apply_attempt_based_credit [single result]: branch', "the single-result scaling runs when 'input_list' is in result", where)
            else:
                r.undecided('apply_attempt_based_credit [single result]: branch', "not selected by 'input_list' in result", where)
            site_nodes |= {id(x) for x in ast.walk(site)}
            e0, s0 = at(site)
            flags |= _entry_body(r, idx, fi, [site], R, 'single', credits, where, env=e0, store=s0)
        if n_sites == 0:
            if idx.unreviewed:
                r.undecided('apply_attempt_based_credit', 'no scaling of grade_decimal found here; unreviewed helpers remain: %s' % list(idx.unreviewed), fi.loc)
            else:
                r.violation('apply_attempt_based_credit', 'nothing in the function reads or scales grade_decimal: grades are not multiplied '
                            'by the credit', fi.loc)
            return
        for kind in ('list', 'single'):
            if kind not in served:
                r.undecided('apply_attempt_based_credit [%s result]' % kind, 'no recognised scaling site serves %s results' % kind, fi.loc)
        # --- the flag starts falsy, outside the sites
        flags = {f for f in flags if not f.startswith('_inl')} or flags
        fi._c17_flags = flags
        fi._c17_site_nodes = site_nodes
        for flag in sorted(flags):
            inits = [n for n in walk_own(fi.node) if isinstance(n, ast.Assign) and any(isinstance(t_, ast.Name) and t_.id == flag for t_ in n.targets)
                     and id(n) not in site_nodes]
            if not inits:
                continue
            bad = [n for n in inits if nf.const_value(n.value, 'x') not in (False, 0)]
            if bad:
                r.violation('apply_attempt_based_credit: %s' % flag, 'the flag starts as `%s` outside the scaling branches: the note '
                            'appears although no grade was reduced' % short(bad[0].value), lib.loc(fi, bad[0]), expected='False')
            else:
                cfg = cfg_of(fi.node)
                doms = [x for n in inits for x in cfg.nodes_of(n)]
                tgts = [x for n in walk_own(fi.node) if id(n) in site_nodes and isinstance(n, ast.stmt) for x in cfg.nodes_of(n)]
                r.check(cfg.dominates(doms, tgts), 'apply_attempt_based_credit: %s' % flag, 'initialised to %s before the scaling' % short(inits[0].value),
                        'the initialisation does not precede the scaling on every path', lib.loc(fi, inits[0]))


def _resolve(t, asg):
    """Replace conditional expressions whose condition is decided under the assignment by the chosen branch."""
    if not isinstance(t, tuple) or not t or not isinstance(t[0], str):
        return t
    if t[0] == 'ifexp':
        c = ai.enum_eval(t[1], asg)
        if c is not ai.UNK:
            return _resolve(t[2] if c else t[3], asg)
    out = []
    for x in t:
        if isinstance(x, tuple) and x and isinstance(x[0], str):
            out.append(_resolve(x, asg))
        elif isinstance(x, tuple):
            out.append(tuple(_resolve(y, asg) if (isinstance(y, tuple) and y and isinstance(y[0], str) and not (len(y) == 2 and isinstance(y[1], tuple) and y[0].isidentifier() and y[1] and isinstance(y[1][0], str) and False)) else y for y in x))
        else:
            out.append(x)
    return tuple(out)


def _note_value(v):
    """(previous-text term, format call term) if v == prev + '<template>'.format(...), else None."""
    if v[0] == 'add' and v[2][0] == 'meth' and v[2][2] == 'format' and v[2][1][0] == 'str':
        return v[1], v[2]
    return None


def d2_note(ctx, idx, fi, R, N):
    r = ctx.rule('D2.NOTE', "the note 'Maximum credit for attempt #n is p%.' is appended iff the flag is on and a grade changed",
                 floor=6)
    pR, pN = ('param', R), ('param', N)
    with r:
        credits = _credit_names(fi, idx)
        flags = sorted(getattr(fi, '_c17_flags', set()))
        try:
            paths = ai.sym_exec(idx, fi, loops='opaque')
        except Unsupported as e:
            raise AnalysisError(str(e))
        flag, flag_atom = None, None
        if len(flags) == 1:
            flag = flags[0]
        elif not flags:
            # `any(<comprehension applying the per-entry helper>)` used directly in the condition
            helpers = getattr(fi, '_c17_comp_helpers', set())
            atoms = {s_ for p in paths for g in p.conds for s_ in ai.subterms(g)
                     if s_[0] == 'call' and s_[1] == 'any' and len(s_[2]) == 1 and s_[2][0][0] == 'opaque'
                     and s_[2][0][1].split(':')[0] in ('ListComp', 'GeneratorExp') and any(h in s_[2][0][1] for h in helpers)}
            if len(atoms) == 1:
                flag_atom = next(iter(atoms))
        if flag is None and flag_atom is None:
            raise AnalysisError('cannot identify the local that records a changed grade (candidates: %s)' % flags)
        in_list_t = ('cmp', 'in', ('str', 'input_list'), pR)
        msg_t = ('cfg', 'attempt_based_credit_msg')
        live = [p for p in paths if p.kind in ('fall', 'ret') and not any(
            g == ('cmp', 'is', pN, ('none',)) or (g[0] == 'cmp' and g[1] == '==' and ai.num(1) in (g[2], g[3]) and
                                                  (_is_credit(g[2]) or _is_credit(g[3]))) for g in p.conds)]
        if not live:
            raise AnalysisError('no path reaches the end of apply_attempt_based_credit')
        def written(p, asg):
            """{key: value term} of the result messages the path extends with the note."""
            out = {}
            for k, v in p.store.items():
                if k[0] == 'index' and k[1] == pR:
                    nv = _note_value(v)
                    if nv is None and not any(s[0] == 'str' and 'Maximum credit' in s[1] for s in ai.subterms(v)):
                        continue
                    key = ai.enum_eval(k[2], asg)
                    out[key if key is not ai.UNK else ai.show(k[2])] = _resolve(v, asg)
            return out

        table = {}
        problems = []
        text_checked = set()
        okseen = set()
        for p in live:
            fkeyterm = getattr(fi, '_c17_flag_keys', {}).get(flag) if flag is not None else None
            if fkeyterm is not None and fkeyterm not in p.store:
                # the same field of the same kind of object on this path (the object term differs with the path's values)
                same = [k for k in p.store if k[0] == 'attr' and k[2] == fkeyterm[2] and k[1][0] == fkeyterm[1][0]
                        and (k[1][0] != 'call' or k[1][1] == fkeyterm[1][1])]
                if len(same) == 1:
                    fkeyterm = same[0]
            ft = flag_atom if flag is None else (p.store.get(fkeyterm, fkeyterm) if fkeyterm is not None else p.env.get(flag, ('param', flag)))
            if flag is None:
                fvals, fkey = [False, True], flag_atom
            elif ft[0] == 'bool':
                fvals = [ft[1]]
                fkey = None
            elif fkeyterm is not None and ft[0] != 'bool' and ft[0] != 'num':
                fvals, fkey = [False, True], ft
            elif ft[0] == 'opaque' or ft == ('param', flag):
                init = [n for n in walk_own(fi.node) if isinstance(n, ast.Assign) and any(isinstance(t_, ast.Name) and t_.id == flag for t_ in n.targets)
                        and isinstance(n.value, ast.Constant)]
                counter = bool(init) and not isinstance(init[0].value.value, bool)
                fvals = [0, 1, 2] if counter else [False, True]
                fkey = ft
            else:
                try:
                    fvals = [ai.concrete(ft, {})]
                    fkey = None
                except (Unsupported, ZeroDivisionError):
                    fvals = [False, True]          # an aggregate such as any(...): either truth value is possible
                    fkey = ft
            for m in (False, True):
                for fv in fvals:
                    for lst in (False, True):
                        asg = {'attempt_based_credit_msg': m, in_list_t: lst, ai.t_not(in_list_t): not lst}
                        if fkey is not None:
                            asg[fkey] = fv
                        vals = [ai.enum_eval(g, asg) for g in p.conds]
                        if any(v is not ai.UNK and not v for v in vals):
                            continue
                        w = written(p, asg)
                        want_note = bool(m and fv)
                        want_key = 'overall_message' if lst else 'msg'
                        case = (m, bool(fv), lst)
                        table.setdefault(case, []).append(bool(w))
                        where = lib.loc(fi, p.stmt or fi.node)
                        if w and not want_note:
                            problems.append(('spurious', case, where))
                        elif not w and want_note:
                            problems.append(('missing', case, where))
                        elif w and set(w) != {want_key}:
                            problems.append(('key', case, where, sorted(map(str, w)), want_key))
                        elif w:
                            sig = ai.show(w[want_key])
                            if sig not in text_checked:
                                text_checked.add(sig)
                                _note_text(r, w[want_key], ('index', pR, ('str', want_key)), pN, credits, want_key, where, p, okseen)
        shown = set()
        for pr in problems:
            kind, case = pr[0], pr[1]
            if (kind, case[:2]) in shown:
                continue
            shown.add((kind, case[:2]))
            m, f, lst = case
            sit = 'message option %s, %s' % ('on' if m else 'off', 'a grade was reduced' if f else 'no grade was reduced')
            if kind == 'spurious':
                r.violation('apply_attempt_based_credit: note condition', 'the note is appended although %s: it must be added exactly when the '
                            'option is on AND some grade was reduced' % sit, pr[2], expected="attempt_based_credit_msg and changed_result")
            elif kind == 'missing' and idx.unreviewed:
                r.undecided('apply_attempt_based_credit: note condition', 'no note found for %s; unreviewed helpers remain: %s' % (sit, list(idx.unreviewed)), pr[2])
            elif kind == 'missing':
                r.violation('apply_attempt_based_credit: note condition', 'the note is not appended although %s' % sit, pr[2],
                            expected="attempt_based_credit_msg and changed_result")
            else:
                r.violation('note for %s results: key' % ('list' if lst else 'single'), 'the note goes to %s instead of result[%r] (edX shows %r '
                            'for %s results)' % (pr[3], pr[4], pr[4], 'list' if lst else 'single'), pr[2], expected=pr[4], found=', '.join(pr[3]))
        if not problems:
            for m in (False, True):
                for f in (False, True):
                    got = [x for (mm, ff, ll), xs in table.items() if mm == m and ff == f for x in xs]
                    if not got:
                        r.undecided('apply_attempt_based_credit: note condition', 'no path for option=%s, changed=%s' % (m, f), fi.loc)
                    else:
                        r.ok('apply_attempt_based_credit: note [option %s, %s]' % ('on' if m else 'off', 'changed' if f else 'unchanged'),
                             'note %s on every such path' % ('appended' if (m and f) else 'absent'), fi.loc)


def _note_text(r, V, cur, pN, credits, want, where, p, okseen):
    label = 'note text -> result[%r]' % want
    iscred = lambda x: (x[0] == 'param' and x[1] in credits) or _is_credit(x)     # noqa: E731
    nv = _note_value(V)
    if nv is None:
        r.undecided(label, 'appended value `%s` not recognised' % ai.show(V)[:100], where)
        return
    prev, fmt = nv
    if prev not in (cur, ('add', cur, ('str', '\n\n'))):
        r.undecided(label, 'text in front of the note `%s` not recognised' % ai.show(prev), where)
        return
    template, args = fmt[1][1], fmt[3]
    # positional template: 'Maximum credit for attempt #{} is {}%.'
    if template != NOTE_FORMAT:
        r.violation(label, 'the note text is %r' % template, where, expected=NOTE_FORMAT, found=template)
        return
    pct = len(args) == 2 and any(s[0] == 'mul' and (iscred(s[1]) or iscred(s[2]))
                                 and ai.num(100) in (s[1], s[2]) for s in ai.subterms(args[1]))
    attempts = {pN, ai.num(1)} | {c[3][0] for a in args for c in _schedule_calls(a) if len(c[3]) == 1}
    first_ok = len(args) == 2 and args[0] in attempts
    if first_ok and pct:
        if want not in okseen:
            okseen.add(want)
            r.ok(label, 'format(attempt, credit*100) appended', where)
    elif len(args) == 2 and args[1] in attempts and any(iscred(s) for s in ai.subterms(args[0])):
        r.violation(label, 'the attempt number and the percentage are swapped in the note', where)
    elif first_ok and any(s[0] == 'mul' and (iscred(s[1]) or iscred(s[2])) and (s[1][0] == 'num' or s[2][0] == 'num')
                          for s in ai.subterms(args[1])):
        r.violation(label, 'the percentage `%s` is not credit * 100' % ai.show(args[1]), where, expected='credit * 100', found=ai.show(args[1]))
    else:
        r.undecided(label, 'note arguments `%s` not recognised' % ', '.join(ai.show(a) for a in args), where)


# ----------------------------------------------------------------------------- D3
def d3_call(ctx, idx):
    r = ctx.rule('D3.CALL', "__call__ applies the credit iff config['attempt_based_credit'], with kwargs.get('attempt')", floor=4)
    with r:
        fi = idx.func(AG + '.__call__')
        sites = []
        for f in idx.package_funcs():
            for c in lib.calls_named(f.node, 'apply_attempt_based_credit', own=False):
                sites.append((f, c))
        here = [(f, c) for f, c in sites if f is fi]
        elsewhere = [(f, c) for f, c in sites if f is not fi]
        for f, c in elsewhere:
            r.violation('%s: apply_attempt_based_credit' % f.qualname, 'the credit is applied from a second place: a result that also '
                        'passes through AbstractGrader.__call__ is scaled twice', lib.loc(f, c))
        if not here and (elsewhere or idx.unreviewed):
            r.undecided('AbstractGrader.__call__', 'apply_attempt_based_credit is not called here (moved?)', fi.loc)
            return
        if not here:
            r.violation('AbstractGrader.__call__', 'apply_attempt_based_credit is never called: attempt-based credit is ignored', fi.loc)
            return
        if len(here) > 1:
            r.violation('AbstractGrader.__call__', 'apply_attempt_based_credit is called %d times: grades are scaled more than once'
                        % len(here), lib.loc(fi, here[1][1]))
        else:
            r.ok('apply_attempt_based_credit: call sites', 'exactly one, in AbstractGrader.__call__', lib.loc(fi, here[0][1]))
        call = here[0][1]
        where = lib.loc(fi, call)
        cfg = cfg_of(fi.node)
        cnodes = lib.cfg_nodes_for(cfg, call)
        # --- the guard
        br, iff = _branch_of(lib.enclosing_stmt(call), fi, lambda t: True)
        construct = 'AbstractGrader.__call__: guard of apply_attempt_based_credit'
        if iff is None:
            r.violation(construct, "the call is unconditional: with attempt_based_credit=None the grader calls None(...) / demands an "
                        'attempt number although the feature is off', where, expected="if self.config['attempt_based_credit']")
        else:
            key = nf.config_key(nf.canon(iff.test))
            neg = nf.canon(iff.test)
            negated = isinstance(neg, ast.UnaryOp) and isinstance(neg.op, ast.Not) and nf.config_key(neg.operand) == 'attempt_based_credit'
            isnot = nf.match("self.config['attempt_based_credit'] is not None", iff.test) is not None
            tnodes = [n for n in cfg.nodes_of(iff) if n.kind == 'test']
            if (key == 'attempt_based_credit' or isnot) and br == 'body':
                ok = bool(tnodes) and cfg.only_via_edge(tnodes[0], 'true', cnodes)
                r.check(ok, construct, "only under config['attempt_based_credit']", 'the call is reachable without passing the guard', where)
            elif (key == 'attempt_based_credit' and br == 'orelse') or (negated and br == 'body'):
                r.violation(construct, 'the guard is inverted: the credit is applied exactly when the feature is switched off', where)
            elif key is not None:
                r.violation(construct, "the call is guarded by config[%r] instead of config['attempt_based_credit']" % key, where,
                            expected="self.config['attempt_based_credit']", found=short(iff.test))
            else:
                r.undecided(construct, 'guard `%s` not recognised' % short(iff.test), where)
        # --- the arguments
        construct = 'AbstractGrader.__call__: arguments of apply_attempt_based_credit'
        kw = fi.node.args.kwarg.arg if fi.node.args.kwarg else None
        if len(call.args) != 2 or call.keywords or kw is None:
            r.undecided(construct, 'unexpected argument list `%s`' % short(call), where)
            return
        res = nf.classify("%s.get('attempt')" % kw, call.args[1])
        if res == nf.MATCH:
            r.ok(construct, "attempt = kwargs.get('attempt') (None when edX did not pass it)", where)
        elif isinstance(res, tuple):
            r.violation(construct, "%s: the attempt number edX passes as 'attempt' is not the one used" % res[1], where,
                        expected="kwargs.get('attempt')", found=short(call.args[1]))
        elif isinstance(call.args[1], ast.Call) and nf.callee_name(call.args[1]) == 'get' and len(call.args[1].args) == 2 \
                and nf.const_value(call.args[1].args[0]) == 'attempt':
            r.violation(construct, 'a default (%s) replaces a missing attempt number: omitting cfn_extra_args="attempt" silently '
                        'grades with that attempt instead of raising ConfigError' % short(call.args[1].args[1]), where,
                        expected="kwargs.get('attempt')", found=short(call.args[1]))
        elif isinstance(call.args[1], ast.Constant):
            r.violation(construct, 'the attempt number is the constant %r' % call.args[1].value, where, expected="kwargs.get('attempt')")
        else:
            r.undecided(construct, 'attempt argument `%s` not recognised' % short(call.args[1]), where)
        # the first argument is the result that is returned
        rets = lib.returns_of(fi.node)
        names = {x.value.id for x in rets if isinstance(x.value, ast.Name)}
        a0 = call.args[0]
        r.check(isinstance(a0, ast.Name) and a0.id in names, 'AbstractGrader.__call__: scaled object', 'the returned result',
                'the credit is applied to `%s`, which is not the result that is returned' % short(a0), where)


def d3_keep(ctx, idx):
    """The note is written into result['overall_message'] / result['msg'] by apply_attempt_based_credit; whatever
    __call__ does to these keys afterwards (debug log) must keep the text that is already there."""
    r = ctx.rule('D3.KEEP', "after the credit is applied, __call__ only appends to result['overall_message'] / result['msg'] "
                 '(the note is not overwritten)', floor=2)
    with r:
        fi = idx.func(AG + '.__call__')
        calls = lib.calls_named(fi.node, 'apply_attempt_based_credit')
        if len(calls) != 1 or not calls[0].args or not isinstance(calls[0].args[0], ast.Name):
            raise AnalysisError('call of apply_attempt_based_credit(result, ...) not found in __call__')
        res = calls[0].args[0].id
        pRes = ('param', res)
        # the top-level statement of __call__ that contains the call; everything after it runs after the note was written
        top = None
        for i, st in enumerate(fi.node.body):
            if any(n is calls[0] for n in ast.walk(st)):
                top = i
        if top is None:
            raise AnalysisError('the call of apply_attempt_based_credit is not inside a top-level statement of __call__')
        tail = fi.node.body[top + 1:]
        try:
            paths = ai.sym_exec(idx, fi, stmts=tail)
        except Unsupported as e:
            raise AnalysisError('statements after the credit application: %s' % e)
        seen = set()
        for key in ('overall_message', 'msg'):
            old = ('index', pRes, ('str', key))
            n_written = 0
            for p in paths:
                if res in p.env:
                    r.undecided('AbstractGrader.__call__: %s rebound' % res, 'the result is replaced by `%s` after the credit was applied'
                                % ai.show(p.env[res])[:80], fi.loc)
                    break
                if old not in p.store:
                    continue
                n_written += 1
                V = p.store[old]
                stmt = next((st_ for e, st_ in p.effects if e[0] == 'store' and e[1] == old), None)
                where = lib.loc(fi, stmt or fi.node)
                keeps = ai.mentions(V, old)
                getters = [old, ('meth', pRes, 'get', (('str', key),), ()), ('meth', pRes, 'get', (('str', key), ('str', '')), ()),
                           ('meth', pRes, 'get', (('str', key), ('none',)), ())]
                empty = any(c == ai.t_not(g_) or c == ('not', g_) or c == ('cmp', '==', g_, ('str', '')) or c == ('cmp', '==', ('str', ''), g_)
                            or c == ('cmp', 'notin', ('str', key), pRes)
                            for g in p.conds for c in ai.t_conjuncts(g) for g_ in getters)
                sig = (key, keeps, empty, ai.show(V)[:60])
                if sig in seen:
                    continue
                seen.add(sig)
                construct = "AbstractGrader.__call__: later store to result[%r]" % key
                if keeps:
                    r.ok(construct + ' [append]', 'the new value contains the old text', where)
                elif empty:
                    r.ok(construct + ' [was empty]', 'assigned only when the old text is empty', where)
                else:
                    r.violation(construct, "result[%r] is overwritten with `%s` (under `%s`) after apply_attempt_based_credit appended the note "
                                "'Maximum credit for attempt #n is p%%.' to it: the note is lost, although a grade was reduced and the note is "
                                'enabled' % (key, ai.show(V)[:60], ' and '.join(ai.show(c) for c in p.conds)[:120] or 'every call'), where,
                                expected="result[%r] += ... (or assignment only when it is empty)" % key, found=ai.show(V)[:80])
            if n_written == 0:
                r.ok("AbstractGrader.__call__: result[%r]" % key, 'not written after the credit was applied', fi.loc, nontrivial=False)


# ------------------------------------------------------------------------ self-test
_NONE_BLOCK = """        if attempt_number is None:
            msg = ("Attempt number not passed to grader as keyword argument 'attempt'. "
                   'The attribute <code>cfn_extra_args="attempt"</code> may need to be '
                   "set in the <code>customresponse</code> tag.")
            raise ConfigError(msg)

"""
_SINGLE = """                grade = result['grade_decimal'] * credit
                result['grade_decimal'] = grade
                result['ok'] = self.grade_decimal_to_ok(grade)
"""
_GUARDED_CALL = """        if self.config['attempt_based_credit']:
            self.apply_attempt_based_credit(result, kwargs.get('attempt'))"""

_SCALE_OLD = '        changed_result = False\n        if "input_list" in result:\n            for results_dict in result[\'input_list\']:\n                if results_dict[\'grade_decimal\'] > 0:\n                    grade = results_dict[\'grade_decimal\'] * credit\n                    results_dict[\'grade_decimal\'] = grade\n                    results_dict[\'ok\'] = self.grade_decimal_to_ok(grade)\n                    changed_result = True\n        else:\n            if result[\'grade_decimal\'] > 0:\n                grade = result[\'grade_decimal\'] * credit\n                result[\'grade_decimal\'] = grade\n                result[\'ok\'] = self.grade_decimal_to_ok(grade)\n                changed_result = True\n\n'
_SCALE_UNIFIED = '        entries = result[\'input_list\'] if "input_list" in result else [result]\n        changed_result = 0\n        for entry in entries:\n            if not entry[\'grade_decimal\'] > 0:\n                continue\n            scaled = entry[\'grade_decimal\'] * credit\n            entry[\'grade_decimal\'] = scaled\n            entry[\'ok\'] = self.grade_decimal_to_ok(scaled)\n            changed_result += 1\n\n'
_NOTE_OLD = '        if self.config[\'attempt_based_credit_msg\'] and changed_result:\n            credit_decimal = Decimal(credit * 100).quantize(Decimal(\'.1\'))\n            if credit_decimal == int(credit_decimal):\n                # Used to get rid of .0 appearing in percentages\n                credit_decimal = int(credit_decimal)\n            msg = "Maximum credit for attempt #{} is {}%."\n            if "input_list" in result:\n                key = \'overall_message\'\n            else:\n                key = \'msg\'\n            if result[key]:\n                result[key] += \'\\n\\n\'\n            result[key] += msg.format(attempt_number, credit_decimal)\n\n'
_NOTE_EARLY_RETURN = '        if not self.config[\'attempt_based_credit_msg\'] or not changed_result:\n            return\n        credit_decimal = Decimal(credit * 100).quantize(Decimal(\'.1\'))\n        if credit_decimal == int(credit_decimal):\n            credit_decimal = int(credit_decimal)\n        key = \'overall_message\' if "input_list" in result else \'msg\'\n        if result[key]:\n            result[key] += \'\\n\\n\'\n        result[key] += f"Maximum credit for attempt #{attempt_number} is {credit_decimal}%."\n\n'

_TAIL_OLD = '        changed_result = False\n        if "input_list" in result:\n            for results_dict in result[\'input_list\']:\n                if results_dict[\'grade_decimal\'] > 0:\n                    grade = results_dict[\'grade_decimal\'] * credit\n                    results_dict[\'grade_decimal\'] = grade\n                    results_dict[\'ok\'] = self.grade_decimal_to_ok(grade)\n                    changed_result = True\n        else:\n            if result[\'grade_decimal\'] > 0:\n                grade = result[\'grade_decimal\'] * credit\n                result[\'grade_decimal\'] = grade\n                result[\'ok\'] = self.grade_decimal_to_ok(grade)\n                changed_result = True\n\n        # Append the message if credit was reduced\n        if self.config[\'attempt_based_credit_msg\'] and changed_result:\n            credit_decimal = Decimal(credit * 100).quantize(Decimal(\'.1\'))\n            if credit_decimal == int(credit_decimal):\n                # Used to get rid of .0 appearing in percentages\n                credit_decimal = int(credit_decimal)\n            msg = "Maximum credit for attempt #{} is {}%."\n            if "input_list" in result:\n                key = \'overall_message\'\n            else:\n                key = \'msg\'\n            if result[key]:\n                result[key] += \'\\n\\n\'\n            result[key] += msg.format(attempt_number, credit_decimal)\n\n'
_TAIL_ENTRIES_AND_KEY_PICKED_ONCE = '        if "input_list" in result:\n            entries, msg_key = result[\'input_list\'], \'overall_message\'\n        else:\n            entries, msg_key = [result], \'msg\'\n        changed_result = False\n        for entry in entries:\n            if entry[\'grade_decimal\'] > 0:\n                grade = entry[\'grade_decimal\'] * credit\n                entry[\'grade_decimal\'] = grade\n                entry[\'ok\'] = self.grade_decimal_to_ok(grade)\n                changed_result = True\n\n        # Append the message if credit was reduced\n        if self.config[\'attempt_based_credit_msg\'] and changed_result:\n            credit_decimal = Decimal(credit * 100).quantize(Decimal(\'.1\'))\n            if credit_decimal == int(credit_decimal):\n                credit_decimal = int(credit_decimal)\n            msg = "Maximum credit for attempt #{} is {}%."\n            if result[msg_key]:\n                result[msg_key] += \'\\n\\n\'\n            result[msg_key] += msg.format(attempt_number, credit_decimal)\n\n'

_TAIL_HELPER_AND_ANY = '        entries = result[\'input_list\'] if "input_list" in result else [result]\n        reductions = [self._scale_grade(entry, credit) for entry in entries]\n\n        # Append the message if credit was reduced\n        if self.config[\'attempt_based_credit_msg\'] and any(reductions):\n            credit_decimal = Decimal(credit * 100).quantize(Decimal(\'.1\'))\n            if credit_decimal == int(credit_decimal):\n                credit_decimal = int(credit_decimal)\n            msg = "Maximum credit for attempt #{} is {}%."\n            key = \'overall_message\' if "input_list" in result else \'msg\'\n            if result[key]:\n                result[key] += \'\\n\\n\'\n            result[key] += msg.format(attempt_number, credit_decimal)\n\n    def _scale_grade(self, entry, credit):\n        """Scales a positive grade by credit; returns whether the entry changed"""\n        if not entry[\'grade_decimal\'] > 0:\n            return False\n        grade = entry[\'grade_decimal\'] * credit\n        entry[\'grade_decimal\'] = grade\n        entry[\'ok\'] = self.grade_decimal_to_ok(grade)\n        return True\n\n'

_CAP_SLIP = [('        Checks equality by checking class-equality and config equality.\n        """\n        return self.__class__ == other.__class__ and self.config == other.config\n\nclass AbstractGrader(ObjectWithSchema):\n    """\n', '        Checks equality by checking class-equality and config equality.\n        """\n        return self.__class__ == other.__class__ and self.config == other.config\n\nclass CreditCap(object):\n    """\n    The maximum credit that is available on a given attempt.\n\n    Scales the grades in {\'ok\', \'grade_decimal\', \'msg\'} dictionaries, keeps track of\n    whether any grade was actually reduced, and words the note for the student.\n    """\n\n    def __init__(self, attempt_number, credit):\n        self.attempt_number = attempt_number\n        # float() in case credit functions return the integers 0 or 1\n        self.credit = round(float(credit), 4)\n        self.reduced = False\n\n    def is_full(self):\n        """Is 100% credit still available? If so, no grades need to be modified."""\n        return self.attempt_number == 1\n\n    def apply(self, entry):\n        """Multiply a positive grade by the credit, updating \'ok\' to match the new grade"""\n        if entry[\'grade_decimal\'] > 0:\n            grade = entry[\'grade_decimal\'] * self.credit\n            entry[\'grade_decimal\'] = grade\n            entry[\'ok\'] = AbstractGrader.grade_decimal_to_ok(grade)\n            self.reduced = True\n\n    def note(self):\n        """The message that explains the reduced credit to the student"""\n        percent = Decimal(self.credit * 100).quantize(Decimal(\'.1\'))\n        if percent == int(percent):\n            # Used to get rid of .0 appearing in percentages\n            percent = int(percent)\n        return "Maximum credit for attempt #{} is {}%.".format(self.attempt_number, percent)\n\nclass AbstractGrader(ObjectWithSchema):\n    """\n'), ('                   "set in the <code>customresponse</code> tag.")\n            raise ConfigError(msg)\n\n        if attempt_number < 1:  # Just in case edX has issues\n            attempt_number = 1\n        self.log("Attempt number {}".format(attempt_number))\n\n        # Compute the maximum credit\n        credit = self.config[\'attempt_based_credit\'](attempt_number)\n        credit = float(credit)  # In case graders return integers 0 or 1\n        credit = round(credit, 4)\n        if credit == 1:\n            # Don\'t do any modifications\n            return\n        self.log("Maximum credit is {}".format(credit))\n\n        # Multiply all grades by credit, updating from \'ok\'=True to \'partial\' as needed\n        changed_result = False\n        if "input_list" in result:\n            for results_dict in result[\'input_list\']:\n                if results_dict[\'grade_decimal\'] > 0:\n                    grade = results_dict[\'grade_decimal\'] * credit\n                    results_dict[\'grade_decimal\'] = grade\n                    results_dict[\'ok\'] = self.grade_decimal_to_ok(grade)\n                    changed_result = True\n        else:\n            if result[\'grade_decimal\'] > 0:\n                grade = result[\'grade_decimal\'] * credit\n                result[\'grade_decimal\'] = grade\n                result[\'ok\'] = self.grade_decimal_to_ok(grade)\n                changed_result = True\n\n        # Append the message if credit was reduced\n        if self.config[\'attempt_based_credit_msg\'] and changed_result:\n            credit_decimal = Decimal(credit * 100).quantize(Decimal(\'.1\'))\n            if credit_decimal == int(credit_decimal):\n                # Used to get rid of .0 appearing in percentages\n                credit_decimal = int(credit_decimal)\n            msg = "Maximum credit for attempt #{} is {}%."\n            if "input_list" in result:\n                key = \'overall_message\'\n            else:\n                key = \'msg\'\n            if result[key]:\n                result[key] += \'\\n\\n\'\n            result[key] += msg.format(attempt_number, credit_decimal)\n\n    @staticmethod\n    def grade_decimal_to_ok(grade):\n', '                   "set in the <code>customresponse</code> tag.")\n            raise ConfigError(msg)\n\n        attempt_number = max(attempt_number, 1)  # Just in case edX has issues\n        self.log("Attempt number {}".format(attempt_number))\n\n        # Compute the maximum credit\n        cap = CreditCap(attempt_number, self.config[\'attempt_based_credit\'](attempt_number))\n        if cap.is_full():\n            # Don\'t do any modifications\n            return\n        self.log("Maximum credit is {}".format(cap.credit))\n\n        # Multiply all grades by credit, updating from \'ok\'=True to \'partial\' as needed\n        if "input_list" in result:\n            for results_dict in result[\'input_list\']:\n                cap.apply(results_dict)\n        else:\n            cap.apply(result)\n\n        # Append the message if credit was reduced\n        if self.config[\'attempt_based_credit_msg\'] and cap.reduced:\n            key = \'overall_message\' if "input_list" in result else \'msg\'\n            if result[key]:\n                result[key] += \'\\n\\n\'\n            result[key] += cap.note()\n\n    @staticmethod\n    def grade_decimal_to_ok(grade):\n')]
_CAP_OK = [('        Checks equality by checking class-equality and config equality.\n        """\n        return self.__class__ == other.__class__ and self.config == other.config\n\nclass AbstractGrader(ObjectWithSchema):\n    """\n', '        Checks equality by checking class-equality and config equality.\n        """\n        return self.__class__ == other.__class__ and self.config == other.config\n\nclass CreditCap(object):\n    """\n    The maximum credit that is available on a given attempt.\n\n    Scales the grades in {\'ok\', \'grade_decimal\', \'msg\'} dictionaries, keeps track of\n    whether any grade was actually reduced, and words the note for the student.\n    """\n\n    def __init__(self, attempt_number, credit):\n        self.attempt_number = attempt_number\n        # float() in case credit functions return the integers 0 or 1\n        self.credit = round(float(credit), 4)\n        self.reduced = False\n\n    def is_full(self):\n        """Is 100% credit still available? If so, no grades need to be modified."""\n        return self.credit == 1\n\n    def apply(self, entry):\n        """Multiply a positive grade by the credit, updating \'ok\' to match the new grade"""\n        if entry[\'grade_decimal\'] > 0:\n            grade = entry[\'grade_decimal\'] * self.credit\n            entry[\'grade_decimal\'] = grade\n            entry[\'ok\'] = AbstractGrader.grade_decimal_to_ok(grade)\n            self.reduced = True\n\n    def note(self):\n        """The message that explains the reduced credit to the student"""\n        percent = Decimal(self.credit * 100).quantize(Decimal(\'.1\'))\n        if percent == int(percent):\n            # Used to get rid of .0 appearing in percentages\n            percent = int(percent)\n        return "Maximum credit for attempt #{} is {}%.".format(self.attempt_number, percent)\n\nclass AbstractGrader(ObjectWithSchema):\n    """\n'), ('                   "set in the <code>customresponse</code> tag.")\n            raise ConfigError(msg)\n\n        if attempt_number < 1:  # Just in case edX has issues\n            attempt_number = 1\n        self.log("Attempt number {}".format(attempt_number))\n\n        # Compute the maximum credit\n        credit = self.config[\'attempt_based_credit\'](attempt_number)\n        credit = float(credit)  # In case graders return integers 0 or 1\n        credit = round(credit, 4)\n        if credit == 1:\n            # Don\'t do any modifications\n            return\n        self.log("Maximum credit is {}".format(credit))\n\n        # Multiply all grades by credit, updating from \'ok\'=True to \'partial\' as needed\n        changed_result = False\n        if "input_list" in result:\n            for results_dict in result[\'input_list\']:\n                if results_dict[\'grade_decimal\'] > 0:\n                    grade = results_dict[\'grade_decimal\'] * credit\n                    results_dict[\'grade_decimal\'] = grade\n                    results_dict[\'ok\'] = self.grade_decimal_to_ok(grade)\n                    changed_result = True\n        else:\n            if result[\'grade_decimal\'] > 0:\n                grade = result[\'grade_decimal\'] * credit\n                result[\'grade_decimal\'] = grade\n                result[\'ok\'] = self.grade_decimal_to_ok(grade)\n                changed_result = True\n\n        # Append the message if credit was reduced\n        if self.config[\'attempt_based_credit_msg\'] and changed_result:\n            credit_decimal = Decimal(credit * 100).quantize(Decimal(\'.1\'))\n            if credit_decimal == int(credit_decimal):\n                # Used to get rid of .0 appearing in percentages\n                credit_decimal = int(credit_decimal)\n            msg = "Maximum credit for attempt #{} is {}%."\n            if "input_list" in result:\n                key = \'overall_message\'\n            else:\n                key = \'msg\'\n            if result[key]:\n                result[key] += \'\\n\\n\'\n            result[key] += msg.format(attempt_number, credit_decimal)\n\n    @staticmethod\n    def grade_decimal_to_ok(grade):\n', '                   "set in the <code>customresponse</code> tag.")\n            raise ConfigError(msg)\n\n        attempt_number = max(attempt_number, 1)  # Just in case edX has issues\n        self.log("Attempt number {}".format(attempt_number))\n\n        # Compute the maximum credit\n        cap = CreditCap(attempt_number, self.config[\'attempt_based_credit\'](attempt_number))\n        if cap.is_full():\n            # Don\'t do any modifications\n            return\n        self.log("Maximum credit is {}".format(cap.credit))\n\n        # Multiply all grades by credit, updating from \'ok\'=True to \'partial\' as needed\n        if "input_list" in result:\n            for results_dict in result[\'input_list\']:\n                cap.apply(results_dict)\n        else:\n            cap.apply(result)\n\n        # Append the message if credit was reduced\n        if self.config[\'attempt_based_credit_msg\'] and cap.reduced:\n            key = \'overall_message\' if "input_list" in result else \'msg\'\n            if result[key]:\n                result[key] += \'\\n\\n\'\n            result[key] += cap.note()\n\n    @staticmethod\n    def grade_decimal_to_ok(grade):\n')]

MUTANTS = [
    Mutant('linear-sign', CREDIT, "credit = 1 + (min_cred - 1) * steps / decrease_steps", "credit = 1 - (min_cred - 1) * steps / decrease_steps", 'D1'),
    Mutant('linear-divisor', CREDIT, "credit = 1 + (min_cred - 1) * steps / decrease_steps", "credit = 1 + (min_cred - 1) * steps / (decrease_steps + 1)", 'D1'),
    Mutant('linear-slope', CREDIT, "credit = 1 + (min_cred - 1) * steps / decrease_steps", "credit = 1 + min_cred * steps / decrease_steps", 'D1'),
    Mutant('linear-interp-from-min', CREDIT, "credit = 1 + (min_cred - 1) * steps / decrease_steps", "credit = min_cred + (1 - min_cred) * steps / decrease_steps", 'D1'),
    Mutant('linear-steps-plus-one', CREDIT, "steps = attempt - self.config['decrease_credit_after']", "steps = attempt - self.config['decrease_credit_after'] + 1", 'D1'),
    Mutant('linear-steps-minus-one', CREDIT, "steps = attempt - self.config['decrease_credit_after']", "steps = attempt - self.config['decrease_credit_after'] - 1", 'D1'),
    Mutant('linear-floor-zero', CREDIT, "            credit = min_cred\n", "            credit = 0\n", 'D1'),
    Mutant('linear-breakpoint-late', CREDIT, "        if steps <= 0:\n            return 1", "        if steps <= 1:\n            return 1", 'D1'),
    Mutant('linear-plateau-early', CREDIT, "        if steps >= decrease_steps:", "        if steps >= decrease_steps - 1:", 'D1'),
    Mutant('geometric-exponent', CREDIT, "self.config['factor'] ** (attempt - 1)", "self.config['factor'] ** attempt", 'D1'),
    Mutant('geometric-growing', CREDIT, "self.config['factor'] ** (attempt - 1)", "self.config['factor'] ** (1 - attempt)", 'D1'),
    Mutant('geometric-first-attempt-test-inverted', CREDIT, "        if attempt == 1:\n            return 1\n        credit = self.config['factor']", "        if attempt != 1:\n            return 1\n        credit = self.config['factor']", 'D1',
           note='sweep: the schedule becomes constantly 1 (bounded, monotone, s(1)=1) - only the documented progression notices'),
    Mutant('reciprocal-first-attempt-test-inverted', CREDIT, "        if attempt == 1:\n            return 1\n        credit = 1.0 / attempt", "        if attempt != 1:\n            return 1\n        credit = 1.0 / attempt", 'D1'),
    Mutant('reciprocal-plus-one', CREDIT, "credit = 1.0 / attempt", "credit = 1.0 / (attempt + 1)", 'D1'),
    Mutant('reciprocal-numerator', CREDIT, "credit = 1.0 / attempt", "credit = 2.0 / attempt", 'D1'),
    Mutant('none-check-dropped', BASE, _NONE_BLOCK, "", 'D2'),
    Mutant('none-check-wrong-class', BASE, "            raise ConfigError(msg)\n\n        if attempt_number < 1:", "            raise ValueError(msg)\n\n        if attempt_number < 1:", 'D2'),
    Mutant('none-silent-full-credit', BASE, "            raise ConfigError(msg)\n\n        if attempt_number < 1:", "            return\n\n        if attempt_number < 1:", 'D2'),
    Mutant('schedule-called-with-unclamped-attempt', BASE, [
        ("        if attempt_number < 1:  # Just in case edX has issues\n            attempt_number = 1\n        self.log(\"Attempt number {}\".format(attempt_number))",
         "        attempt = max(attempt_number, 1)\n        self.log(\"Attempt number {}\".format(attempt))"),
        ("result[key] += msg.format(attempt_number, credit_decimal)", "result[key] += msg.format(attempt, credit_decimal)")], None, 'D2',
           note='the clamped local is used for log and note, the schedule gets the raw attempt number'),
    Mutant('credit-cap-object-full-test-on-the-attempt', BASE, _CAP_SLIP, None, 'D2',
           note='wave-6 seed: CreditCap.is_full() tests attempt_number == 1 instead of credit == 1'),
    Mutant('clamp-removed', BASE, "        if attempt_number < 1:  # Just in case edX has issues\n            attempt_number = 1\n", "", 'D2'),
    Mutant('clamp-threshold', BASE, "if attempt_number < 1:  # Just", "if attempt_number < 0:  # Just", 'D2'),
    Mutant('clamp-value', BASE, "            attempt_number = 1\n        self.log(\"Attempt", "            attempt_number = 0\n        self.log(\"Attempt", 'D2'),
    Mutant('full-credit-return-dropped', BASE, "        if credit == 1:\n            # Don't do any modifications\n            return\n", "", 'D2'),
    Mutant('rounding-after-the-full-credit-test', BASE, "        credit = round(credit, 4)\n        if credit == 1:\n            # Don't do any modifications\n            return\n",
           "        if credit == 1:\n            # Don't do any modifications\n            return\n        credit = round(credit, 4)\n", 'D2',
           note='a schedule value in [0.99995, 1) skips the exit, is rounded to 1.0, and the 100% note is shown'),
    Mutant('scale-guard-nonstrict-list', BASE, "if results_dict['grade_decimal'] > 0:", "if results_dict['grade_decimal'] >= 0:", 'D2'),
    Mutant('scale-guard-nonstrict-single', BASE, "            if result['grade_decimal'] > 0:", "            if result['grade_decimal'] >= 0:", 'D2'),
    Mutant('ok-not-recomputed-list', BASE, "                    results_dict['ok'] = self.grade_decimal_to_ok(grade)\n", "", 'D2'),
    Mutant('ok-from-old-grade-single', BASE, _SINGLE, "                result['ok'] = self.grade_decimal_to_ok(result['grade_decimal'])\n"
           "                result['grade_decimal'] = result['grade_decimal'] * credit\n", 'D2'),
    Mutant('product-division', BASE, "grade = results_dict['grade_decimal'] * credit", "grade = results_dict['grade_decimal'] / credit", 'D2'),
    Mutant('grade-replaced-by-credit', BASE, "                grade = result['grade_decimal'] * credit", "                grade = credit", 'D2'),
    Mutant('loop-break', BASE, "                    results_dict['ok'] = self.grade_decimal_to_ok(grade)\n                    changed_result = True",
           "                    results_dict['ok'] = self.grade_decimal_to_ok(grade)\n                    changed_result = True\n                    break", 'D2'),
    Mutant('flag-starts-true', BASE, "        changed_result = False", "        changed_result = True", 'D2'),
    Mutant('note-condition-or', BASE, "self.config['attempt_based_credit_msg'] and changed_result", "self.config['attempt_based_credit_msg'] or changed_result", 'D2'),
    Mutant('note-ignores-flag', BASE, "if self.config['attempt_based_credit_msg'] and changed_result:", "if self.config['attempt_based_credit_msg']:", 'D2'),
    Mutant('note-ignores-option', BASE, "if self.config['attempt_based_credit_msg'] and changed_result:", "if changed_result:", 'D2'),
    Mutant('note-key-swapped', BASE, "                key = 'overall_message'\n            else:\n                key = 'msg'",
           "                key = 'msg'\n            else:\n                key = 'overall_message'", 'D2'),
    Mutant('note-args-swapped', BASE, "msg.format(attempt_number, credit_decimal)", "msg.format(credit_decimal, attempt_number)", 'D2'),
    Mutant('note-percent-scale', BASE, "Decimal(credit * 100)", "Decimal(credit * 10)", 'D2'),
    Mutant('debug-log-overwrites-note', BASE, "                if result.get('overall_message', ''):\n                    result['overall_message'] += \"\\n\\n\" + self.log_output()  # pragma: no cover\n                else:\n                    result['overall_message'] = self.log_output()\n",
           "                result['overall_message'] = self.log_output()\n", 'D3', note='the debug log replaces the attempt-credit note in overall_message'),
    Mutant('ok-map-on-rounded-grade', BASE, "return {0: False, 1: True}.get(grade, 'partial')", "return {0: False, 1: True}.get(round(grade, 4), 'partial')", 'D2',
           note='grade * credit < 5e-5: ok False with a positive grade_decimal'),
    Mutant('call-guard-dropped', BASE, _GUARDED_CALL, "        self.apply_attempt_based_credit(result, kwargs.get('attempt'))", 'D3'),
    Mutant('call-guard-wrong-option', BASE, _GUARDED_CALL, _GUARDED_CALL.replace("['attempt_based_credit']", "['attempt_based_credit_msg']"), 'D3'),
    Mutant('attempt-default', BASE, "kwargs.get('attempt'))", "kwargs.get('attempt', 1))", 'D3'),
    Mutant('attempt-wrong-key', BASE, "kwargs.get('attempt'))", "kwargs.get('attempts'))", 'D3'),
]

BENIGN = [
    Benign('linear-cases-as-lambda-rows-read-by-next', CREDIT, '        if steps >= decrease_steps:\n            credit = min_cred\n        else:\n            # Linear interpolation\n            credit = 1 + (min_cred - 1) * steps / decrease_steps\n', '        cases = (\n            (lambda: steps >= decrease_steps, lambda: min_cred),\n            (lambda: True, lambda: 1 + (min_cred - 1) * steps / decrease_steps),\n        )\n        credit = next(compute for applies, compute in cases if applies())()\n'),
    Benign('credit-cap-object-full-test-on-the-credit', BASE, _CAP_OK, None),
    Benign('per-entry-helper-and-any-in-the-condition', BASE, _TAIL_OLD, _TAIL_HELPER_AND_ANY),
    Benign('unit-interval-validator-as-module-constant', CREDIT, [
        ("Required('minimum_credit', default=0.2): Any(All(float, Range(0, 1)), 0, 1)", "Required('minimum_credit', default=0.2): _unit_interval"),
        ("Required('factor', default=0.75): Any(All(float, Range(0, 1)), 0, 1)", "Required('factor', default=0.75): _unit_interval"),
        ("__all__ = ['LinearCredit', 'GeometricCredit', 'ReciprocalCredit']\n", "__all__ = ['LinearCredit', 'GeometricCredit', 'ReciprocalCredit']\n\n_unit_interval = Any(All(float, Range(0, 1)), 0, 1)\n")], None),
    Benign('clamped-local-used-everywhere', BASE, [
        ("        if attempt_number < 1:  # Just in case edX has issues\n            attempt_number = 1\n        self.log(\"Attempt number {}\".format(attempt_number))",
         "        attempt = max(attempt_number, 1)\n        self.log(\"Attempt number {}\".format(attempt))"),
        ("credit = self.config['attempt_based_credit'](attempt_number)", "credit = self.config['attempt_based_credit'](attempt)"),
        ("result[key] += msg.format(attempt_number, credit_decimal)", "result[key] += msg.format(attempt, credit_decimal)")], None),
    Benign('entries-and-message-key-picked-once', BASE, _TAIL_OLD, _TAIL_ENTRIES_AND_KEY_PICKED_ONCE),
    Benign('positive-validator-with-starred-bounds', 'mitxgraders/helpers/validatorfuncs.py',
           "    if thetype == int:\n        return All(thetype, Range(1, float('inf')))\n    else:\n        return All(thetype, Range(0, float('inf')), NotIn([0]))\n",
           "    if thetype == int:\n        bounds = [Range(1, float('inf'))]\n    else:\n        bounds = [Range(0, float('inf')), NotIn([0])]\n    return All(thetype, *bounds)\n"),
    Benign('scaling-unified-loop-with-counter', BASE, _SCALE_OLD, _SCALE_UNIFIED),
    Benign('note-early-return-fstring-conditional-key', BASE, _NOTE_OLD, _NOTE_EARLY_RETURN),
    Benign('ok-from-stored-grade', BASE, "                result['ok'] = self.grade_decimal_to_ok(grade)", "                result['ok'] = self.grade_decimal_to_ok(result['grade_decimal'])"),
    Benign('linear-breakpoints-closed-on-the-other-side', CREDIT, "        if steps >= decrease_steps:", "        if steps > decrease_steps:"),
    Benign('linear-first-breakpoint-strict', CREDIT, "        if steps <= 0:\n            return 1", "        if steps < 0:\n            return 1"),
    Benign('reciprocal-float-inside', CREDIT, "credit = 1.0 / attempt", "credit = 1 / float(attempt)"),
    Benign('credit-one-liner', BASE, "        credit = self.config['attempt_based_credit'](attempt_number)\n        credit = float(credit)  # In case graders return integers 0 or 1\n        credit = round(credit, 4)\n",
           "        credit = round(float(self.config['attempt_based_credit'](attempt_number)), 4)\n"),
    Benign('clamp-by-max', BASE, "        if attempt_number < 1:  # Just in case edX has issues\n            attempt_number = 1\n", "        attempt_number = max(attempt_number, 1)\n"),
    Benign('note-condition-reordered', BASE, "if self.config['attempt_based_credit_msg'] and changed_result:", "if changed_result and self.config['attempt_based_credit_msg']:"),
    Benign('linear-interpolation-rearranged', CREDIT, "credit = 1 + (min_cred - 1) * steps / decrease_steps", "credit = 1 - (1 - min_cred) * (steps / decrease_steps)"),
    Benign('debug-log-append-as-conditional-expression', BASE, "                if result.get('msg', ''):\n                    result['msg'] += \"\\n\\n\" + self.log_output()\n                else:\n                    result['msg'] = self.log_output()\n",
           "                result['msg'] = (result['msg'] + \"\\n\\n\" + self.log_output()) if result.get('msg', '') else self.log_output()\n"),
    Benign('ok-map-as-comparisons', BASE, "return {0: False, 1: True}.get(grade, 'partial')", "return False if grade == 0 else True if grade == 1 else 'partial'"),
    Benign('guard-is-not-none', BASE, "        if self.config['attempt_based_credit']:\n            self.apply", "        if self.config['attempt_based_credit'] is not None:\n            self.apply"),
]
