"""C08 -- among alternative answers the student always receives the best-scoring one."""
import ast

from ..index import AnalysisError, walk_own, unparse, short, ancestors, enclosing_stmt
from ..cfg import cfg_of
from ..effects import FunctionEffects
from .. import nf, lib
from ..selftest import Mutant, Benign
from . import _c04_flow as fl

ID = 'C08'
BASE = 'mitxgraders/baseclasses.py'
FILES = [BASE]

EXPLANATION = (
    "Rules on ItemGrader.check (the only implementation of check in the ItemGrader family): (D1) the loop over the "
    "answers and the nested loop over each answer's expect tuple run over the complete sequences, have no "
    "break/continue/return, and append exactly one check_response result per (answer, entry) unconditionally; "
    "(D2) the verdict is max-by-len(msg) over the results whose grade_decimal equals the max of grade_decimal over "
    "all results, and that winner is what is returned; (D3) wrong_msg replaces the winner's message exactly under "
    "`msg == '' and best_score == 0`; (D4) each answer is copied before its expect entry is narrowed, so no store "
    "in check reaches the configured answers.")
NOT_DECIDED = ("what each check_response returns (subgrader semantics, comparers that raise); that grade_decimal values "
               "are comparable numbers; canonicalisation of the alternatives by schema_answers (C20).")
ASSUMPTIONS = ["subclasses of ItemGrader do not override check (verified: D1 reports any override as undecided)"]

IG_CHECK = 'mitxgraders.baseclasses.ItemGrader.check'
ITEM = 'mitxgraders.baseclasses.ItemGrader'


def check(ctx):
    idx = ctx.index
    info = d1_loops(ctx, idx)
    d2_selection(ctx, idx, info)
    d3_wrong_msg(ctx, idx, info)
    d4_copy(ctx, idx, info)


class Info(object):
    results = None      # name of the list the results are appended to
    outer = None
    inner = None


# ----------------------------------------------------------------------------- D1
def d1_loops(ctx, idx):
    r = ctx.rule('D1.LOOPFULL', 'every alternative and every entry of its expect tuple is checked, one result each', floor=7)
    info = Info()
    with r:
        fi = idx.func(IG_CHECK)
        C = 'ItemGrader.check'
        # no subclass re-implements check
        for ci in idx.family(ITEM):
            if ci.qualname != ITEM and 'check' in ci.methods:
                r.undecided(ci.qualname + '.check', 'unreviewed override of ItemGrader.check', ci.methods['check'].loc)
        p_answers, p_input = fi.params[1], fi.params[2]
        calls = lib.calls_named(fi.node, 'check_response')
        calls = [c for c in calls if isinstance(c.func, ast.Attribute) and fl.name_of(c.func.value) == fi.params[0]]
        if len(calls) != 1:
            raise AnalysisError('ItemGrader.check: expected one self.check_response call, found %d' % len(calls))
        call = calls[0]
        loops = [a for a in ancestors(call) if isinstance(a, (ast.For, ast.While))]
        loops = list(reversed(loops))       # outermost first
        where = lib.loc(fi, call)
        if not loops:
            r.violation(C + ': loop over answers', 'check_response is no longer called in a loop over the alternatives: only one '
                        'alternative is ever compared', where)
            return info
        outer = loops[0]
        info.outer = outer
        # ---- outer loop
        if not (isinstance(outer, ast.For) and isinstance(outer.target, ast.Name)):
            r.undecided(C + ': loop over answers', 'loop header not recognised', lib.loc(fi, outer))
            return info
        av = outer.target.id
        it = outer.iter
        if isinstance(it, ast.Name) and it.id == p_answers:
            r.ok(C + ': loop over answers', 'iterates over the complete answers tuple', lib.loc(fi, outer))
        elif isinstance(it, ast.Subscript) and fl.mentions(it.value, p_answers):
            r.violation(C + ': loop over answers', 'only part of the alternatives is examined (`%s`): a better-scoring alternative '
                        'listed elsewhere is ignored, so the grade depends on the listing order' % short(it), lib.loc(fi, outer),
                        expected='for answer in %s' % p_answers, found=unparse(it))
        elif isinstance(it, ast.Call) and nf.callee_name(it) in ('reversed', 'sorted', 'list', 'tuple') and len(it.args) == 1 \
                and fl.name_of(it.args[0]) == p_answers:
            r.ok(C + ': loop over answers', 'iterates over all answers (%s)' % nf.callee_name(it), lib.loc(fi, outer))
        else:
            r.undecided(C + ': loop over answers', 'iteration not recognised: %s' % short(it), lib.loc(fi, outer))
        # the default: answers = config['answers'] if answers is None else answers
        defs = [v for v in lib.assigned_value(fi.node, p_answers)]
        if len(defs) == 1:
            res = nf.classify(["self.config['answers'] if %s is None else %s" % (p_answers, p_answers),
                               "%s if %s is not None else self.config['answers']" % (p_answers, p_answers)], defs[0])
            if res == nf.MATCH:
                r.ok(C + ': answers default', "config['answers'] when no answers are passed", lib.loc(fi, defs[0]))
            else:
                r.undecided(C + ': answers default', 'not recognised: %s' % short(defs[0]), lib.loc(fi, defs[0]))
        elif defs:
            r.undecided(C + ': answers default', 'answers is rebound %d times' % len(defs), fi.loc)
        # ---- inner loop over the expect tuple
        if len(loops) >= 2:
            inner = loops[1]
            info.inner = inner
            if not (isinstance(inner, ast.For) and isinstance(inner.target, ast.Name)):
                r.undecided(C + ': loop over expect entries', 'loop header not recognised', lib.loc(fi, inner))
            else:
                it2 = inner.iter
                if nf.match("%s['expect']" % av, it2) is not None:
                    r.ok(C + ': loop over expect entries', "iterates over the complete answer['expect'] tuple", lib.loc(fi, inner))
                elif isinstance(it2, ast.Subscript) and nf.match("%s['expect']" % av, it2.value) is not None:
                    r.violation(C + ': loop over expect entries', 'only part of the expect tuple is examined (`%s`): an input matching '
                                'another entry of the tuple is graded wrong' % short(it2), lib.loc(fi, inner),
                                expected="for entry in %s['expect']" % av, found=unparse(it2))
                else:
                    r.undecided(C + ': loop over expect entries', 'iteration not recognised: %s' % short(it2), lib.loc(fi, inner))
        else:
            picks = [n for n in ast.walk(outer) if isinstance(n, ast.Subscript) and isinstance(n.ctx, ast.Load)
                     and nf.match("%s['expect']" % av, n.value) is not None and isinstance(n.slice, ast.Constant)]
            if picks:
                r.violation(C + ': loop over expect entries', 'only entry `%s` of the expect tuple is checked: the other accepted values '
                            'of the alternative are never compared' % short(picks[0]), lib.loc(fi, picks[0]),
                            expected="for entry in %s['expect']" % av)
            else:
                r.undecided(C + ': loop over expect entries', 'no nested loop over the expect tuple found', lib.loc(fi, outer))
        # ---- no early exit
        for lp, what in ((outer, 'loop over answers'), (info.inner, 'loop over expect entries')):
            if lp is None:
                continue
            exits = [e for e in lib.loop_has_early_exit(lp) if not isinstance(e, ast.Raise)]
            if lp is outer and info.inner is not None:
                # exits of the inner loop are reported with the inner loop; return anywhere counts for both
                inner_ids = {id(n) for n in ast.walk(info.inner)}
                exits = [e for e in exits if id(e) not in inner_ids or isinstance(e, ast.Return)]
                exits = [e for e in exits if not (isinstance(e, ast.Return) and id(e) in inner_ids)]
            if exits:
                for e in exits:
                    r.violation(C + ': ' + what, '`%s` leaves or skips the loop: the remaining alternatives are not compared, so the '
                                'first hit wins instead of the best one' % short(e), lib.loc(fi, e))
            else:
                r.ok(C + ': ' + what + ' [exits]', 'no break/continue/return', lib.loc(fi, lp))
        # ---- one result per (answer, entry), unconditionally
        st = enclosing_stmt(call)
        apps = [c for c in ast.walk(outer) if isinstance(c, ast.Call) and nf.callee_name(c) == 'append'
                and isinstance(c.func, ast.Attribute) and isinstance(c.func.value, ast.Name)]
        prov_ok = []
        for a in apps:
            arg = a.args[0] if len(a.args) == 1 else None
            if arg is None:
                continue
            if arg is call or (isinstance(arg, ast.Name) and isinstance(st, ast.Assign)
                               and any(fl.name_of(t) == arg.id for t in st.targets)):
                prov_ok.append(a)
        if len(prov_ok) != 1:
            if not prov_ok:
                r.violation(C + ': results', 'the result of check_response is no longer appended to the list of results', where)
                return info
            raise AnalysisError('ItemGrader.check: several appends of the check_response result')
        app = prov_ok[0]
        info.results = app.func.value.id
        innermost = loops[-1]
        same_body = any(s is enclosing_stmt(app) for s in innermost.body) and any(s is st for s in innermost.body)
        conds = [a for a, br in fl.if_chain_containing(app, fi.node) if any(a is x for x in ast.walk(outer))]
        if conds:
            r.violation(C + ': results', 'a result is only recorded under `%s`: the other alternatives drop out of the comparison '
                        '(and max() of an empty list raises when nothing qualifies)' % short(conds[0].test), lib.loc(fi, app))
        elif same_body and lib.dominated(fi, [call], [app]):
            r.ok(C + ': results', 'one result appended per (answer, entry)', lib.loc(fi, app))
        else:
            r.undecided(C + ': results', 'append not directly in the innermost loop body', lib.loc(fi, app))
        inits = lib.assigned_value(fi.node, info.results)
        in_loop = [v for v in inits if fl.enclosing_loop(v, fi.node) is not None]
        if len(inits) == 1 and isinstance(inits[0], ast.List) and not inits[0].elts and not in_loop:
            r.ok(C + ': results list', 'starts empty before the loops', lib.loc(fi, inits[0]))
        elif in_loop and all(isinstance(v, ast.List) for v in in_loop):
            r.violation(C + ': results list', 'the list of results is re-created inside the loop (`%s = %s`): only the results of the '
                        'last alternative survive' % (info.results, unparse(in_loop[0])), lib.loc(fi, in_loop[0]))
        else:
            r.undecided(C + ': results list', 'initialisation not recognised', fi.loc)
        # the call hands over the student's input
        a1 = call.args[1] if len(call.args) > 1 else None
        if not (isinstance(a1, ast.Name) and a1.id == p_input):
            r.undecided(C + ': check_response(...)', 'second argument is not the student input parameter', where)
    return info


# ----------------------------------------------------------------------------- D2
def _lambda_len_msg(key):
    """+1 for `lambda r: len(r['msg'])`, -1 for `lambda r: -len(r['msg'])`, None otherwise."""
    if not (isinstance(key, ast.Lambda) and len(key.args.args) == 1 and not key.args.defaults):
        return None
    p = key.args.args[0].arg
    body = nf.canon(key.body)
    if nf.match("len(%s['msg'])" % p, body) is not None:
        return 1
    if nf.match("-len(%s['msg'])" % p, body) is not None:
        return -1
    return None


def d2_selection(ctx, idx, info):
    r = ctx.rule('D2.SELECT', 'verdict = longest message among the results whose grade equals the maximum grade', floor=4)
    with r:
        fi = idx.func(IG_CHECK)
        C = 'ItemGrader.check'
        if info.results is None:
            raise AnalysisError('results list not identified (see D1)')
        res_name = info.results
        rets = lib.returns_of(fi.node)
        if len(rets) != 1 or not isinstance(rets[0].value, ast.Name):
            raise AnalysisError('ItemGrader.check: expected a single `return <name>`')
        wname = rets[0].value.id
        wdefs = lib.assigned_value(fi.node, wname)
        if len(wdefs) != 1:
            raise AnalysisError('ItemGrader.check: the returned name is bound %d times' % len(wdefs))
        W = wdefs[0]
        where = lib.loc(fi, W)
        env = lib.local_env(fi.node)
        # ---- winner among the candidates
        cand = None
        if isinstance(W, ast.Call) and nf.callee_name(W) in ('max', 'min') and isinstance(W.func, ast.Name) and len(W.args) == 1:
            key = lib.get_kw(W, 'key')
            sign = _lambda_len_msg(key) if key is not None else None
            cand = W.args[0]
            if key is None:
                r.violation(C + ': winner', 'ties are broken by comparing the result dicts themselves (no key): not by message length',
                            where, expected="max(candidates, key=lambda r: len(r['msg']))", found=unparse(W))
            elif sign is None:
                r.undecided(C + ': winner', 'key function not recognised: %s' % short(key), where)
            else:
                longest = (W.func.id == 'max') == (sign > 0)
                r.check(longest, C + ': winner', 'the candidate with the longest message',
                        'among the best-scoring results the one with the SHORTEST message is reported (`%s`): a specific feedback message '
                        'loses against an empty one' % short(W), where, expected="max(candidates, key=lambda r: len(r['msg']))",
                        found=unparse(W))
        elif isinstance(W, ast.Subscript) and isinstance(W.slice, (ast.Constant, ast.UnaryOp)):
            cand = W.value
            r.violation(C + ': winner', 'among the best-scoring results the one at position %s is reported, not the one with the longest '
                        'message: the feedback depends on the listing order' % unparse(W.slice), where,
                        expected="max(candidates, key=lambda r: len(r['msg']))", found=unparse(W))
        else:
            r.undecided(C + ': winner', 'selection not recognised: %s' % short(W), where)
        if cand is None:
            return
        # ---- candidates = results with the best score
        cexpr = nf.subst(cand, env) if isinstance(cand, ast.Name) else cand
        if isinstance(cand, ast.Name) and cand.id == res_name:
            r.violation(C + ': candidates', 'the winner is chosen among ALL results by message length: a lower-scoring alternative with a '
                        'longer message beats the best-scoring one', where, expected="[r for r in results if r['grade_decimal'] == best]")
            return
        cw = lib.loc(fi, cexpr) if hasattr(cexpr, 'lineno') else where
        if not (isinstance(cexpr, (ast.ListComp, ast.GeneratorExp)) and len(cexpr.generators) == 1
                and isinstance(cexpr.generators[0].target, ast.Name)):
            r.undecided(C + ': candidates', 'not a filter comprehension: %s' % short(cexpr), cw)
            return
        g = cexpr.generators[0]
        rv = g.target.id
        if not (isinstance(g.iter, ast.Name) and g.iter.id == res_name and isinstance(cexpr.elt, ast.Name) and cexpr.elt.id == rv):
            if isinstance(g.iter, ast.Subscript) and fl.mentions(g.iter, res_name):
                r.violation(C + ': candidates', 'only part of the results takes part in the selection (`%s`)' % short(g.iter), cw)
            else:
                r.undecided(C + ': candidates', 'comprehension not recognised: %s' % short(cexpr), cw)
            return
        if len(g.ifs) != 1:
            if not g.ifs:
                r.violation(C + ': candidates', 'the candidates are not filtered by score: a lower-scoring alternative with a longer '
                            'message wins', cw)
            else:
                r.undecided(C + ': candidates', 'several filters', cw)
            return
        flt = nf.canon(g.ifs[0])
        best = None
        if isinstance(flt, ast.Compare) and len(flt.ops) == 1:
            a, b = flt.left, flt.comparators[0]
            if nf.match("%s['grade_decimal']" % rv, b) is not None:
                a, b, flipped = b, a, True
            else:
                flipped = False
            if nf.match("%s['grade_decimal']" % rv, a) is not None:
                best = b
                op = flt.ops[0]
                # canonical orientation: a op b with a = r['grade_decimal'] (flipped => b op a)
                keeps_best = isinstance(op, ast.Eq) or (isinstance(op, ast.LtE) and flipped)       # best <= r.grade
                if keeps_best:
                    r.ok(C + ': candidates', "results whose grade_decimal equals the best score", cw)
                else:
                    r.violation(C + ': candidates', 'the filter `%s` does not select the results that reach the best score'
                                % unparse(g.ifs[0]), cw, expected="%s['grade_decimal'] == best_score" % rv, found=unparse(g.ifs[0]))
        if best is None:
            r.undecided(C + ': candidates', 'filter not recognised: %s' % short(g.ifs[0]), cw)
            return
        # ---- best score = max of grade_decimal over all results
        info.best_name = best.id if isinstance(best, ast.Name) else None
        bexpr = nf.subst(best, env) if isinstance(best, ast.Name) else best
        bw = lib.loc(fi, bexpr) if hasattr(bexpr, 'lineno') else cw
        pats = ["max([_R['grade_decimal'] for _R in %s])" % res_name, "max(_R['grade_decimal'] for _R in %s)" % res_name]
        res = nf.classify(pats, bexpr)
        if res == nf.MATCH:
            r.ok(C + ': best score', "max of grade_decimal over all results", bw)
        elif isinstance(res, tuple):
            r.violation(C + ': best score', res[1] + ' -- the student no longer receives the highest credit earned against any '
                        'alternative', bw, expected=pats[0], found=unparse(bexpr))
        else:
            inner = bexpr.args[0] if isinstance(bexpr, ast.Call) and bexpr.args else None
            if isinstance(bexpr, ast.Subscript) and fl.mentions(bexpr, res_name) or \
                    (isinstance(inner, (ast.ListComp, ast.GeneratorExp)) and isinstance(inner.generators[0].iter, ast.Subscript)):
                r.violation(C + ': best score', 'the best score is taken from part of the results only (`%s`)' % short(bexpr), bw,
                            expected=pats[0])
            else:
                r.undecided(C + ': best score', 'not recognised: %s' % short(bexpr), bw)
        # selection happens after all results exist
        if info.outer is not None:
            cfg = cfg_of(fi.node)
            inside = fl.enclosing_loop(W, fi.node) is not None
            r.check(not inside and lib.dominated(fi, [info.outer.iter], [W]), C + ': selection order', 'after the loops',
                    'the selection runs inside the loop over the alternatives (on partial results)', where)


# ----------------------------------------------------------------------------- D3
def d3_wrong_msg(ctx, idx, info):
    r = ctx.rule('D3.WRONGMSG', "wrong_msg replaces the message iff msg == '' and best score == 0", floor=3)
    with r:
        fi = idx.func(IG_CHECK)
        C = 'ItemGrader.check: wrong_msg'
        rets = lib.returns_of(fi.node)
        if len(rets) != 1 or not isinstance(rets[0].value, ast.Name):
            raise AnalysisError('ItemGrader.check: expected a single `return <name>`')
        wname = rets[0].value.id
        stores = []
        for n in walk_own(fi.node):
            if isinstance(n, ast.Assign) and any(lib.mentions_config(n.value, 'wrong_msg') for _ in [0]):
                stores.append(n)
        if not stores:
            r.violation(C, "config['wrong_msg'] is never used: a wrong answer without specific feedback shows no message", fi.loc)
            return
        if len(stores) != 1:
            raise AnalysisError('ItemGrader.check: several uses of wrong_msg')
        st = stores[0]
        where = lib.loc(fi, st)
        tgt = st.targets[0]
        if nf.match("%s['msg']" % wname, tgt) is not None and lib.is_config(st.value, 'wrong_msg'):
            r.ok(C + ' store', "winner['msg'] = config['wrong_msg']", where)
        elif isinstance(tgt, ast.Subscript) and lib.subscript_key(tgt) != 'msg' and fl.name_of(tgt.value) == wname:
            r.violation(C + ' store', "wrong_msg is stored under key %r instead of 'msg'" % lib.subscript_key(tgt), where)
        else:
            r.undecided(C + ' store', 'not recognised: %s' % short(st), where)
        chain = fl.if_chain_containing(st, fi.node)
        if not chain:
            r.violation(C + ' condition', 'wrong_msg overwrites the message unconditionally: specific feedback and the messages of '
                        'correct answers are replaced', where, expected="if msg == '' and best_score == 0")
            return
        if len(chain) != 1 or chain[0][1] != 'body':
            r.undecided(C + ' condition', 'guards not recognised', where)
            return
        test = chain[0][0].test
        best = getattr(info, 'best_name', None)
        score_terms = ["%s['grade_decimal'] == 0" % wname]
        if best:
            score_terms.insert(0, '%s == 0' % best)
        msg_terms = ["%s['msg'] == ''" % wname, "not %s['msg']" % wname]
        pats = ['%s and %s' % (m, s) for s in score_terms for m in msg_terms]
        res = nf.classify(pats, test)
        tw = lib.loc(fi, chain[0][0])
        if res == nf.MATCH:
            r.ok(C + ' condition', "msg == '' and best score == 0", tw)
        elif isinstance(res, tuple):
            r.violation(C + ' condition', res[1] + " -- wrong_msg must appear exactly when the best grade is zero and no specific "
                        "message applies", tw, expected=pats[0], found=unparse(test))
        else:
            verdict = _wrong_msg_by_conjunct(test, wname, best)
            if verdict is True:
                r.ok(C + ' condition', "msg == '' and best score is zero", tw)
            elif verdict:
                r.violation(C + ' condition', verdict, tw, expected=pats[0], found=unparse(test))
            else:
                r.undecided(C + ' condition', 'not recognised: %s' % short(test), tw)
        # the replacement happens before the return and after the selection
        r.check(lib.dominated(fi, [chain[0][0].test], [rets[0]]), C + ' order', 'decided before returning',
                'a path returns without deciding about wrong_msg', tw)


def _wrong_msg_by_conjunct(test, wname, best):
    """True / violation text / None for a two-conjunct condition, judging the score conjunct on sample grades."""
    cj = nf.conjuncts(nf.canon(test))
    if len(cj) != 2:
        return None
    msg_ok = [c for c in cj if nf.match("%s['msg'] == ''" % wname, c) is not None or nf.match("not %s['msg']" % wname, c) is not None]
    if len(msg_ok) != 1:
        return None
    sc = [c for c in cj if c is not msg_ok[0]][0]
    if not (isinstance(sc, ast.Compare) and len(sc.ops) == 1):
        return None
    a, b, op = sc.left, sc.comparators[0], sc.ops[0]

    def is_score(e):
        return (best and isinstance(e, ast.Name) and e.id == best) or nf.match("%s['grade_decimal']" % wname, e) is not None
    if is_score(a) and isinstance(nf.const_value(b, None), (int, float)):
        c, score_left = nf.const_value(b), True
    elif is_score(b) and isinstance(nf.const_value(a, None), (int, float)):
        c, score_left = nf.const_value(a), False
    else:
        return None
    import operator
    ops = {ast.Eq: operator.eq, ast.NotEq: operator.ne, ast.Lt: operator.lt, ast.LtE: operator.le,
           ast.Gt: operator.gt, ast.GtE: operator.ge}
    if type(op) not in ops:
        return None
    truth = [g for g in (0, 0.25, 0.5, 0.75, 1) if (ops[type(op)](g, c) if score_left else ops[type(op)](c, g))]
    if truth == [0]:
        return True
    return ('the score condition `%s` holds for best grades %s, not exactly for 0: wrong_msg %s'
            % (unparse(sc), truth or 'none', 'also replaces the empty message of partially or fully correct answers'
               if truth and truth != [0] else 'is never shown'))


# ----------------------------------------------------------------------------- D4
def d4_copy(ctx, idx, info):
    r = ctx.rule('D4.COPY', 'the configured answers are never written: the answer is copied before its expect entry is narrowed',
                 floor=2)
    with r:
        fi = idx.func(IG_CHECK)
        C = 'ItemGrader.check'
        fx = FunctionEffects(fi, idx)
        p_answers = fi.params[1]
        tainted = {('param', p_answers), ('self', 'config'), ('self', "config['answers']"), ('selfobj',)}
        n_exp = 0
        for m in fx.direct_mutations():
            hit = m.origins & tainted
            is_expect = "['expect']" in m.how
            if is_expect:
                n_exp += 1
            if hit:
                r.violation(C + ': ' + m.how, 'the statement writes into an object that is (part of) the configured/passed answers '
                            '(%s): after the first submission the answer keeps only one entry of its expect tuple, so later '
                            'submissions and other alternatives are graded against a modified configuration'
                            % ', '.join(sorted('.'.join(map(str, h)) for h in hit)), lib.loc(fi, m.node),
                            expected='answercopy = answer.copy() before the store')
            elif is_expect:
                r.ok(C + ': ' + m.how, 'target is a fresh copy', lib.loc(fi, m.node))
        if n_exp == 0:
            r.undecided(C + ": store to ['expect']", 'no narrowing store found', fi.loc)
        # the copy is taken per answer, from the loop variable
        call = lib.one_call(fi, 'check_response')
        a0 = call.args[0] if call.args else None
        if info.outer is None or not isinstance(a0, ast.Name):
            r.undecided(C + ': check_response argument', 'not recognised', lib.loc(fi, call))
            return
        av = info.outer.target.id if isinstance(info.outer.target, ast.Name) else None
        defs = lib.assigned_value(fi.node, a0.id)
        if a0.id == av:
            # the loop variable itself is passed: acceptable only if nothing stores into it (checked above)
            r.ok(C + ': check_response argument', 'the answer itself (never written)', lib.loc(fi, call))
            return
        if len(defs) != 1:
            r.undecided(C + ': check_response argument', '%s is bound %d times' % (a0.id, len(defs)), lib.loc(fi, call))
            return
        d = defs[0]
        copies = ['%s.copy()' % av, 'dict(%s)' % av, 'copy.copy(%s)' % av, 'copy.deepcopy(%s)' % av, 'deepcopy(%s)' % av,
                  'copy(%s)' % av]
        if any(nf.match(p, d) is not None for p in copies):
            inside = fl.enclosing_loop(d, fi.node)
            r.check(inside is not None and any(inside is x for x in (info.outer, info.inner)), C + ': answer copy',
                    'copied once per answer inside the loop', 'the copy is not taken inside the loop over the answers', lib.loc(fi, d))
        elif isinstance(d, ast.Name) and d.id == av:
            # alias: already reported above if anything is stored through it
            r.ok(C + ': answer copy', 'alias of the answer (stores reported separately)', lib.loc(fi, d), nontrivial=False)
        else:
            r.undecided(C + ': answer copy', 'not recognised: %s' % short(d), lib.loc(fi, d))


# ------------------------------------------------------------------------ self-test
_LOOP = ("                result = self.check_response(answercopy, student_input, **kwargs)\n"
         "                results.append(result)\n")

MUTANTS = [
    Mutant('break-on-first-hit', BASE, _LOOP, _LOOP + "                if result['ok']:\n                    break\n", 'D1'),
    Mutant('break-outer-on-hit', BASE, _LOOP, _LOOP + "            if results[-1]['ok'] is True:\n                break\n", 'D1'),
    Mutant('return-first-correct', BASE, _LOOP, _LOOP + "                if result['ok'] is True:\n                    return result\n", 'D1'),
    Mutant('skip-zero-credit-answers', BASE, "            answercopy = answer.copy()\n",
           "            if answer['grade_decimal'] == 0:\n                continue\n            answercopy = answer.copy()\n", 'D1'),
    Mutant('only-first-answer', BASE, "        for answer in answers:\n            # Iterate through each entry in the expect tuple",
           "        for answer in answers[:1]:\n            # Iterate through each entry in the expect tuple", 'D1'),
    Mutant('only-first-expect-entry-slice', BASE, "            for entry in answer['expect']:", "            for entry in answer['expect'][:1]:", 'D1'),
    Mutant('only-first-expect-entry', BASE, "            for entry in answer['expect']:\n                answercopy['expect'] = entry\n" + _LOOP,
           "            answercopy['expect'] = answer['expect'][0]\n            result = self.check_response(answercopy, student_input, **kwargs)\n            results.append(result)\n", 'D1'),
    Mutant('append-only-hits', BASE, _LOOP, "                result = self.check_response(answercopy, student_input, **kwargs)\n"
           "                if result['ok']:\n                    results.append(result)\n", 'D1'),
    Mutant('results-reset-per-answer', BASE, "            answercopy = answer.copy()\n", "            answercopy = answer.copy()\n            results = []\n", 'D1'),
    Mutant('best-is-min', BASE, "        best_score = max([r['grade_decimal'] for r in results])", "        best_score = min([r['grade_decimal'] for r in results])", 'D2'),
    Mutant('best-of-first', BASE, "        best_score = max([r['grade_decimal'] for r in results])", "        best_score = results[0]['grade_decimal']", 'D2'),
    Mutant('shortest-message', BASE, "        best_result_with_longest_msg = max(best_results, key=lambda r: len(r['msg']))",
           "        best_result_with_longest_msg = min(best_results, key=lambda r: len(r['msg']))", 'D2'),
    Mutant('negated-length-key', BASE, "        best_result_with_longest_msg = max(best_results, key=lambda r: len(r['msg']))",
           "        best_result_with_longest_msg = max(best_results, key=lambda r: -len(r['msg']))", 'D2'),
    Mutant('first-of-ties', BASE, "        best_result_with_longest_msg = max(best_results, key=lambda r: len(r['msg']))",
           "        best_result_with_longest_msg = best_results[0]", 'D2'),
    Mutant('longest-message-of-all', BASE, "        best_result_with_longest_msg = max(best_results, key=lambda r: len(r['msg']))",
           "        best_result_with_longest_msg = max(results, key=lambda r: len(r['msg']))", 'D2'),
    Mutant('candidates-not-best', BASE, "        best_results = [r for r in results if r['grade_decimal'] == best_score]",
           "        best_results = [r for r in results if r['grade_decimal'] != best_score]", 'D2'),
    Mutant('candidates-unfiltered', BASE, "        best_results = [r for r in results if r['grade_decimal'] == best_score]",
           "        best_results = [r for r in results]", 'D2'),
    Mutant('wrong-msg-or', BASE, "        if best_result_with_longest_msg['msg'] == \"\" and best_score == 0:",
           "        if best_result_with_longest_msg['msg'] == \"\" or best_score == 0:", 'D3'),
    Mutant('wrong-msg-ignores-message', BASE, "        if best_result_with_longest_msg['msg'] == \"\" and best_score == 0:", "        if best_score == 0:", 'D3'),
    Mutant('wrong-msg-ignores-score', BASE, "        if best_result_with_longest_msg['msg'] == \"\" and best_score == 0:",
           "        if best_result_with_longest_msg['msg'] == \"\":", 'D3'),
    Mutant('wrong-msg-below-full', BASE, "        if best_result_with_longest_msg['msg'] == \"\" and best_score == 0:",
           "        if best_result_with_longest_msg['msg'] == \"\" and best_score < 1:", 'D3'),
    Mutant('wrong-msg-when-message-present', BASE, "        if best_result_with_longest_msg['msg'] == \"\" and best_score == 0:",
           "        if best_result_with_longest_msg['msg'] != \"\" and best_score == 0:", 'D3'),
    Mutant('wrong-msg-never', BASE, "            best_result_with_longest_msg['msg'] = self.config[\"wrong_msg\"]\n", "            pass\n", 'D3'),
    Mutant('copy-dropped', BASE, "            answercopy = answer.copy()\n", "            answercopy = answer\n", 'D4'),
    Mutant('narrow-in-place', BASE, "                answercopy['expect'] = entry\n" + _LOOP,
           "                answer['expect'] = entry\n                result = self.check_response(answer, student_input, **kwargs)\n                results.append(result)\n", 'D4'),
]

BENIGN = [
    Benign('generator-max', BASE, "        best_score = max([r['grade_decimal'] for r in results])", "        best_score = max(r['grade_decimal'] for r in results)"),
    Benign('append-call-directly', BASE, _LOOP, "                results.append(self.check_response(answercopy, student_input, **kwargs))\n"),
    Benign('dict-copy', BASE, "            answercopy = answer.copy()\n", "            answercopy = dict(answer)\n"),
    Benign('copy-per-entry', BASE, "            answercopy = answer.copy()\n            for entry in answer['expect']:\n                answercopy['expect'] = entry\n",
           "            for entry in answer['expect']:\n                answercopy = answer.copy()\n                answercopy['expect'] = entry\n"),
    Benign('wrong-msg-reordered', BASE, "        if best_result_with_longest_msg['msg'] == \"\" and best_score == 0:",
           "        if 0 == best_score and not best_result_with_longest_msg['msg']:"),
    Benign('filter-flipped', BASE, "        best_results = [r for r in results if r['grade_decimal'] == best_score]",
           "        best_results = [res for res in results if best_score == res['grade_decimal']]"),
    Benign('log-in-loop', BASE, _LOOP, _LOOP + "                self.log('checked one alternative')\n"),
]
