"""C08 -- among alternative answers the student always receives the best-scoring one."""
import ast

from ..index import AnalysisError, walk_own, unparse, short, ancestors, enclosing_stmt
from ..cfg import cfg_of
from ..effects import FunctionEffects
from .. import nf, lib
from ..selftest import Mutant, Benign
from . import _c04_flow as fl
from . import _c08_policy as pol

ID = 'C08'
BASE = 'mitxgraders/baseclasses.py'
FILES = [BASE, 'mitxgraders/formulagrader/matrixgrader.py']

EXPLANATION = (
    'Structural rules on ItemGrader.check after inlining of newly extracted helpers (one helper that hosts the '
    'check_response loop is followed through its call): (D1) the two iteration constructs (nested for loops or '
    "a two-generator comprehension) range over the complete answers / answer['expect'], have no "
    'break/continue/return resp. no filter, and each (fresh copy of the answer with expect narrowed to the '
    'entry, student input, **kwargs) yields exactly one collected result; answers default to '
    "config['answers']; (D2) seen through temporaries, tuple assignments and key functions given as lambda / "
    'nested def / method: returned value = max by len(msg) over the candidates, candidates = collected results '
    'whose grade_decimal equals best, best = max of grade_decimal over ALL collected results, selection after '
    'the collection; (D3) decision paths of the statements after the selection, evaluated over the complete '
    "domain (winner's message empty / non-empty) x (order type of the best grade in [0,1] against every "
    'constant it is compared with): the wrong_msg store is executed exactly for (empty, 0) and every path '
    'returns the winner; (D4) alias/mutation facts (sa.effects): no store reaches the configured or passed '
    'answers; the narrowed object is a fresh copy. '
)
NOT_DECIDED = (
    'what each check_response returns (subgrader semantics, comparers that raise); that grade_decimal values '
    'are comparable numbers; canonicalisation of the alternatives by schema_answers (C20); shapes of check '
    'outside the recognised iteration / selection forms (analysis-error). '
)
ASSUMPTIONS = ["subclasses of ItemGrader do not override check (verified: D1 reports any override as undecided)"]

IG_CHECK = 'mitxgraders.baseclasses.ItemGrader.check'
ITEM = 'mitxgraders.baseclasses.ItemGrader'


def check(ctx):
    idx = ctx.index
    info = d1_loops(ctx, idx)
    d2_selection(ctx, idx, info)
    d3_wrong_msg(ctx, idx, info)
    d4_copy(ctx, idx, info)
    d5_alternative_errors(ctx, idx)


def d5_alternative_errors(ctx, idx):
    """A matrix-related error raised while ONE alternative is compared is graded as a zero-credit result of that alternative
    (so that the other alternatives still compete) exactly when the configuration says so; decided over the complete
    domain (suppress_matrix_messages, shape_errors, answer_shape_mismatch.is_raised) x error class."""
    r = ctx.rule('D5.ALTERROR', 'MatrixGrader.check_response turns matrix errors of one alternative into a zero-credit result / '
                 're-raises them as configured (suppress_matrix_messages, shape_errors, answer_shape_mismatch.is_raised)', floor=4)
    with r:
        q = 'mitxgraders.formulagrader.matrixgrader.MatrixGrader.check_response'
        if not idx.has_func(q):
            r.undecided('MatrixGrader.check_response', 'no per-alternative override found (see D1 for an override of check)', '')
            return
        fi = idx.func(q)
        sup = [c for c in lib.calls_named(fi.node, 'check_response') if isinstance(c.func, ast.Attribute) and isinstance(c.func.value, ast.Call)
               and nf.callee_name(c.func.value) == 'super']
        trs = [t for c in sup for t in lib.enclosing_trys(c)]
        if not sup:
            # the call (with its `with` block) moved into a new helper method that check_response calls inside the try
            for c in walk_own(fi.node):
                if isinstance(c, ast.Call) and isinstance(c.func, ast.Attribute) and fl.name_of(c.func.value) == fi.params[0]:
                    try:
                        tg, how = idx.resolve_call(fi, c)
                    except Exception:
                        tg = []
                    for t_ in tg:
                        if not isinstance(t_, tuple) and t_.qualname in (idx.unreviewed or []) and any(
                                isinstance(x, ast.Call) and nf.callee_name(x) == 'check_response' and isinstance(x.func, ast.Attribute)
                                and isinstance(x.func.value, ast.Call) and nf.callee_name(x.func.value) == 'super' for x in walk_own(t_.node)):
                            sup = [c]
                            trs = lib.enclosing_trys(c)
        if len(sup) != 1 or len(trs) != 1:
            r.undecided('MatrixGrader.check_response', 'expected one try around super().check_response(...), found %d' % len(trs), fi.loc)
            return
        try:
            table = pol.decide(idx, fi, trs[0])
        except pol.Unknown as e:
            r.undecided('MatrixGrader.check_response', 'handler layout outside the recognised forms (%s)' % e, lib.loc(fi, trs[0]))
            return
        names = {pol.SHAPE: 'ShapeError (MathArrayShapeError)', pol.INPUT: 'InputTypeError', pol.ARGSHAPE: 'ArgumentShapeError',
                 pol.MATHARRAY: 'MathArrayError'}
        for qual, label in names.items():
            wrong = [(k, v) for k, v in sorted(table.items(), key=lambda kv: str(kv[0])) if k[3] == qual and v != pol.expected(*k)]
            construct = 'MatrixGrader.check_response: %s' % label
            if not wrong:
                r.ok(construct, 'graded / re-raised as configured in all 8 configurations', lib.loc(fi, trs[0]))
                continue
            (sp, she, isr, _), got = wrong[0]
            want = pol.expected(sp, she, isr, qual)
            cfgtxt = 'suppress_matrix_messages=%s, shape_errors=%s, answer_shape_mismatch.is_raised=%s' % (sp, she, isr)

            def say(o):
                if o == ('raise',):
                    return 'raised to the student'
                if isinstance(o, tuple) and o and o[0] == 'result':
                    return 'graded as {ok: %r, grade_decimal: %r, msg: %s}' % (o[1], o[2], 'the error text' if o[3] == 'TEXT-OF-ERROR' else repr(o[3]))
                return 'neither graded nor raised (%r)' % (o,)
            firstmatch = any(isinstance(n, ast.Call) and nf.callee_name(n) == 'next' for h in trs[0].handlers for n in ast.walk(h))
            hint = (' [the handler picks the FIRST policy row whose configuration test holds and only then checks whether that row covers '
                    'the error class: a later row that does cover it is never consulted]' if firstmatch and got == ('raise',) else '')
            r.violation(construct, ('with %s a %s while comparing one alternative is %s, but must be %s: %s (%d of 8 configurations differ)'
                                    + hint.replace('%', '%%'))
                        % (cfgtxt, label, say(got), say(want),
                           'the whole submission then fails with that error although another alternative may earn credit'
                           if got == ('raise',) else 'the error is hidden from / shown to the student against the configuration',
                           len(wrong)), lib.loc(fi, trs[0]), expected=say(want), found=say(got))


class Info(object):
    results = None      # name (in check) of the list of collected results
    outer = None
    inner = None
    host = None         # FuncInfo of the function containing the check_response call
    call = None
    comp = None
    comp_vars = None
    narrowed = None     # name of the narrowed copy when it is not the first argument of the call (generator form)
    collect_anchor = None
    best_name = None


# ----------------------------------------------------------------------------- D1
FRESH_NARROWED = ["dict(_A, expect=_E)", "{**_A, 'expect': _E}", "merge_dicts(_A, {'expect': _E})", "dict(_A, **{'expect': _E})"]


def _self_calls(fn_node, selfname, name, own=True):
    return [c for c in lib.calls_named(fn_node, name, own) if isinstance(c.func, ast.Attribute) and fl.name_of(c.func.value) == selfname]


def _locate_host(idx, fi):
    """The function that contains the self.check_response(...) call: check itself or ONE newly extracted helper (method,
    function or nested def) that check calls with its answers / student input.  -> (host FuncInfo, answers param,
    input param, name bound to the collected results in check or None)."""
    p_self, p_answers, p_input = fi.params[0], fi.params[1], fi.params[2]
    if _self_calls(fi.node, p_self, 'check_response'):
        return fi, p_answers, p_input, None
    cands = []
    for q in list(idx.unreviewed) + [f.qualname for f in idx.funcs.values() if f.outer is fi]:
        if not idx.has_func(q):
            continue
        h = idx.func(q)
        hself = h.params[0] if h.cls is not None and not h.is_static and h.params else p_self
        if _self_calls(h.node, hself, 'check_response') and h not in cands:
            cands.append(h)
    if len(cands) != 1:
        raise AnalysisError('ItemGrader.check: expected one self.check_response call, found %d in check and %d in new helpers'
                            % (0, len(cands)))
    h = cands[0]
    sites = [c for c in walk_own(fi.node) if isinstance(c, ast.Call) and nf.callee_name(c) == h.name]
    if len(sites) != 1:
        raise AnalysisError('ItemGrader.check: helper %s is called %d times' % (h.name, len(sites)))
    site = sites[0]
    params = [p for p in h.params]
    if h.cls is not None and not h.is_static and isinstance(site.func, ast.Attribute):
        params = params[1:]
    mapping = dict(zip(params, site.args))
    for k in site.keywords:
        if k.arg:
            mapping[k.arg] = k.value
    alias = {p_answers}
    for n in walk_own(fi.node):
        if isinstance(n, ast.Assign) and len(n.targets) == 1 and isinstance(n.targets[0], ast.Name) and isinstance(n.value, ast.Name) \
                and (n.value.id in alias or n.targets[0].id in alias):
            alias |= {n.value.id, n.targets[0].id}
    pa = [p for p, a in mapping.items() if fl.name_of(a) in alias]
    pi = [p for p, a in mapping.items() if fl.name_of(a) == p_input]
    if len(pa) != 1:
        raise AnalysisError('ItemGrader.check: helper %s does not receive the answers' % h.name)
    hin = pi[0] if len(pi) == 1 else (p_input if h.outer is fi else None)
    if hin is None:
        raise AnalysisError('ItemGrader.check: helper %s does not receive the student input' % h.name)
    st = enclosing_stmt(site)
    val = st.value if isinstance(st, ast.Assign) else None
    while isinstance(val, ast.Call) and isinstance(val.func, ast.Name) and val.func.id in ('list', 'tuple') and len(val.args) == 1 \
            and val is not site:
        val = val.args[0]                       # list(<generator helper>(...))
    bound = st.targets[0].id if isinstance(st, ast.Assign) and val is site and len(st.targets) == 1 \
        and isinstance(st.targets[0], ast.Name) else None
    if bound is None:
        raise AnalysisError('ItemGrader.check: the result of helper %s is not bound to a name' % h.name)
    return h, pa[0], hin, bound


def _check_override(r, idx, ci):
    """An override of check() wraps the WHOLE loop over the alternatives.  Error-to-result conversions belong inside the
    per-alternative call (check_response or below): a try/except around super().check(...) whose handler returns a result
    makes the first alternative that raises decide the submission, short-circuiting the max over the alternatives."""
    f = ci.methods['check']
    name = ci.qualname + '.check'
    supers = [c for c in lib.calls_named(f.node, 'check') if isinstance(c.func, ast.Attribute) and isinstance(c.func.value, ast.Call)
              and nf.callee_name(c.func.value) == 'super']
    reported = False
    for c in supers:
        for tr in lib.enclosing_trys(c):
            for h in tr.handlers:
                for p in nf.decision_paths(h.body):
                    if p.leaf.kind == 'ret' and not (isinstance(p.leaf.expr, ast.Constant) and p.leaf.expr.value is None):
                        r.violation(name, 'the override wraps the whole loop over the alternatives (`%s`) in a try whose `except %s` handler '
                                    'returns the result `%s`: the first alternative whose comparison raises aborts the loop, so an input that '
                                    'earns credit against ANOTHER alternative is graded with this result instead of the best one; such '
                                    'error-to-result conversions must sit inside the per-alternative call (check_response)'
                                    % (short(c, 60), '/'.join(lib.handler_class_names(h)), short(p.leaf.expr, 60)), lib.loc(f, h),
                                    expected='try/except inside check_response')
                        reported = True
                        break
                if reported:
                    break
            if reported:
                break
    if not reported:
        r.undecided(name, 'unreviewed override of ItemGrader.check', f.loc)


def d1_loops(ctx, idx):
    r = ctx.rule('D1.LOOPFULL', 'every alternative and every entry of its expect tuple is checked, one result each', floor=7)
    info = Info()
    with r:
        fi = idx.func(IG_CHECK)
        C = 'ItemGrader.check'
        # no subclass re-implements check
        for ci in idx.family(ITEM):
            if ci.qualname != ITEM and 'check' in ci.methods:
                _check_override(r, idx, ci)
        hfi, p_answers, p_input, bound = _locate_host(idx, fi)
        info.host = hfi
        hself = hfi.params[0] if hfi.cls is not None and not hfi.is_static and hfi.params else fi.params[0]
        calls = _self_calls(hfi.node, hself, 'check_response')
        if len(calls) != 1:
            raise AnalysisError('ItemGrader.check: expected one self.check_response call, found %d' % len(calls))
        call = calls[0]
        info.call = call
        where = lib.loc(hfi, call)
        # the default: answers = config['answers'] if answers is None else answers  (in check itself; through aliases)
        ca = fi.params[1]
        alias = {ca}
        changed = True
        while changed:
            changed = False
            for n in walk_own(fi.node):
                if isinstance(n, ast.Assign) and len(n.targets) == 1 and isinstance(n.targets[0], ast.Name) and isinstance(n.value, ast.Name):
                    a_, b_ = n.targets[0].id, n.value.id
                    if (a_ in alias) != (b_ in alias):
                        alias |= {a_, b_}
                        changed = True
        found_default = None
        for n in walk_own(fi.node):
            if isinstance(n, ast.Assign) and len(n.targets) == 1 and fl.name_of(n.targets[0]) in alias:
                for x in alias:
                    for y in alias:
                        if nf.match("self.config['answers'] if %s is None else %s" % (x, y), n.value) is not None or \
                                nf.match("%s if %s is not None else self.config['answers']" % (y, x), n.value) is not None:
                            found_default = n
            if isinstance(n, ast.If) and not n.orelse and len(n.body) == 1 and isinstance(n.body[0], ast.Assign) \
                    and fl.name_of(n.body[0].targets[0]) in alias and lib.is_config(n.body[0].value, 'answers') \
                    and any(nf.match('%s is None' % x, n.test) is not None for x in alias):
                found_default = n
        if found_default is not None:
            r.ok(C + ': answers default', "config['answers'] when no answers are passed", lib.loc(fi, found_default))
        else:
            r.undecided(C + ': answers default', 'default for answers=None not recognised', fi.loc)
        comp = [a for a in ancestors(call) if isinstance(a, (ast.ListComp, ast.GeneratorExp))]
        loops = list(reversed([a for a in ancestors(call) if isinstance(a, (ast.For, ast.While))]))       # outermost first
        if comp and not loops:
            _d1_comprehension(r, idx, fi, hfi, C, comp[-1], call, p_answers, p_input, info, bound)
            return info
        if not loops:
            fl.absent(r, idx, C + ': loop over answers', 'check_response is no longer called in a loop over the alternatives: only one '
                      'alternative is ever compared', where)
            return info
        outer = loops[0]
        info.outer = outer
        # ---- outer loop
        if not (isinstance(outer, ast.For) and isinstance(outer.target, ast.Name)):
            r.undecided(C + ': loop over answers', 'loop header not recognised', lib.loc(hfi, outer))
            return info
        av = outer.target.id
        it, _ = fl.unwrap_seq(outer.iter)
        if isinstance(it, ast.Name) and it.id == p_answers:
            r.ok(C + ': loop over answers', 'iterates over the complete answers tuple', lib.loc(hfi, outer))
        elif isinstance(it, ast.Subscript) and fl.mentions(it.value, p_answers):
            r.violation(C + ': loop over answers', 'only part of the alternatives is examined (`%s`): a better-scoring alternative '
                        'listed elsewhere is ignored, so the grade depends on the listing order' % short(it), lib.loc(hfi, outer),
                        expected='for answer in %s' % p_answers, found=unparse(it))
        elif isinstance(it, ast.Call) and nf.callee_name(it) in ('reversed', 'sorted') and len(it.args) == 1 \
                and fl.name_of(it.args[0]) == p_answers:
            r.ok(C + ': loop over answers', 'iterates over all answers (%s)' % nf.callee_name(it), lib.loc(hfi, outer))
        else:
            r.undecided(C + ': loop over answers', 'iteration not recognised: %s' % short(it), lib.loc(hfi, outer))
        # ---- inner loop over the expect tuple
        if len(loops) >= 2:
            inner = loops[1]
            info.inner = inner
            if not (isinstance(inner, ast.For) and isinstance(inner.target, ast.Name)):
                r.undecided(C + ': loop over expect entries', 'loop header not recognised', lib.loc(hfi, inner))
            else:
                it2, _ = fl.unwrap_seq(inner.iter)
                if nf.match("%s['expect']" % av, it2) is not None:
                    r.ok(C + ': loop over expect entries', "iterates over the complete answer['expect'] tuple", lib.loc(hfi, inner))
                elif isinstance(it2, ast.Subscript) and nf.match("%s['expect']" % av, it2.value) is not None:
                    r.violation(C + ': loop over expect entries', 'only part of the expect tuple is examined (`%s`): an input matching '
                                'another entry of the tuple is graded wrong' % short(it2), lib.loc(hfi, inner),
                                expected="for entry in %s['expect']" % av, found=unparse(it2))
                else:
                    r.undecided(C + ': loop over expect entries', 'iteration not recognised: %s' % short(it2), lib.loc(hfi, inner))
        else:
            picks = [n for n in ast.walk(outer) if isinstance(n, ast.Subscript) and isinstance(n.ctx, ast.Load)
                     and nf.match("%s['expect']" % av, n.value) is not None and isinstance(n.slice, ast.Constant)]
            if picks:
                r.violation(C + ': loop over expect entries', 'only entry `%s` of the expect tuple is checked: the other accepted values '
                            'of the alternative are never compared' % short(picks[0]), lib.loc(hfi, picks[0]),
                            expected="for entry in %s['expect']" % av)
            else:
                r.undecided(C + ': loop over expect entries', 'no nested loop over the expect tuple found', lib.loc(hfi, outer))
        # ---- no early exit
        for lp, what in ((outer, 'loop over answers'), (info.inner, 'loop over expect entries')):
            if lp is None:
                continue
            exits = [e for e in lib.loop_has_early_exit(lp) if not isinstance(e, ast.Raise)]
            if lp is outer and info.inner is not None:
                inner_ids = {id(n) for n in ast.walk(info.inner)}
                exits = [e for e in exits if id(e) not in inner_ids]
            if exits:
                for e in exits:
                    r.violation(C + ': ' + what, '`%s` leaves or skips the loop: the remaining alternatives are not compared, so the '
                                'first hit wins instead of the best one' % short(e), lib.loc(hfi, e))
            else:
                r.ok(C + ': ' + what + ' [exits]', 'no break/continue/return', lib.loc(hfi, lp))
        # ---- one result per (answer, entry), unconditionally
        st = enclosing_stmt(call)
        apps = [c for c in ast.walk(outer) if isinstance(c, ast.Call) and nf.callee_name(c) == 'append'
                and isinstance(c.func, ast.Attribute) and isinstance(c.func.value, ast.Name)]
        prov_ok = []
        for a in apps:
            arg = a.args[0] if len(a.args) == 1 else None
            if arg is None:
                continue
            if arg is call or (isinstance(arg, ast.Name) and isinstance(st, ast.Assign)
                               and any(fl.name_of(t) == arg.id for t in st.targets)):
                prov_ok.append(a)
        yields = [y for y in ast.walk(outer) if isinstance(y, ast.Yield)] if hfi is not fi else []
        if not prov_ok and len(yields) == 1:
            # the host is a generator: each result is yielded and the caller collects the generator into a list
            y = yields[0]
            yv = y.value
            is_res = yv is call or (isinstance(yv, ast.Name) and isinstance(st, ast.Assign) and any(fl.name_of(t) == yv.id for t in st.targets))
            yst = enclosing_stmt(y)
            innermost = loops[-1]
            conds = [a for a, br in fl.if_chain_containing(yst, hfi.node) if any(a is x for x in ast.walk(outer))]
            if conds:
                r.violation(C + ': results', 'a result is only yielded under `%s`: the other alternatives drop out of the comparison'
                            % short(conds[0].test), lib.loc(hfi, yst))
            elif is_res and any(s_ is yst for s_ in innermost.body):
                r.ok(C + ': results', 'one result yielded per (answer, entry); the caller collects them all', lib.loc(hfi, yst))
            else:
                r.undecided(C + ': results', 'yield not recognised: %s' % short(yst), lib.loc(hfi, yst))
            r.ok(C + ': results list', 'list(<generator>) in check collects every yielded result', lib.loc(fi, fi.node))
            info.results = bound
            _d1_call_args(r, C, hfi, call, p_input, where)
            return info
        if len(prov_ok) != 1:
            if not prov_ok:
                fl.absent(r, idx, C + ': results', 'the result of check_response is no longer appended to the list of results', where)
                return info
            raise AnalysisError('ItemGrader.check: several appends of the check_response result')
        app = prov_ok[0]
        acc = app.func.value.id
        innermost = loops[-1]
        same_body = any(s is enclosing_stmt(app) for s in innermost.body) and any(s is st for s in innermost.body)
        conds = [a for a, br in fl.if_chain_containing(app, hfi.node) if any(a is x for x in ast.walk(outer))]
        if conds:
            r.violation(C + ': results', 'a result is only recorded under `%s`: the other alternatives drop out of the comparison '
                        '(and max() of an empty list raises when nothing qualifies)' % short(conds[0].test), lib.loc(hfi, app))
        elif same_body and lib.dominated(hfi, [call], [app]):
            r.ok(C + ': results', 'one result appended per (answer, entry)', lib.loc(hfi, app))
        else:
            r.undecided(C + ': results', 'append not directly in the innermost loop body', lib.loc(hfi, app))
        inits = lib.assigned_value(hfi.node, acc)
        in_loop = [v for v in inits if fl.enclosing_loop(v, hfi.node) is not None]
        if len(inits) == 1 and isinstance(inits[0], ast.List) and not inits[0].elts and not in_loop:
            r.ok(C + ': results list', 'starts empty before the loops', lib.loc(hfi, inits[0]))
        elif in_loop and all(isinstance(v, ast.List) for v in in_loop):
            r.violation(C + ': results list', 'the list of results is re-created inside the loop (`%s = %s`): only the results of the '
                        'last alternative survive' % (acc, unparse(in_loop[0])), lib.loc(hfi, in_loop[0]))
        else:
            r.undecided(C + ': results list', 'initialisation not recognised', hfi.loc)
        if hfi is fi:
            info.results = acc
        else:
            rets = lib.returns_of(hfi.node)
            if len(rets) == 1 and fl.name_of(rets[0].value) == acc:
                info.results = bound
            else:
                r.undecided(C + ': results', 'helper %s does not return the collected list' % hfi.name, hfi.loc)
        _d1_call_args(r, C, hfi, call, p_input, where)
    return info


def _d1_call_args(r, C, hfi, call, p_input, where):
    a1 = call.args[1] if len(call.args) > 1 else None
    if not (isinstance(a1, ast.Name) and a1.id == p_input):
        r.undecided(C + ': check_response(...)', 'second argument is not the student input parameter', where)
    kw = hfi.node.args.kwarg.arg if hfi.node.args.kwarg else None
    fwd = [k for k in call.keywords if k.arg is None]
    if kw and not (len(fwd) == 1 and fl.name_of(fwd[0].value) == kw):
        r.undecided(C + ': check_response(...)', '**%s is not forwarded' % kw, where)


def _d1_generator_host(r, idx, fi, hfi, C, comp, call, p_answers, p_input, info, bound):
    """`[self.check_response(c, input, **kw) for c in <new generator helper>(answers)]` where the helper holds the two loops
    and yields the narrowed copy.  Returns False if the shape is not this one (nothing recorded)."""
    g = comp.generators[0]
    gcall = g.iter
    gname = nf.callee_name(gcall)
    cands = [idx.func(q) for q in idx.unreviewed if idx.has_func(q) and q.rsplit('.', 1)[-1] == gname]
    cands += [f for f in idx.funcs.values() if f.outer is hfi and f.name == gname]
    if len(cands) != 1:
        return False
    gen = cands[0]
    yields = [n for n in walk_own(gen.node) if isinstance(n, (ast.Yield, ast.YieldFrom))]
    if len(yields) != 1 or not isinstance(yields[0], ast.Yield) or not isinstance(yields[0].value, ast.Name):
        return False
    params = list(gen.params)
    if gen.cls is not None and not gen.is_static and isinstance(gcall.func, ast.Attribute):
        params = params[1:]
    mapping = dict(zip(params, gcall.args))
    pa = [p for p, a in mapping.items() if fl.name_of(a) == p_answers]
    if len(pa) != 1 or gcall.keywords:
        return False
    ga = pa[0]
    y = yields[0]
    yst = enclosing_stmt(y)
    loops = list(reversed([a for a in ancestors(y) if isinstance(a, (ast.For, ast.While))]))
    where = lib.loc(gen, y)
    if len(loops) != 2 or not all(isinstance(l, ast.For) and isinstance(l.target, ast.Name) for l in loops):
        r.undecided(C + ': loop over answers', 'generator helper %s does not consist of two nested for loops' % gen.name, where)
        return True
    outer, inner = loops
    av = outer.target.id
    it, _ = fl.unwrap_seq(outer.iter)
    if fl.name_of(it) == ga:
        r.ok(C + ': loop over answers', 'the generator iterates over the complete answers tuple', lib.loc(gen, outer))
    elif isinstance(it, ast.Subscript) and fl.mentions(it.value, ga):
        r.violation(C + ': loop over answers', 'only part of the alternatives is examined (`%s`)' % short(it), lib.loc(gen, outer))
    else:
        r.undecided(C + ': loop over answers', 'iteration not recognised: %s' % short(it), lib.loc(gen, outer))
    it2, _ = fl.unwrap_seq(inner.iter)
    if nf.match("%s['expect']" % av, it2) is not None:
        r.ok(C + ': loop over expect entries', "the generator iterates over the complete answer['expect'] tuple", lib.loc(gen, inner))
    elif isinstance(it2, ast.Subscript) and nf.match("%s['expect']" % av, it2.value) is not None:
        r.violation(C + ': loop over expect entries', 'only part of the expect tuple is examined (`%s`)' % short(it2), lib.loc(gen, inner))
    else:
        r.undecided(C + ': loop over expect entries', 'iteration not recognised: %s' % short(it2), lib.loc(gen, inner))
    inner_ids = {id(n) for n in ast.walk(inner)}
    for lp, what in ((outer, 'loop over answers'), (inner, 'loop over expect entries')):
        exits = [e for e in lib.loop_has_early_exit(lp) if not isinstance(e, ast.Raise)]
        if lp is outer:
            exits = [e for e in exits if id(e) not in inner_ids]
        if exits:
            r.violation(C + ': ' + what, '`%s` leaves or skips the loop of the generator: the remaining alternatives are not compared'
                        % short(exits[0]), lib.loc(gen, exits[0]))
        else:
            r.ok(C + ': ' + what + ' [exits]', 'no break/continue/return', lib.loc(gen, lp))
    conds = [a for a, br in fl.if_chain_containing(yst, gen.node)]
    direct = any(s_ is yst for s_ in inner.body)
    elt_ok = comp.elt is call and call.args and fl.name_of(call.args[0]) == g.target.id
    if conds:
        r.violation(C + ': results', 'an (answer, entry) pair is only yielded under `%s`: the other alternatives are not compared'
                    % short(conds[0].test), where)
    elif direct and elt_ok:
        r.ok(C + ': results', 'one yielded copy per (answer, entry), one check_response result per yielded copy', where)
    else:
        r.undecided(C + ': results', 'yield / comprehension element not recognised', where)
    st = enclosing_stmt(comp)
    name = st.targets[0].id if isinstance(st, ast.Assign) and len(st.targets) == 1 and isinstance(st.targets[0], ast.Name) else None
    if isinstance(comp, ast.ListComp) and name and st.value is comp and fl.enclosing_loop(st, hfi.node) is None and hfi is fi:
        r.ok(C + ': results list', 'bound once to the comprehension', lib.loc(hfi, comp))
        info.results = name
    else:
        r.undecided(C + ': results list', 'the comprehension is not bound to a plain name in check', lib.loc(hfi, comp))
    info.host, info.outer, info.inner, info.narrowed = gen, outer, inner, y.value.id
    info.collect_anchor = comp
    _d1_call_args(r, C, hfi, call, p_input, lib.loc(hfi, call))
    return True


def _d1_comprehension(r, idx, fi, hfi, C, comp, call, p_answers, p_input, info, bound):
    """`[self.check_response(<fresh narrowed copy>, input, **kw) for answer in answers for entry in answer['expect']]`"""
    where = lib.loc(hfi, comp)
    gens = comp.generators
    if len(gens) == 1 and isinstance(gens[0].target, ast.Name) and isinstance(gens[0].iter, ast.Call) and not gens[0].ifs \
            and _d1_generator_host(r, idx, fi, hfi, C, comp, call, p_answers, p_input, info, bound):
        return
    if len(gens) != 2 or not all(isinstance(g.target, ast.Name) for g in gens):
        r.undecided(C + ': loop over answers', 'comprehension with %d generators not recognised' % len(gens), where)
        return
    g0, g1 = gens
    av, ev_ = g0.target.id, g1.target.id
    it, _ = fl.unwrap_seq(g0.iter)
    if fl.name_of(it) == p_answers:
        r.ok(C + ': loop over answers', 'iterates over the complete answers tuple', where)
    elif isinstance(it, ast.Subscript) and fl.mentions(it.value, p_answers):
        r.violation(C + ': loop over answers', 'only part of the alternatives is examined (`%s`)' % short(it), where)
    else:
        r.undecided(C + ': loop over answers', 'iteration not recognised: %s' % short(it), where)
    it2, _ = fl.unwrap_seq(g1.iter)
    if nf.match("%s['expect']" % av, it2) is not None:
        r.ok(C + ': loop over expect entries', "iterates over the complete answer['expect'] tuple", where)
    elif isinstance(it2, ast.Subscript) and nf.match("%s['expect']" % av, it2.value) is not None:
        r.violation(C + ': loop over expect entries', 'only part of the expect tuple is examined (`%s`)' % short(it2), where)
    else:
        r.undecided(C + ': loop over expect entries', 'iteration not recognised: %s' % short(it2), where)
    for g, what in ((g0, 'loop over answers'), (g1, 'loop over expect entries')):
        if g.ifs:
            r.violation(C + ': ' + what, 'the comprehension skips elements under `%s`: those alternatives are not compared'
                        % short(g.ifs[0]), where)
        else:
            r.ok(C + ': ' + what + ' [exits]', 'a comprehension visits every element', where)
    if comp.elt is call:
        r.ok(C + ': results', 'one result per (answer, entry)', where)
    else:
        r.undecided(C + ': results', 'the comprehension does not yield the check_response result directly', where)
    st = enclosing_stmt(comp)
    name = st.targets[0].id if isinstance(st, ast.Assign) and len(st.targets) == 1 and isinstance(st.targets[0], ast.Name) else None
    if isinstance(comp, ast.ListComp) and name and st.value is comp and fl.enclosing_loop(st, hfi.node) is None:
        r.ok(C + ': results list', 'bound once to the comprehension', where)
        if hfi is fi:
            info.results = name
        else:
            rets = lib.returns_of(hfi.node)
            if len(rets) == 1 and fl.name_of(rets[0].value) == name:
                info.results = bound
    elif isinstance(comp, ast.ListComp) and hfi is not fi and isinstance(st, ast.Return) and st.value is comp:
        r.ok(C + ': results list', 'returned by the helper', where)
        info.results = bound
    else:
        r.undecided(C + ': results list', 'the comprehension is not bound to a plain name', where)
    info.comp = comp
    info.comp_vars = (av, ev_)
    _d1_call_args(r, C, hfi, call, p_input, where)


# ----------------------------------------------------------------------------- D2
def _follow(expr, env, limit=8):
    """Follow plain-name temporaries: x -> env[x] -> ..."""
    seen = []
    while isinstance(expr, ast.Name) and expr.id in env and limit > 0:
        seen.append(expr.id)
        expr = env[expr.id]
        limit -= 1
    return expr, seen


def _key_sign(key, fi, idx):
    """+1 if the key function is r -> len(r['msg']), -1 for r -> -len(r['msg']), None otherwise (lambda, nested def, method)."""
    uf = fl.unary_function(key, fi.node, idx, fi)
    if uf is None:
        return None
    p, body = uf
    body = nf.canon(body)
    if nf.match("len(%s['msg'])" % p, body) is not None:
        return 1
    if nf.match("-len(%s['msg'])" % p, body) is not None:
        return -1
    return None


def _fold_selection(r, fi, C, info, res_name, wname, env):
    """Running-best idiom: `best = results[0]; for x in results[1:]: if COND(x, best): best = x`.  COND is decided over the
    complete order domain (grade of x <, =, > grade of best) x (len(msg) of x <, =, > len(msg) of best): the best must be
    replaced iff the grade is higher, or equal with a longer message ((=, =) is left open: the property does not say which of
    two equally long messages is shown)."""
    binds = [n for n in walk_own(fi.node) if isinstance(n, ast.Assign) and any(fl.name_of(t) == wname for t in n.targets)]
    init = [n for n in binds if fl.enclosing_loop(n, fi.node) is None]
    upd = [n for n in binds if fl.enclosing_loop(n, fi.node) is not None]
    if len(init) != 1 or len(upd) != 1:
        return False
    init, upd = init[0], upd[0]
    loop = fl.enclosing_loop(upd, fi.node)
    if not (isinstance(loop, ast.For) and isinstance(loop.target, ast.Name) and fl.name_of(upd.value) == loop.target.id):
        return False
    xv = loop.target.id
    where = lib.loc(fi, loop)
    # aliases of the current best inside the loop body (`best = best_result_with_longest_msg`)
    best_alias = {wname}
    for n in ast.walk(loop):
        if isinstance(n, ast.Assign) and len(n.targets) == 1 and isinstance(n.targets[0], ast.Name) and fl.name_of(n.value) in best_alias \
                and n.targets[0].id != wname:
            best_alias.add(n.targets[0].id)
    # ---- coverage: init = results[0], loop over results[1:] or over all results
    seq, _ = fl.unwrap_seq(loop.iter)
    i0 = init.value
    init_ok = isinstance(i0, ast.Subscript) and fl.name_of(i0.value) == res_name and nf.const_value(i0.slice, None) == 0
    if fl.name_of(seq) == res_name:
        cover = True
    elif isinstance(seq, ast.Subscript) and fl.name_of(seq.value) == res_name and isinstance(seq.slice, ast.Slice) \
            and nf.const_value(seq.slice.lower, None) in (0, 1, None) and seq.slice.upper is None and seq.slice.step is None:
        cover = True
    else:
        cover = False
    exits = [e for e in lib.loop_has_early_exit(loop) if not isinstance(e, ast.Raise)]
    if exits:
        r.violation(C + ': candidates', 'the running-best loop is left early (`%s`): later results cannot win' % short(exits[0]), where)
    elif init_ok and cover:
        r.ok(C + ': candidates', 'running best over all results (starts with results[0], visits every other result)', where)
    elif init_ok and isinstance(seq, ast.Subscript) and fl.mentions(seq, res_name):
        r.violation(C + ': candidates', 'the running-best loop visits only `%s`: the other results cannot win' % short(seq), where)
    else:
        r.undecided(C + ': candidates', 'start value / range of the running-best loop not recognised: %s ; %s' % (short(init), short(seq)),
                    where)
    # ---- the update condition over the order domain
    conj = [c for c in fl.reach_condition(upd, fi.node)]
    import operator
    OPS = {ast.Eq: operator.eq, ast.NotEq: operator.ne, ast.Lt: operator.lt, ast.LtE: operator.le, ast.Gt: operator.gt, ast.GtE: operator.ge}

    class Unknown(Exception):
        pass

    def val(e, gx, gb, lx, lb):
        if isinstance(e, ast.Subscript) and lib.subscript_key(e) == 'grade_decimal' and isinstance(e.value, ast.Name):
            if e.value.id == xv:
                return gx
            if e.value.id in best_alias:
                return gb
        if isinstance(e, ast.Call) and isinstance(e.func, ast.Name) and e.func.id == 'len' and len(e.args) == 1 \
                and isinstance(e.args[0], ast.Subscript) and lib.subscript_key(e.args[0]) == 'msg' and isinstance(e.args[0].value, ast.Name):
            if e.args[0].value.id == xv:
                return lx
            if e.args[0].value.id in best_alias:
                return lb
        raise Unknown()

    def truth(e, *v):
        if isinstance(e, ast.BoolOp):
            vals = [truth(x, *v) for x in e.values]
            return all(vals) if isinstance(e.op, ast.And) else any(vals)
        if isinstance(e, ast.UnaryOp) and isinstance(e.op, ast.Not):
            return not truth(e.operand, *v)
        if isinstance(e, ast.Compare) and len(e.ops) == 1 and type(e.ops[0]) in OPS:
            return OPS[type(e.ops[0])](val(e.left, *v), val(e.comparators[0], *v))
        raise Unknown()
    ORD = (('lower', 0, 1), ('equal', 1, 1), ('higher', 2, 1))
    LEN = (('shorter', 0, 1), ('equally long', 1, 1), ('longer', 2, 1))
    wrong = None
    try:
        for gname, gx, gb in ORD:
            for lname, lx, lb in LEN:
                got = all(truth(c, gx, gb, lx, lb) for c in conj)
                if gname == 'equal' and lname == 'equally long':
                    continue
                want = gname == 'higher' or (gname == 'equal' and lname == 'longer')
                if got != want and wrong is None:
                    wrong = (gname, lname, got)
    except Unknown:
        r.undecided(C + ': winner', 'update condition of the running-best loop is not a comparison of grades / message lengths: %s'
                    % ' and '.join(unparse(c) for c in conj), where)
        wrong = 'und'
    cw = lib.loc(fi, upd)
    if wrong is None:
        r.ok(C + ': winner', 'the running best is replaced iff the grade is higher, or equal with a longer message (decided on the 8 '
             'order classes)', cw)
    elif wrong != 'und':
        gname, lname, got = wrong
        r.violation(C + ': winner', 'a result with a %s grade and a %s message %s the running best (`%s`): %s'
                    % (gname, lname, 'replaces' if got else 'does not replace', ' and '.join(unparse(c) for c in conj),
                       'a lower-scoring alternative with a longer message beats the best-scoring one' if gname == 'lower' and got else
                       ('the student does not receive the highest credit' if gname == 'higher' else
                        'ties are not broken by the longest message')), cw,
                    expected='grade > best grade or (grade == best grade and len(msg) > len(best msg))')
    # ---- best score, if named, is the winner's grade
    info.winner_names = {wname}
    info.best_names = {k for k, v in env.items() if isinstance(v, ast.Subscript) and fl.name_of(v.value) == wname
                       and lib.subscript_key(v) == 'grade_decimal'}
    r.ok(C + ': best score', "the best score is the winner's own grade_decimal (%s)" % (sorted(info.best_names) or 'read from the winner'),
         where)
    inside = fl.enclosing_loop(loop, fi.node) is not None
    anchor = info.collect_anchor or (info.outer.iter if info.host is fi and info.outer is not None else (info.comp if info.host is fi else None))
    if anchor is None:
        defs = [n for n in walk_own(fi.node) if isinstance(n, ast.Assign) and any(fl.name_of(t) == res_name for t in n.targets)]
        anchor = defs[0].value if len(defs) == 1 else None
    if anchor is None:
        r.undecided(C + ': selection order', 'cannot relate the selection to the collection of the results', where)
    else:
        r.check(not inside and lib.dominated(fi, [anchor], [init]), C + ': selection order', 'after all results are collected',
                'the selection runs inside the loop over the alternatives (on partial results)', where)
    return True


def d2_selection(ctx, idx, info):
    r = ctx.rule('D2.SELECT', 'verdict = longest message among the results whose grade equals the maximum grade', floor=4)
    with r:
        fi = idx.func(IG_CHECK)
        C = 'ItemGrader.check'
        if info.results is None:
            raise AnalysisError('results list not identified (see D1)')
        res_name = info.results
        env = fl.flat_env(fi.node)
        # `results = results_inl2`: follow plain aliases of the collected list forward to the name the selection reads
        for _ in range(4):
            nxt = [k for k, v in env.items() if isinstance(v, ast.Name) and v.id == res_name]
            if len(nxt) != 1:
                break
            res_name = nxt[0]
        info.results_alias = res_name
        rets = lib.returns_of(fi.node)
        if not rets or not all(isinstance(x.value, ast.Name) for x in rets) or len({x.value.id for x in rets}) != 1:
            raise AnalysisError('ItemGrader.check: the returns do not all hand back one name')
        wname = rets[0].value.id
        W, aliases = _follow(rets[0].value, env)
        if isinstance(W, ast.Name):
            if _fold_selection(r, fi, C, info, res_name, W.id, env):
                return
            raise AnalysisError('ItemGrader.check: the returned name `%s` is not bound exactly once' % W.id)
        info.winner_names = set(aliases)
        where = lib.loc(fi, W) if hasattr(W, 'lineno') else fi.loc
        # ---- winner among the candidates
        cand = None
        if isinstance(W, ast.Call) and isinstance(W.func, ast.Name) and W.func.id in ('max', 'min') and len(W.args) == 1:
            key = lib.get_kw(W, 'key')
            cand = W.args[0]
            if key is None:
                r.violation(C + ': winner', 'ties are broken by comparing the result dicts themselves (no key): not by message length',
                            where, expected="max(candidates, key=lambda r: len(r['msg']))", found=unparse(W))
            else:
                sign = _key_sign(key, fi, idx)
                if sign is None:
                    r.undecided(C + ': winner', 'key function not recognised: %s' % short(key), where)
                else:
                    longest = (W.func.id == 'max') == (sign > 0)
                    r.check(longest, C + ': winner', 'the candidate with the longest message',
                            'among the best-scoring results the one with the SHORTEST message is reported (`%s`): a specific feedback '
                            'message loses against an empty one' % short(W), where,
                            expected="max(candidates, key=lambda r: len(r['msg']))", found=unparse(W))
        elif isinstance(W, ast.Subscript) and isinstance(W.slice, (ast.Constant, ast.UnaryOp)) and \
                isinstance(nf.const_value(W.slice, None), int):
            cand = W.value
            r.violation(C + ': winner', 'among the best-scoring results the one at position %s is reported, not the one with the longest '
                        'message: the feedback depends on the listing order' % unparse(W.slice), where,
                        expected="max(candidates, key=lambda r: len(r['msg']))", found=unparse(W))
        else:
            r.undecided(C + ': winner', 'selection not recognised: %s' % short(W), where)
        if cand is None:
            return
        # ---- candidates = results with the best score
        env_x = {k: v for k, v in env.items() if k != res_name}
        cexpr = cand
        while isinstance(cexpr, ast.Name) and cexpr.id != res_name and cexpr.id in env:
            cexpr = env[cexpr.id]
        if isinstance(cexpr, ast.Name) and cexpr.id == res_name:
            r.violation(C + ': candidates', 'the winner is chosen among ALL results by message length: a lower-scoring alternative with a '
                        'longer message beats the best-scoring one', where, expected="[r for r in results if r['grade_decimal'] == best]")
            return
        cw = lib.loc(fi, cexpr) if hasattr(cexpr, 'lineno') else where
        if not (isinstance(cexpr, (ast.ListComp, ast.GeneratorExp)) and len(cexpr.generators) == 1
                and isinstance(cexpr.generators[0].target, ast.Name)):
            r.undecided(C + ': candidates', 'not a filter comprehension: %s' % short(cexpr), cw)
            return
        g = cexpr.generators[0]
        rv = g.target.id
        seq, _ = fl.unwrap_seq(g.iter)
        if not (fl.name_of(seq) == res_name and isinstance(cexpr.elt, ast.Name) and cexpr.elt.id == rv):
            if isinstance(seq, ast.Subscript) and fl.mentions(seq, res_name):
                r.violation(C + ': candidates', 'only part of the results takes part in the selection (`%s`)' % short(seq), cw)
            else:
                r.undecided(C + ': candidates', 'comprehension not recognised: %s' % short(cexpr), cw)
            return
        if len(g.ifs) != 1:
            if not g.ifs:
                r.violation(C + ': candidates', 'the candidates are not filtered by score: a lower-scoring alternative with a longer '
                            'message wins', cw)
            else:
                r.undecided(C + ': candidates', 'several filters', cw)
            return
        flt = nf.canon(g.ifs[0])
        best = None
        if isinstance(flt, ast.Compare) and len(flt.ops) == 1:
            a, b = flt.left, flt.comparators[0]
            if nf.match("%s['grade_decimal']" % rv, b) is not None:
                a, b, flipped = b, a, True
            else:
                flipped = False
            if nf.match("%s['grade_decimal']" % rv, a) is not None:
                best = b
                op = flt.ops[0]
                keeps_best = isinstance(op, ast.Eq) or (isinstance(op, ast.LtE) and flipped)       # best <= r.grade
                if keeps_best:
                    r.ok(C + ': candidates', "results whose grade_decimal equals the best score", cw)
                else:
                    r.violation(C + ': candidates', 'the filter `%s` does not select the results that reach the best score'
                                % unparse(g.ifs[0]), cw, expected="%s['grade_decimal'] == best_score" % rv, found=unparse(g.ifs[0]))
        if best is None:
            r.undecided(C + ': candidates', 'filter not recognised: %s' % short(g.ifs[0]), cw)
            return
        # ---- best score = max of grade_decimal over all results
        bexpr, bnames = _follow(best, env)
        if isinstance(best, ast.Name):
            bnames = [best.id] + [n for n in bnames if n != best.id]
        # every single-assignment local that resolves to the same expression names the best score too
        info.best_names = set(bnames) | {k for k in env if _follow(ast.Name(id=k, ctx=ast.Load()), env)[0] is bexpr}
        bw = lib.loc(fi, bexpr) if hasattr(bexpr, 'lineno') else cw
        pats = ["max([_R['grade_decimal'] for _R in %s])" % res_name, "max(_R['grade_decimal'] for _R in %s)" % res_name]
        bexpr = fl.expand(bexpr, env_x)
        res = nf.classify(pats, bexpr)
        if res == nf.MATCH:
            r.ok(C + ': best score', "max of grade_decimal over all results", bw)
        elif isinstance(res, tuple):
            r.violation(C + ': best score', res[1] + ' -- the student no longer receives the highest credit earned against any '
                        'alternative', bw, expected=pats[0], found=unparse(bexpr))
        else:
            inner = bexpr.args[0] if isinstance(bexpr, ast.Call) and bexpr.args else None
            if isinstance(bexpr, ast.Subscript) and fl.mentions(bexpr, res_name) or \
                    (isinstance(inner, (ast.ListComp, ast.GeneratorExp)) and isinstance(inner.generators[0].iter, ast.Subscript)):
                r.violation(C + ': best score', 'the best score is taken from part of the results only (`%s`)' % short(bexpr), bw,
                            expected=pats[0])
            else:
                r.undecided(C + ': best score', 'not recognised: %s' % short(bexpr), bw)
        # selection happens after all results exist (only meaningful when the results are collected in check itself)
        wstmt = enclosing_stmt(W) if hasattr(W, '_parent') else None
        inside = wstmt is not None and fl.enclosing_loop(wstmt, fi.node) is not None
        anchor = None
        if info.collect_anchor is not None:
            anchor = info.collect_anchor
        elif info.host is fi and info.outer is not None:
            anchor = info.outer.iter
        elif info.host is fi and info.comp is not None:
            anchor = info.comp
        else:
            defs = [n for n in walk_own(fi.node) if isinstance(n, ast.Assign) and any(fl.name_of(t) == res_name for t in n.targets)]
            anchor = defs[0].value if len(defs) == 1 else None
        if anchor is None or wstmt is None:
            r.undecided(C + ': selection order', 'cannot relate the selection to the collection of the results', where)
        else:
            r.check(not inside and lib.dominated(fi, [anchor], [wstmt]), C + ': selection order', 'after all results are collected',
                    'the selection runs inside the loop over the alternatives (on partial results)', where)


# ----------------------------------------------------------------------------- D3
class _Unknown(Exception):
    pass


def _grade_classes(exprs, is_score):
    """Representatives of the order types of a grade in [0, 1] against every constant it is compared with in `exprs`."""
    consts = {0, 1}
    for t in exprs:
        for n in ast.walk(t):
            if isinstance(n, ast.Compare) and len(n.ops) == 1:
                for a, b in ((n.left, n.comparators[0]), (n.comparators[0], n.left)):
                    v = nf.const_value(b, None)
                    if is_score(a) and isinstance(v, (int, float)) and not isinstance(v, bool):
                        consts.add(v)
    pts = sorted(c for c in consts if 0 <= c <= 1)
    reps = []
    for i, c in enumerate(pts):
        reps.append(c)
        if i + 1 < len(pts):
            reps.append((c + pts[i + 1]) / 2.0)
    return reps


OK_FOR_GRADE = {'zero': (False,), 'partial': ('partial',), 'full': (True, False, 'partial')}


def _ok_options(g):
    """ok values a verdict with grade g can carry: ok follows the grade except at grade 1, where the author may pin it
    (validate_single_answer recomputes ok only when it is 'computed' or the grade differs from 1)."""
    return OK_FOR_GRADE['zero' if g == 0 else ('full' if g == 1 else 'partial')]


def _truth(e, empty, g, is_msg, is_score, is_ok=None, okv=None):
    """Truth of a guard for the class (winner's message empty?, order-type representative g of the best grade, ok value)."""
    if is_ok is not None and is_ok(e):
        return bool(okv)
    if is_ok is not None and isinstance(e, ast.Compare) and len(e.ops) == 1 and isinstance(e.ops[0], (ast.Is, ast.IsNot, ast.Eq, ast.NotEq)):
        for a, b in ((e.left, e.comparators[0]), (e.comparators[0], e.left)):
            if is_ok(a) and isinstance(b, ast.Constant) and (isinstance(b.value, (bool, str))):
                same = (okv is b.value) if isinstance(b.value, bool) or isinstance(okv, bool) else (okv == b.value)
                return same if isinstance(e.ops[0], (ast.Is, ast.Eq)) else not same
    if isinstance(e, (ast.BoolOp, ast.UnaryOp)) and is_ok is not None:
        if isinstance(e, ast.BoolOp):
            vals = [_truth(v, empty, g, is_msg, is_score, is_ok, okv) for v in e.values]
            return all(vals) if isinstance(e.op, ast.And) else any(vals)
        if isinstance(e.op, ast.Not):
            return not _truth(e.operand, empty, g, is_msg, is_score, is_ok, okv)
    import operator
    OPS = {ast.Eq: operator.eq, ast.NotEq: operator.ne, ast.Lt: operator.lt, ast.LtE: operator.le, ast.Gt: operator.gt,
           ast.GtE: operator.ge}

    def val(x):
        if is_msg(x):
            return ('msg', empty)
        if is_score(x):
            return ('num', g)
        if isinstance(x, ast.Call) and isinstance(x.func, ast.Name) and x.func.id == 'len' and len(x.args) == 1 and is_msg(x.args[0]):
            return ('num', 0 if empty else 1)       # order type of the length against 0
        if isinstance(x, ast.Constant) and isinstance(x.value, str):
            return ('str', x.value)
        if isinstance(x, ast.Constant) and isinstance(x.value, (int, float)) and not isinstance(x.value, bool):
            return ('num', x.value)
        raise _Unknown()
    if isinstance(e, ast.Constant) and isinstance(e.value, bool):
        return e.value
    if isinstance(e, ast.BoolOp):
        vals = [_truth(v, empty, g, is_msg, is_score) for v in e.values]
        return all(vals) if isinstance(e.op, ast.And) else any(vals)
    if isinstance(e, ast.UnaryOp) and isinstance(e.op, ast.Not):
        return not _truth(e.operand, empty, g, is_msg, is_score)
    if isinstance(e, ast.Compare) and len(e.ops) == 1 and type(e.ops[0]) in OPS:
        a, b = val(e.left), val(e.comparators[0])
        kinds = {a[0], b[0]}
        if kinds == {'msg', 'str'}:
            m, s_ = (a, b) if a[0] == 'msg' else (b, a)
            if s_[1] != '' or not isinstance(e.ops[0], (ast.Eq, ast.NotEq)):
                raise _Unknown()
            return m[1] if isinstance(e.ops[0], ast.Eq) else not m[1]
        if kinds == {'num'}:
            return OPS[type(e.ops[0])](a[1], b[1])
        raise _Unknown()
    v = val(e)
    if v[0] == 'msg':
        return not v[1]
    if v[0] == 'num':
        return bool(v[1])
    raise _Unknown()


def d3_wrong_msg(ctx, idx, info):
    r = ctx.rule('D3.WRONGMSG', "wrong_msg replaces the message iff msg == '' and best score == 0", floor=3)
    with r:
        fi = idx.func(IG_CHECK)
        C = 'ItemGrader.check: wrong_msg'
        rets = lib.returns_of(fi.node)
        if not rets or not all(isinstance(x.value, ast.Name) for x in rets) or len({x.value.id for x in rets}) != 1:
            raise AnalysisError('ItemGrader.check: the returns do not all hand back one name')
        wnames = {rets[0].value.id} | set(getattr(info, 'winner_names', ()))
        bests = set(getattr(info, 'best_names', ()))
        stores = [n for n in walk_own(fi.node) if isinstance(n, ast.Assign) and lib.mentions_config(n.value, 'wrong_msg')]
        if not stores:
            fl.absent(r, idx, C, "config['wrong_msg'] is never used: a wrong answer without specific feedback shows no message", fi.loc)
            return
        if len(stores) != 1:
            raise AnalysisError('ItemGrader.check: several uses of wrong_msg')
        st = stores[0]
        where = lib.loc(fi, st)
        tgt = st.targets[0]
        if isinstance(tgt, ast.Subscript) and fl.name_of(tgt.value) in wnames and lib.subscript_key(tgt) == 'msg' \
                and lib.is_config(st.value, 'wrong_msg'):
            r.ok(C + ' store', "winner['msg'] = config['wrong_msg']", where)
        elif isinstance(tgt, ast.Subscript) and lib.subscript_key(tgt) != 'msg' and fl.name_of(tgt.value) in wnames:
            r.violation(C + ' store', "wrong_msg is stored under key %r instead of 'msg'" % lib.subscript_key(tgt), where)
        elif isinstance(tgt, ast.Subscript) and lib.subscript_key(tgt) == 'msg' and info.outer is not None and info.host is fi \
                and any(x is info.outer for x in ancestors(st)):
            r.violation(C + ' store', 'wrong_msg is written into the individual results inside the loop over the alternatives, before the '
                        'best result is selected (`%s`): the replaced messages take part in the longest-message tie-break, so wrong_msg '
                        'can displace a specific feedback message of another zero-credit alternative' % short(st), where,
                        expected="winner['msg'] = config['wrong_msg'] after the selection")
            return
        else:
            r.undecided(C + ' store', 'not recognised: %s' % short(st), where)

        def is_msg(e):
            return isinstance(e, ast.Subscript) and fl.name_of(e.value) in wnames and lib.subscript_key(e) == 'msg'

        def is_score(e):
            return (isinstance(e, ast.Name) and e.id in bests) or \
                (isinstance(e, ast.Subscript) and fl.name_of(e.value) in wnames and lib.subscript_key(e) == 'grade_decimal')

        def is_ok(e):
            return isinstance(e, ast.Subscript) and fl.name_of(e.value) in wnames and lib.subscript_key(e) == 'ok'
        # the statements after the winner is known, as decision paths (nothing substituted: guards keep their names)
        body = fi.node.body
        wdef = [i for i, s_ in enumerate(body) if isinstance(s_, ast.Assign) and
                any(isinstance(x, ast.Name) and isinstance(x.ctx, ast.Store) and x.id in wnames for t in s_.targets for x in ast.walk(t))]
        if not wdef:
            r.undecided(C + ' condition', 'the winner is not bound by a top-level statement of check', where)
            return
        tail = body[wdef[-1] + 1:]
        if not any(any(n is st for n in ast.walk(s_)) for s_ in tail):
            r.undecided(C + ' condition', 'the wrong_msg store does not follow the selection of the winner', where)
            return
        names = fl.param_names(fi.node) + list({n.id for n in ast.walk(fi.node) if isinstance(n, ast.Name)})
        paths = nf.decision_paths(tail, keep_locals=tuple(names))
        guards = [g for p in paths for g in p.guards]
        reps = _grade_classes(guards, is_score)
        bad_ret = [p for p in paths if p.leaf.kind == 'fall' or (p.leaf.kind == 'ret' and fl.name_of(p.leaf.expr) not in wnames)]
        mismatch = None
        try:
            reads_ok = any(is_ok(n) for g_ in guards for n in ast.walk(g_))
            for empty in (True, False):
                for g in reps:
                    for okv in (_ok_options(g) if reads_ok else (None,)):
                        taken = [p for p in paths if all(_truth(x, empty, g, is_msg, is_score, is_ok, okv) for x in p.guards)]
                        if len(taken) != 1:
                            raise _Unknown()
                        p = taken[0]
                        stored = any(isinstance(e, ast.Assign) and lib.mentions_config(e.value, 'wrong_msg') for e in p.effects)
                        if stored != (empty and g == 0) and mismatch is None:
                            mismatch = (empty, g, stored, p, okv)
        except _Unknown:
            r.undecided(C + ' condition', 'a guard after the selection is neither a test of the winner\'s message nor of the best grade: %s'
                        % '; '.join(sorted({short(g, 60) for g in guards})), where)
            return
        if mismatch is None:
            r.ok(C + ' condition', "assigned exactly for (message empty, best grade 0) among the %d (message, grade order type) classes"
                 % (2 * len(reps)), where)
        else:
            empty, g, stored, p, okv = mismatch
            extra = ''
            if okv is not None:
                extra = (" -- the guard reads the verdict's ok flag, which the author can set independently of the grade (an answer "
                         "configured with 'ok': %r and full credit keeps ok=%r at grade 1), so it is not equivalent to `best grade == 0`"
                         % (okv, okv))
            r.violation(C + ' condition', 'for (winner\'s message %s, best grade %s%s) wrong_msg %s (path guards: %s): it must appear '
                        'exactly when the best grade is zero and no specific message applies%s'
                        % ('empty' if empty else 'non-empty', g, '' if okv is None else ', ok=%r' % (okv,),
                           'replaces the message' if stored else 'is not shown',
                           ' and '.join(unparse(x) for x in p.guards) or 'none', extra), where,
                        expected="if msg == '' and best_score == 0: msg = wrong_msg")
        if bad_ret:
            p = bad_ret[0]
            r.violation(C + ' order', 'a path after the selection %s' % ('falls off the end (returns None)' if p.leaf.kind == 'fall'
                                                                         else 'returns `%s` instead of the winner' % short(p.leaf.expr)),
                        lib.loc(fi, p.leaf.stmt) if p.leaf.stmt is not None else fi.loc)
        else:
            r.ok(C + ' order', 'every path after the selection returns the winner', where)


# ----------------------------------------------------------------------------- D4
def d4_copy(ctx, idx, info):
    r = ctx.rule('D4.COPY', 'the configured answers are never written: the answer is copied before its expect entry is narrowed',
                 floor=2)
    with r:
        fi = idx.func(IG_CHECK)
        hfi = info.host or fi
        C = 'ItemGrader.check'
        call = info.call
        if call is None:
            raise AnalysisError('check_response call not identified (see D1)')
        # stores in check and (if different) in the helper that hosts the loops
        tainted_kinds = {('self', 'config'), ('self', "config['answers']"), ('selfobj',)}
        n_exp = 0
        for f in ([fi] if hfi is fi else [fi, hfi]):
            fx = FunctionEffects(f, idx)
            tainted = set(tainted_kinds) | {('param', p) for p in f.params[1:2]} | \
                ({('param', p) for p in f.params if p not in ('self',)} if f is not fi else set())
            for m in fx.direct_mutations():
                hit = m.origins & tainted
                is_expect = "['expect']" in m.how
                if is_expect:
                    n_exp += 1
                if hit and (is_expect or f is fi and ('param', fi.params[1]) in hit):
                    r.violation(C + ': ' + m.how, 'the statement writes into an object that is (part of) the configured/passed answers '
                                '(%s): after the first submission the answer keeps only one entry of its expect tuple, so later '
                                'submissions and other alternatives are graded against a modified configuration'
                                % ', '.join(sorted('.'.join(map(str, h)) for h in hit)), lib.loc(f, m.node),
                                expected='answercopy = answer.copy() before the store')
                elif is_expect:
                    r.ok(C + ': ' + m.how, 'target is a fresh copy', lib.loc(f, m.node))
        a0 = call.args[0] if call.args else None
        where = lib.loc(hfi, call)
        if info.narrowed:
            a0 = ast.Name(id=info.narrowed, ctx=ast.Load())
        if info.comp is not None:
            av, ev_ = info.comp_vars
            if a0 is not None and any(nf.match(p.replace('_A', av).replace('_E', ev_), a0) is not None for p in FRESH_NARROWED):
                r.ok(C + ": store to ['expect']", 'a fresh dict with expect narrowed is built per (answer, entry)', where)
                r.ok(C + ': answer copy', 'fresh per call', where)
            else:
                r.undecided(C + ': check_response argument', 'not a fresh narrowed copy: %s' % short(a0), where)
            return
        if n_exp == 0:
            r.undecided(C + ": store to ['expect']", 'no narrowing store found', hfi.loc)
        if info.outer is None or not isinstance(a0, ast.Name):
            r.undecided(C + ': check_response argument', 'not recognised', where)
            return
        av = info.outer.target.id if isinstance(info.outer.target, ast.Name) else None
        defs = lib.assigned_value(hfi.node, a0.id)
        if a0.id == av:
            r.ok(C + ': check_response argument', 'the answer itself (never written)', where)
            return
        if len(defs) != 1:
            r.undecided(C + ': check_response argument', '%s is bound %d times' % (a0.id, len(defs)), where)
            return
        d = defs[0]
        copies = ['%s.copy()' % av, 'dict(%s)' % av, 'copy.copy(%s)' % av, 'copy.deepcopy(%s)' % av, 'deepcopy(%s)' % av,
                  'copy(%s)' % av]
        if any(nf.match(p, d) is not None for p in copies):
            inside = fl.enclosing_loop(d, hfi.node)
            r.check(inside is not None and any(inside is x for x in (info.outer, info.inner)), C + ': answer copy',
                    'copied once per answer inside the loop', 'the copy is not taken inside the loop over the answers', lib.loc(hfi, d))
        elif isinstance(d, ast.Name) and d.id == av:
            r.ok(C + ': answer copy', 'alias of the answer (stores reported separately)', lib.loc(hfi, d), nontrivial=False)
        else:
            r.undecided(C + ': answer copy', 'not recognised: %s' % short(d), lib.loc(hfi, d))


# ------------------------------------------------------------------------ self-test
_LOOP = ("                result = self.check_response(answercopy, student_input, **kwargs)\n"
         "                results.append(result)\n")

MUTANTS = [
    Mutant('break-on-first-hit', BASE, _LOOP, _LOOP + "                if result['ok']:\n                    break\n", 'D1'),
    Mutant('break-outer-on-hit', BASE, _LOOP, _LOOP + "            if results[-1]['ok'] is True:\n                break\n", 'D1'),
    Mutant('return-first-correct', BASE, _LOOP, _LOOP + "                if result['ok'] is True:\n                    return result\n", 'D1'),
    Mutant('skip-zero-credit-answers', BASE, "            answercopy = answer.copy()\n",
           "            if answer['grade_decimal'] == 0:\n                continue\n            answercopy = answer.copy()\n", 'D1'),
    Mutant('only-first-answer', BASE, "        for answer in answers:\n            # Iterate through each entry in the expect tuple",
           "        for answer in answers[:1]:\n            # Iterate through each entry in the expect tuple", 'D1'),
    Mutant('only-first-expect-entry-slice', BASE, "            for entry in answer['expect']:", "            for entry in answer['expect'][:1]:", 'D1'),
    Mutant('only-first-expect-entry', BASE, "            for entry in answer['expect']:\n                answercopy['expect'] = entry\n" + _LOOP,
           "            answercopy['expect'] = answer['expect'][0]\n            result = self.check_response(answercopy, student_input, **kwargs)\n            results.append(result)\n", 'D1'),
    Mutant('append-only-hits', BASE, _LOOP, "                result = self.check_response(answercopy, student_input, **kwargs)\n"
           "                if result['ok']:\n                    results.append(result)\n", 'D1'),
    Mutant('results-reset-per-answer', BASE, "            answercopy = answer.copy()\n", "            answercopy = answer.copy()\n            results = []\n", 'D1'),
    Mutant('best-is-min', BASE, "        best_score = max([r['grade_decimal'] for r in results])", "        best_score = min([r['grade_decimal'] for r in results])", 'D2'),
    Mutant('best-of-first', BASE, "        best_score = max([r['grade_decimal'] for r in results])", "        best_score = results[0]['grade_decimal']", 'D2'),
    Mutant('shortest-message', BASE, "        best_result_with_longest_msg = max(best_results, key=lambda r: len(r['msg']))",
           "        best_result_with_longest_msg = min(best_results, key=lambda r: len(r['msg']))", 'D2'),
    Mutant('negated-length-key', BASE, "        best_result_with_longest_msg = max(best_results, key=lambda r: len(r['msg']))",
           "        best_result_with_longest_msg = max(best_results, key=lambda r: -len(r['msg']))", 'D2'),
    Mutant('first-of-ties', BASE, "        best_result_with_longest_msg = max(best_results, key=lambda r: len(r['msg']))",
           "        best_result_with_longest_msg = best_results[0]", 'D2'),
    Mutant('longest-message-of-all', BASE, "        best_result_with_longest_msg = max(best_results, key=lambda r: len(r['msg']))",
           "        best_result_with_longest_msg = max(results, key=lambda r: len(r['msg']))", 'D2'),
    Mutant('candidates-not-best', BASE, "        best_results = [r for r in results if r['grade_decimal'] == best_score]",
           "        best_results = [r for r in results if r['grade_decimal'] != best_score]", 'D2'),
    Mutant('candidates-unfiltered', BASE, "        best_results = [r for r in results if r['grade_decimal'] == best_score]",
           "        best_results = [r for r in results]", 'D2'),
    Mutant('wrong-msg-or', BASE, "        if best_result_with_longest_msg['msg'] == \"\" and best_score == 0:",
           "        if best_result_with_longest_msg['msg'] == \"\" or best_score == 0:", 'D3'),
    Mutant('wrong-msg-ignores-message', BASE, "        if best_result_with_longest_msg['msg'] == \"\" and best_score == 0:", "        if best_score == 0:", 'D3'),
    Mutant('wrong-msg-ignores-score', BASE, "        if best_result_with_longest_msg['msg'] == \"\" and best_score == 0:",
           "        if best_result_with_longest_msg['msg'] == \"\":", 'D3'),
    Mutant('wrong-msg-below-full', BASE, "        if best_result_with_longest_msg['msg'] == \"\" and best_score == 0:",
           "        if best_result_with_longest_msg['msg'] == \"\" and best_score < 1:", 'D3'),
    Mutant('wrong-msg-when-message-present', BASE, "        if best_result_with_longest_msg['msg'] == \"\" and best_score == 0:",
           "        if best_result_with_longest_msg['msg'] != \"\" and best_score == 0:", 'D3'),
    Mutant('wrong-msg-never', BASE, "            best_result_with_longest_msg['msg'] = self.config[\"wrong_msg\"]\n", "            pass\n", 'D3'),
    Mutant('seeded-wrong-msg-before-selection', BASE, _LOOP + "\n        # Now find the best result for the student\n        best_score = max([r['grade_decimal'] for r in results])\n        best_results = [r for r in results if r['grade_decimal'] == best_score]\n        best_result_with_longest_msg = max(best_results, key=lambda r: len(r['msg']))\n\n        # Add in wrong_msg if appropriate\n        if best_result_with_longest_msg['msg'] == \"\" and best_score == 0:\n            best_result_with_longest_msg['msg'] = self.config[\"wrong_msg\"]\n",
           "                result = self.check_response(answercopy, student_input, **kwargs)\n                if result['msg'] == \"\" and result['grade_decimal'] == 0:\n                    result['msg'] = self.config[\"wrong_msg\"]\n                results.append(result)\n\n        best_score = max([r['grade_decimal'] for r in results])\n        best_results = [r for r in results if r['grade_decimal'] == best_score]\n        best_result_with_longest_msg = max(best_results, key=lambda r: len(r['msg']))\n", 'D3'),
    Mutant('seeded-fold-without-tie-guard', BASE, "        best_score = max([r['grade_decimal'] for r in results])\n        best_results = [r for r in results if r['grade_decimal'] == best_score]\n        best_result_with_longest_msg = max(best_results, key=lambda r: len(r['msg']))\n",
           "        best_result_with_longest_msg = results[0]\n        for result in results[1:]:\n            best = best_result_with_longest_msg\n            if result['grade_decimal'] > best['grade_decimal'] or len(result['msg']) > len(best['msg']):\n                best_result_with_longest_msg = result\n        best_score = best_result_with_longest_msg['grade_decimal']\n", 'D2'),
    Mutant('fold-prefers-shorter', BASE, "        best_score = max([r['grade_decimal'] for r in results])\n        best_results = [r for r in results if r['grade_decimal'] == best_score]\n        best_result_with_longest_msg = max(best_results, key=lambda r: len(r['msg']))\n",
           "        best_result_with_longest_msg = results[0]\n        for result in results[1:]:\n            best = best_result_with_longest_msg\n            if result['grade_decimal'] > best['grade_decimal'] or (result['grade_decimal'] == best['grade_decimal'] and len(result['msg']) < len(best['msg'])):\n                best_result_with_longest_msg = result\n        best_score = best_result_with_longest_msg['grade_decimal']\n", 'D2'),
    Mutant('seeded-wrong-msg-reads-ok-flag', BASE, "        if best_result_with_longest_msg['msg'] == \"\" and best_score == 0:",
           "        if best_result_with_longest_msg['msg'] == \"\" and not best_result_with_longest_msg['ok']:", 'D3'),
    Mutant('seeded-matrix-errors-handled-per-submission', 'mitxgraders/formulagrader/matrixgrader.py',
           "    def check_response(self, answer, student_input, **kwargs):\n        try:\n            with MathArray.enable_negative_powers(self.config['negative_powers']):\n                result = super(MatrixGrader, self).check_response(answer, student_input, **kwargs)",
           "    def check(self, answers, student_input, **kwargs):\n        try:\n            with MathArray.enable_negative_powers(self.config['negative_powers']):\n                result = super(MatrixGrader, self).check(answers, student_input, **kwargs)", 'D1'),
    Mutant('input-type-error-never-graded', 'mitxgraders/formulagrader/matrixgrader.py', "            elif self.config['answer_shape_mismatch']['is_raised']:\n                raise\n            else:\n                return {'ok': False, 'grade_decimal': 0, 'msg': str(err)}",
           "            else:\n                raise", 'D5'),
    Mutant('shape-errors-switch-inverted', 'mitxgraders/formulagrader/matrixgrader.py', "            elif self.config['shape_errors']:\n                raise", "            elif not self.config['shape_errors']:\n                raise", 'D5'),
    Mutant('seeded-policy-table-selected-before-coverage', 'mitxgraders/formulagrader/matrixgrader.py', [('class MatrixGrader(FormulaGrader):\n', "MATRIX_ERRORS = (ShapeError, InputTypeError, ArgumentShapeError, MathArrayError)\nErrorPolicy = namedtuple('ErrorPolicy', ['applies', 'classes', 'show_text'])\n\nclass MatrixGrader(FormulaGrader):\n"), ("    def check_response(self, answer, student_input, **kwargs):\n        try:\n            with MathArray.enable_negative_powers(self.config['negative_powers']):\n                result = super(MatrixGrader, self).check_response(answer, student_input, **kwargs)\n        except ShapeError as err:\n            if self.config['suppress_matrix_messages']:\n                return {'ok': False, 'msg': '', 'grade_decimal': 0}\n            elif self.config['shape_errors']:\n                raise\n            else:\n                return {'ok': False, 'msg': str(err), 'grade_decimal': 0}\n        except InputTypeError as err:\n            if self.config['suppress_matrix_messages']:\n                return {'ok': False, 'msg': '', 'grade_decimal': 0}\n            elif self.config['answer_shape_mismatch']['is_raised']:\n                raise\n            else:\n                return {'ok': False, 'grade_decimal': 0, 'msg': str(err)}\n        except (ArgumentShapeError, MathArrayError) as err:\n            # If we're using matrix quantities for noncommutative scalars, we\n            # might get an ArgumentShapeError from using functions of matrices,\n            # or a MathArrayError from taking a funny power of a matrix.\n            # Suppress these too.\n            if self.config['suppress_matrix_messages']:\n                return {'ok': False, 'msg': '', 'grade_decimal': 0}\n            raise\n        return result\n", "    error_policies = (\n        ErrorPolicy(applies=lambda config: config['suppress_matrix_messages'], classes=MATRIX_ERRORS, show_text=False),\n        ErrorPolicy(applies=lambda config: not config['shape_errors'], classes=(ShapeError, ), show_text=True),\n        ErrorPolicy(applies=lambda config: not config['answer_shape_mismatch']['is_raised'], classes=(InputTypeError, ), show_text=True),\n    )\n\n    def check_response(self, answer, student_input, **kwargs):\n        try:\n            with MathArray.enable_negative_powers(self.config['negative_powers']):\n                return super(MatrixGrader, self).check_response(answer, student_input, **kwargs)\n        except MATRIX_ERRORS as err:\n            policy = next((entry for entry in self.error_policies if entry.applies(self.config)), None)\n            if policy is not None and not isinstance(err, policy.classes):\n                policy = None\n            if policy is None:\n                raise\n            return {'ok': False, 'msg': str(err) if policy.show_text else '', 'grade_decimal': 0}\n")], None, 'D5'),
    Mutant('copy-dropped', BASE, "            answercopy = answer.copy()\n", "            answercopy = answer\n", 'D4'),
    Mutant('narrow-in-place', BASE, "                answercopy['expect'] = entry\n" + _LOOP,
           "                answer['expect'] = entry\n                result = self.check_response(answer, student_input, **kwargs)\n                results.append(result)\n", 'D4'),
]

BENIGN = [
    Benign('generator-max', BASE, "        best_score = max([r['grade_decimal'] for r in results])", "        best_score = max(r['grade_decimal'] for r in results)"),
    Benign('append-call-directly', BASE, _LOOP, "                results.append(self.check_response(answercopy, student_input, **kwargs))\n"),
    Benign('dict-copy', BASE, "            answercopy = answer.copy()\n", "            answercopy = dict(answer)\n"),
    Benign('copy-per-entry', BASE, "            answercopy = answer.copy()\n            for entry in answer['expect']:\n                answercopy['expect'] = entry\n",
           "            for entry in answer['expect']:\n                answercopy = answer.copy()\n                answercopy['expect'] = entry\n"),
    Benign('wrong-msg-reordered', BASE, "        if best_result_with_longest_msg['msg'] == \"\" and best_score == 0:",
           "        if 0 == best_score and not best_result_with_longest_msg['msg']:"),
    Benign('filter-flipped', BASE, "        best_results = [r for r in results if r['grade_decimal'] == best_score]",
           "        best_results = [res for res in results if best_score == res['grade_decimal']]"),
    Benign('selection-helper-extracted', BASE, "        best_score = max([r['grade_decimal'] for r in results])\n        best_results = [r for r in results if r['grade_decimal'] == best_score]\n        best_result_with_longest_msg = max(best_results, key=lambda r: len(r['msg']))\n\n        # Add in wrong_msg if appropriate\n        if best_result_with_longest_msg['msg'] == \"\" and best_score == 0:\n            best_result_with_longest_msg['msg'] = self.config[\"wrong_msg\"]\n\n        return best_result_with_longest_msg\n",
           "        best_score, best = self._pick_best_result(results)\n        if best['msg'] == \"\" and best_score == 0:\n            best['msg'] = self.config[\"wrong_msg\"]\n        return best\n\n    @staticmethod\n    def _pick_best_result(results):\n        def msg_length(result):\n            return len(result['msg'])\n        top = max(result['grade_decimal'] for result in results)\n        tied = [result for result in results if result['grade_decimal'] == top]\n        return top, max(tied, key=msg_length)\n"),
    Benign('loop-helper-extracted', BASE, "        results = []\n        for answer in answers:\n            # Iterate through each entry in the expect tuple\n            answercopy = answer.copy()\n            for entry in answer['expect']:\n                answercopy['expect'] = entry\n" + _LOOP,
           "        def check_all(alternatives):\n            collected = []\n            for answer in alternatives:\n                single = answer.copy()\n                for entry in answer['expect']:\n                    single['expect'] = entry\n                    collected.append(self.check_response(single, student_input, **kwargs))\n            return collected\n        results = check_all(answers)\n"),
    Benign('wrong-msg-early-return', BASE, "        if best_result_with_longest_msg['msg'] == \"\" and best_score == 0:\n            best_result_with_longest_msg['msg'] = self.config[\"wrong_msg\"]\n\n        return best_result_with_longest_msg\n",
           "        if not best_result_with_longest_msg['msg'] == \"\":\n            return best_result_with_longest_msg\n        if best_result_with_longest_msg['grade_decimal'] <= 0:\n            best_result_with_longest_msg['msg'] = self.config[\"wrong_msg\"]\n        return best_result_with_longest_msg\n"),
    Benign('results-comprehension', BASE, "        results = []\n        for answer in answers:\n            # Iterate through each entry in the expect tuple\n            answercopy = answer.copy()\n            for entry in answer['expect']:\n                answercopy['expect'] = entry\n" + _LOOP,
           "        results = [self.check_response(dict(answer, expect=entry), student_input, **kwargs)\n                   for answer in answers for entry in answer['expect']]\n"),
    Benign('generator-helper', BASE, "        results = []\n        for answer in answers:\n            # Iterate through each entry in the expect tuple\n            answercopy = answer.copy()\n            for entry in answer['expect']:\n                answercopy['expect'] = entry\n" + _LOOP,
           "        def single_expect_answers(alternatives):\n            for answer in alternatives:\n                answercopy = answer.copy()\n                for entry in answer['expect']:\n                    answercopy['expect'] = entry\n                    yield answercopy\n        results = [self.check_response(candidate, student_input, **kwargs)\n                   for candidate in single_expect_answers(answers)]\n"),
    Benign('running-best-fold', BASE, "        best_score = max([r['grade_decimal'] for r in results])\n        best_results = [r for r in results if r['grade_decimal'] == best_score]\n        best_result_with_longest_msg = max(best_results, key=lambda r: len(r['msg']))\n",
           "        best_result_with_longest_msg = results[0]\n        for result in results[1:]:\n            best = best_result_with_longest_msg\n            if result['grade_decimal'] > best['grade_decimal'] or (result['grade_decimal'] == best['grade_decimal'] and len(result['msg']) > len(best['msg'])):\n                best_result_with_longest_msg = result\n        best_score = best_result_with_longest_msg['grade_decimal']\n"),
    Benign('wrong-msg-ok-and-grade', BASE, "        if best_result_with_longest_msg['msg'] == \"\" and best_score == 0:",
           "        if best_result_with_longest_msg['msg'] == \"\" and best_result_with_longest_msg['ok'] is False and best_score == 0:"),
    Benign('results-alias', BASE, [("        results = []\n        for answer in answers:", "        collected = []\n        for answer in answers:"),
                                     ("                results.append(result)\n", "                collected.append(result)\n"),
                                     ("        # Now find the best result for the student\n", "        results = collected\n")], None),
    Benign('policy-table-first-covering-row', 'mitxgraders/formulagrader/matrixgrader.py', [('class MatrixGrader(FormulaGrader):\n', "MATRIX_ERRORS = (ShapeError, InputTypeError, ArgumentShapeError, MathArrayError)\nErrorPolicy = namedtuple('ErrorPolicy', ['applies', 'classes', 'show_text'])\n\nclass MatrixGrader(FormulaGrader):\n"), ("    def check_response(self, answer, student_input, **kwargs):\n        try:\n            with MathArray.enable_negative_powers(self.config['negative_powers']):\n                result = super(MatrixGrader, self).check_response(answer, student_input, **kwargs)\n        except ShapeError as err:\n            if self.config['suppress_matrix_messages']:\n                return {'ok': False, 'msg': '', 'grade_decimal': 0}\n            elif self.config['shape_errors']:\n                raise\n            else:\n                return {'ok': False, 'msg': str(err), 'grade_decimal': 0}\n        except InputTypeError as err:\n            if self.config['suppress_matrix_messages']:\n                return {'ok': False, 'msg': '', 'grade_decimal': 0}\n            elif self.config['answer_shape_mismatch']['is_raised']:\n                raise\n            else:\n                return {'ok': False, 'grade_decimal': 0, 'msg': str(err)}\n        except (ArgumentShapeError, MathArrayError) as err:\n            # If we're using matrix quantities for noncommutative scalars, we\n            # might get an ArgumentShapeError from using functions of matrices,\n            # or a MathArrayError from taking a funny power of a matrix.\n            # Suppress these too.\n            if self.config['suppress_matrix_messages']:\n                return {'ok': False, 'msg': '', 'grade_decimal': 0}\n            raise\n        return result\n", "    error_policies = (\n        ErrorPolicy(applies=lambda config: config['suppress_matrix_messages'], classes=MATRIX_ERRORS, show_text=False),\n        ErrorPolicy(applies=lambda config: not config['shape_errors'], classes=(ShapeError, ), show_text=True),\n        ErrorPolicy(applies=lambda config: not config['answer_shape_mismatch']['is_raised'], classes=(InputTypeError, ), show_text=True),\n    )\n\n    def check_response(self, answer, student_input, **kwargs):\n        try:\n            with MathArray.enable_negative_powers(self.config['negative_powers']):\n                return super(MatrixGrader, self).check_response(answer, student_input, **kwargs)\n        except MATRIX_ERRORS as err:\n            policy = next((entry for entry in self.error_policies\n                           if entry.applies(self.config) and isinstance(err, entry.classes)), None)\n            if policy is None:\n                raise\n            return {'ok': False, 'msg': str(err) if policy.show_text else '', 'grade_decimal': 0}\n")], None),
    Benign('log-in-loop', BASE, _LOOP, _LOOP + "                self.log('checked one alternative')\n"),
]
